"""Mutations of the anchored code used to test `./check C16` (each applied to the repository worktree, the 41 tests and
the check run, the worktree restored).  Usage: python notes/C16-mutations.py /tmp/rw/rxn [name ...]"""
import subprocess, sys, os, re, json

REPO = sys.argv[1]
VERIF = os.path.dirname(os.path.dirname(os.path.abspath(__file__)))
RQ = 'pgradd/RDkitWrapper/ReactionQuery.py'
RD = 'pgradd/RINGParser/ReactionQueryRead.py'

M = [
    ('m01_break_balance_sign', RD, "        self.electronbalance[idx1] += balance\n        self.electronbalance[idx2] += balance\n        reactionquery.transformations.append(BondBreak(",
     "        self.electronbalance[idx1] -= balance\n        self.electronbalance[idx2] -= balance\n        reactionquery.transformations.append(BondBreak("),
    ('m02_double_counts_one', RD, "            bondtype = Chem.BondType.DOUBLE\n            balance = 2", "            bondtype = Chem.BondType.DOUBLE\n            balance = 1"),
    ('m03_decrease_skips_a_step', RQ, "        elif bondtype.GetBondType().__str__() == 'TRIPLE':\n            return Chem.BondType().DOUBLE",
     "        elif bondtype.GetBondType().__str__() == 'TRIPLE':\n            return Chem.BondType().SINGLE"),
    ('m04_radical_increase_by_two', RQ, "atom.SetNumRadicalElectrons(atom.GetNumRadicalElectrons()+1)", "atom.SetNumRadicalElectrons(atom.GetNumRadicalElectrons()+2)"),
    ('m05_charge_unmapped_index', RQ, "class ChargeIncrease(transformation):\n    def __init__(self, idx):\n        self.idx = idx\n\n    def __call__(self, comb_mol, mapped_index):\n        atom = comb_mol.GetAtomWithIdx(mapped_index[self.idx])",
     "class ChargeIncrease(transformation):\n    def __init__(self, idx):\n        self.idx = idx\n\n    def __call__(self, comb_mol, mapped_index):\n        atom = comb_mol.GetAtomWithIdx(self.idx)"),
    ('m06_no_copy_per_match', RQ, "            products = self.combined_mol.__copy__()\n            for transform in self.transformations:\n                transform(products, matches)\n            products = Chem.GetMolFrags(products,",
     "            products = self.combined_mol\n            for transform in self.transformations:\n                transform(products, matches)\n            products = Chem.GetMolFrags(products,"),
    ('m07_balance_check_removed', RD, "        if s:\n            raise RINGReaderError(s)", "        if s and False:\n            raise RINGReaderError(s)"),
    ('m08_break_not_verified', RQ, "        if self.bondtype is not None:\n            checkbondtype('BondBreak',", "        if self.bondtype is not None and False:\n            checkbondtype('BondBreak',"),
    ('m09_modify_drops_old_order', RD, "        self.electronbalance[idx1] -= balance - balance1\n        self.electronbalance[idx2] -= balance - balance1",
     "        self.electronbalance[idx1] -= balance\n        self.electronbalance[idx2] -= balance"),
    ('m10_open_radical_counts_zero', RD, "                return constraint.CN.n\n        return None", "                return constraint.CN.n\n        return 0"),
    ('m11_modify_writes_old_type', RQ, "        comb_mol.AddBond(mapped_index[self.idx1],\n                         mapped_index[self.idx2], self.bondtype)",
     "        comb_mol.AddBond(mapped_index[self.idx1],\n                         mapped_index[self.idx2], self.oldtype or self.bondtype)"),
    ('m12_first_edit_skipped', RQ, "            products = self.combined_mol.__copy__()\n            for transform in self.transformations:", "            products = self.combined_mol.__copy__()\n            for transform in self.transformations[1:]:"),
    ('m13_last_product_set_dropped', RQ, "            product_list.append(products)\n        return tuple(product_list)", "            product_list.append(products)\n        return tuple(product_list[:5])"),
    ('m14_form_second_label_twice', RD, "        self.electronbalance[idx1] += -balance\n        self.electronbalance[idx2] += -balance\n        reactionquery.transformations.append(BondForm(idx1, idx2, bondtype))",
     "        self.electronbalance[idx2] += -balance\n        self.electronbalance[idx2] += -balance\n        reactionquery.transformations.append(BondForm(idx1, idx2, bondtype))"),
    ('m15_radical_set_not_verified', RQ, "        if self.oldradical is not None and\\\n                atom.GetNumRadicalElectrons() != self.oldradical:", "        if self.oldradical is not None and False and\\\n                atom.GetNumRadicalElectrons() != self.oldradical:"),
    ('m16_break_type_check_removed_in_reader', RD, "        elif bond.GetBondType() != bondtype:\n            raise RINGReaderError(\"BondBreak: Bond mismatch between two\",", "        elif False:\n            raise RINGReaderError(\"BondBreak: Bond mismatch between two\","),
    ('m17_ladder_error_class', RQ, "            raise ReactionQueryError('BondDecrease: Decreasing bond order',\n                                     'of aromatic bond is not supported')",
     "            raise ValueError('BondDecrease: Decreasing bond order',\n                                     'of aromatic bond is not supported')"),
    ('m18_matches_processed_in_reverse', RQ, "        for matches in self.combined_mol_match_index:\n            products = self.combined_mol.__copy__()",
     "        for matches in reversed(self.combined_mol_match_index):\n            products = self.combined_mol.__copy__()"),
]


def sh(cmd, **kw):
    return subprocess.run(cmd, shell=True, stdout=subprocess.PIPE, stderr=subprocess.STDOUT, text=True, **kw)


def main():
    only = set(sys.argv[2:])
    res = []
    for name, path, old, new in M:
        if only and name not in only:
            continue
        p = os.path.join(REPO, path)
        src = open(p).read()
        if src.count(old) != 1:
            print(name, 'PATTERN NOT FOUND (%d)' % src.count(old))
            continue
        open(p, 'w').write(src.replace(old, new))
        try:
            t = sh('cd %s && PYTHONPATH=%s PYTHONDONTWRITEBYTECODE=1 /venv/bin/python -m pytest -q -p no:cacheprovider --timeout=900 2>&1 | tail -1' % (REPO, REPO))
            c = sh('cd %s && REPO=%s ./check C16 2>&1 | tail -12' % (VERIF, REPO))
            viol = [l for l in c.stdout.split('\n') if l.startswith('VIOLATION')]
            what = []
            for l in viol[:3]:
                m = re.search(r'replay=(\S+)', l)
                if m and os.path.exists(os.path.join(VERIF, m.group(1))):
                    r = json.load(open(os.path.join(VERIF, m.group(1))))
                    what.append((r.get('what') or r.get('kind'), (r.get('input') or {}).get('text', '')[:110] if isinstance(r.get('input'), dict) else '',
                                 [b['name'] for b in r.get('no_longer_checks', [])]))
            last = c.stdout.strip().split('\n')[-1]
            print('%-40s tests: %-22s check: %s' % (name, t.stdout.strip()[-22:], last[:110]))
            for w in what:
                print('      ', w)
            res.append((name, t.stdout.strip(), last))
        finally:
            open(p, 'w').write(src)
    sh('cd %s && git status --short' % REPO)


if __name__ == '__main__':
    main()
