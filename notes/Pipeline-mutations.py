"""Mutations of the repository that break the *composition* `lib.Estimate(lib.GetDescriptors(x), 'thermochem').get_X(T)` while every
layer still looks plausible on its own (all pass the repository's 41 tests).  Usage:
    /venv/bin/python notes/Pipeline-mutations.py [names…]        (REPO=/tmp/rw/pipeline, framework /tmp/vw/pipeline)
Each mutation is applied, the repository's tests and `./check C03`, `./check C04` are run, the tree is restored."""
import subprocess, sys, os, json, re
REPO = os.environ.get('MUT_REPO', '/tmp/rw/pipeline')
VW = os.environ.get('MUT_VW', '/tmp/vw/pipeline')
LIB = 'pgradd/GroupAdd/Library.py'
GD = 'pgradd/ThermoChem/group_data.py'
SCH = 'pgradd/GroupAdd/Scheme.py'
MUTS = {
    # the estimator skips descriptors whose count is zero ("they contribute nothing"): values unchanged, but such a descriptor is no longer a
    # term of the estimate (its range is not intersected, its missing datum no longer reported)
    'P1_estimator_skips_zero_counts': (GD,
        "            count = groups[group]\n            correlation = lib[group]['thermochem']\n",
        "            count = groups[group]\n            if count == 0:\n                continue\n            correlation = lib[group]['thermochem']\n"),
    # the estimator takes counts as integers ("a group occurs a whole number of times"): right for every scheme without fractional remaps,
    # wrong for the halves the surface schemes' remaps produce — and not additive: int(0.5) + int(0.5) != int(1.0)
    'P2_estimator_truncates_counts': (GD,
        "            count = groups[group]\n            correlation = lib[group]['thermochem']\n",
        "            count = int(groups[group])\n            correlation = lib[group]['thermochem']\n"),
    # Estimate quietly drops descriptors the uncertainty basis does not know, so that `list.index` cannot fail
    'P3_estimate_drops_descriptors_outside_basis': (LIB,
        "        estimator_type = self._property_set_estimator_types[property_set_name]\n        return estimator_type(self, groups)\n",
        "        estimator_type = self._property_set_estimator_types[property_set_name]\n        if self.uq_contents:\n            groups = dict((g, n) for (g, n) in groups.items()\n                          if g in self.uq_contents['descriptors'])\n        return estimator_type(self, groups)\n"),
    # the library is keyed by the name as the file spells it instead of by the Group object
    'P4_library_keyed_by_file_spelling': (LIB,
        "                lib_contents[group] = property_sets\n            for name in other_descriptor_properties:",
        "                lib_contents[name] = property_sets\n            for name in other_descriptor_properties:"),
    # GetDescriptors no longer records the molecule on the library: the elemental reference of the next estimate belongs to an earlier molecule
    'P5_library_forgets_molecule': (LIB,
        "        self.name = mol\n        return self.scheme.GetDescriptors(mol)\n",
        "        if self.name is None:\n            self.name = mol\n        return self.scheme.GetDescriptors(mol)\n"),
    # Estimate memoises estimates by the set of descriptor names (counts ignored): the second molecule with the same names gets the first one's estimate
    'P6_estimate_cache_ignores_counts': (LIB,
        "        estimator_type = self._property_set_estimator_types[property_set_name]\n        return estimator_type(self, groups)\n",
        "        estimator_type = self._property_set_estimator_types[property_set_name]\n        cache = self.__dict__.setdefault('_estimates', {})\n        key = (property_set_name, frozenset(str(g) for g in groups))\n        if key not in cache:\n            cache[key] = estimator_type(self, groups)\n        return cache[key]\n"),
    # the final merge lets group counts override correction descriptors *and* drops descriptors whose count is not integral
    # (the halves of HalfCis-like remaps): a mixture of two halves has an integral count again
    'P7_final_merge_keeps_integral_counts_only': (SCH,
        "        all_descriptors = groups.copy()\n        all_descriptors.update(descriptors)\n        return all_descriptors\n",
        "        all_descriptors = groups.copy()\n        all_descriptors.update(dict((k, v) for (k, v) in descriptors.items()\n                                    if v == int(v)))\n        return all_descriptors\n"),
    # the missing-data check skips descriptors whose count is zero ("they cannot matter"): such a descriptor then blows up as a bare KeyError inside the estimator
    'P9_missing_check_skips_zero_counts': (LIB,
        "        missing_groups = [group for group in groups\n                          if property_set_name not in self[group]]\n",
        "        missing_groups = [group for group in groups\n                          if groups[group] and\n                          property_set_name not in self[group]]\n"),
    # remapped counts are kept as exact decimals: every count still compares equal to what it was, but Decimal*float is a TypeError in the getters
    'P10_remapped_counts_as_decimals': (SCH,
        "                    for remap in self.remaps[group]:\n                        nn = n*remap[0]\n",
        "                    for remap in self.remaps[group]:\n                        from decimal import Decimal\n                        nn = n*Decimal(repr(remap[0]))\n"),
    # the range loop of the estimator keeps the widest range instead of the intersection
    'P8_range_union_instead_of_intersection': (GD,
        "                    common_min = max(common_min, data_range[0])\n                    common_max = min(common_max, data_range[1])\n",
        "                    common_min = min(common_min, data_range[0])\n                    common_max = max(common_max, data_range[1])\n"),
}
if __name__ == '__main__':
    names = [a for a in sys.argv[1:] if not a.startswith('-')] or list(MUTS)
    checks = os.environ.get('MUT_CHECKS', 'C03 C04').split()
    for nm in names:
        f, old, new = MUTS[nm]
        p = os.path.join(REPO, f)
        s = open(p).read()
        assert s.count(old) == 1, nm
        open(p, 'w').write(s.replace(old, new, 1))
        try:
            t = subprocess.run('cd %s && PYTHONPATH=%s /venv/bin/python -m pytest -q -p no:cacheprovider --timeout=900 2>&1 | tail -1' % (REPO, REPO),
                               shell=True, capture_output=True, text=True).stdout.strip()
            print(nm, '| tests:', t)
            for chk in checks:
                env = dict(os.environ, REPO=REPO, VERIF_SEED=os.environ.get('VERIF_SEED', '0'))
                c = subprocess.run('cd %s && ./check %s' % (VW, chk), shell=True, capture_output=True, text=True, env=env)
                lines = [l[:200] for l in c.stdout.split('\n') if l.startswith(('VIOLATION', 'check ', 'MACHINERY'))]
                print('   ', chk, 'exit', c.returncode)
                for l in lines:
                    print('       ', l)
                    m = re.search(r'replay=(\S+)', l)
                    if m:
                        r = json.load(open(os.path.join(VW, m.group(1))))
                        print('            replay:', (r.get('what') or r.get('kind')), '|', json.dumps(r.get('input') or (r.get('disagreements') or [{}])[0].get('input'))[:260])
                        rp = subprocess.run('cd %s && ./check %s --replay %s' % (VW, chk, m.group(1)), shell=True, capture_output=True, text=True, env=env)
                        print('            replays:', 'exit', rp.returncode, '|', [l[:120] for l in rp.stdout.split('\n') if l.strip()][-1:])
                        os.remove(os.path.join(VW, m.group(1)))
                sys.stdout.flush()
        finally:
            subprocess.run('cd %s && git checkout -- . ' % REPO, shell=True)
