#!/bin/bash
# Mutations used for the wave-2 "links" work (C08 text path / layout, C14-T1, C12 <- C10).
# usage: VW=/path/to/framework RW=/path/to/pgradd-worktree notes/links-mutations.sh
# Each mutation is applied to $RW, the quick check is run, the replays are summarised, and $RW is restored (git checkout).
VW=${VW:-/tmp/vw/links}; RW=${RW:-/tmp/rw/links}
mut() {   # mut <prop> <file> <old> <new>
  prop=$1; file=$2
  python3 - "$RW/$file" "$3" "$4" <<'PY' || return
import sys
f, old, new = sys.argv[1:4]
s = open(f).read()
assert s.count(old) >= 1, 'pattern not found in ' + f
open(f, 'w').write(s.replace(old, new, 1))
PY
  (cd "$VW" && rm -f replays/$prop-*.json && REPO="$RW" VERIF_BUDGET_S=600 ./check $prop 2>&1 | grep -v '^KNOWN\|^here' | tail -3
   python3 - $prop <<'PY'
import json, glob, sys
for f in sorted(glob.glob('replays/%s-*.json' % sys.argv[1])):
    r = json.load(open(f))
    print('  REPLAY', r.get('kind', ''), '|', r.get('what', ''), '|', str(r.get('input', ''))[:120].replace('\n', '\\n'))
    print('     no longer checks:', sorted(set(b['name'] for b in (r.get('broken') or r.get('no_longer_checks') or []))))
PY
   rm -f replays/$prop-*.json)
  (cd "$RW" && git checkout -- .)
}
echo '== C08: skip_filler skips one character only'
mut C08 pgradd/RINGParser/Parser.py "        while self.peek() in filler:" "        if self.peek() in filler:"
echo '== C08: String() normalises identifiers (labels alpha-equivalent: only the text path sees it)'
mut C08 pgradd/RINGParser/Parser.py "        output.append(out)

    def __str__(self):
        return '<string>'" "        output.append(out.strip('_'))

    def __str__(self):
        return '<string>'"
echo '== C08: Grammar Symbols alternatives swapped'
mut C08 pgradd/RINGParser/Grammar.py "    'Symbols': Either(Literals(['any atom', '\$', 'heteroatom',
                                '&', 'heavy atom', 'X']), String())," "    'Symbols': Either(String(), Literals(['any atom', '\$', 'heteroatom',
                                '&', 'heavy atom', 'X'])),"
echo '== C08: FM2 / F22 repairs reverted'
(cd "$RW" && git revert --no-commit e97afc2 >/dev/null) && (cd "$VW" && REPO="$RW" ./check C08 2>&1 | grep -v '^KNOWN' | tail -2); (cd "$RW" && git revert --abort; git checkout -- .)
(cd "$RW" && git revert --no-commit 1428751 >/dev/null) && (cd "$VW" && REPO="$RW" ./check C08 2>&1 | grep -v '^KNOWN' | tail -2); (cd "$RW" && git revert --abort; git checkout -- .)
echo '== C14: inner table correlation built without the declared range'
mut C14 pgradd/ThermoChem/incomplete.py "ND_H_ref, ND_S_ref, Ts, ND_Cps, self.T_ref, self.get_range())" "ND_H_ref, ND_S_ref, Ts, ND_Cps, self.T_ref, None)"
echo '== C14: inner table correlation only for tables of more than 7 points'
mut C14 pgradd/ThermoChem/incomplete.py "        if self.ND_Cp_data:
            ND_H_ref = self.ND_H_ref if" "        if len(self.ND_Cp_data) > 7:
            ND_H_ref = self.ND_H_ref if"
echo '== C12: eV exponent (only C12_tab_units_from_si_reference sees it)'
mut C12 pgradd/Units/builtin.py "('eV', '1.602176487*10^-19 C V')," "('eV', '1.602176487*10^-18 C V'),"
echo '== C12: cal = 4.1868 J'
mut C12 pgradd/Units/builtin.py "('cal', '4.184 J')," "('cal', '4.1868 J'),"
echo '== C12: juxtaposition parsed as division'
mut C12 pgradd/Units/parser.py "                        result = ('expr', result, '*', self.parse_factor())" "                        result = ('expr', result, '/', self.parse_factor())"
# Lean-side: dropping `strictlyIncreasing` from PGA.LibTable.wfGroup breaks PGA/Props/C14Eval.lean (wfGroup_facts).
