import subprocess, sys, os, json, re
REPO='/tmp/rw/matcher'; VW='/tmp/vw/matcher'
MQ='pgradd/RDkitWrapper/MolQuery.py'; MR='pgradd/RINGParser/MolQueryRead.py'
MUTS = {
 'M1_ops_lt_le': (MQ, "       '<': op.lt,", "       '<': op.le,"),
 'M2_revert_F24': (MQ, "        elif not self.negate and not self.NringCN(n):", "        elif not self.NringCN(n):"),
 'M3_strong_drop_triple': (MQ, "            if rdkitbond.GetBondType() in [Chem.BondType.DOUBLE,\n                                           Chem.BondType.TRIPLE,", "            if rdkitbond.GetBondType() in [Chem.BondType.DOUBLE,"),
 'M4_conn_default_bond_any': (MR, "            bondquery = BondQuery('single')", "            bondquery = BondQuery('any')"),
 'M5_conn_default_cn': (MR, "            CN = ConstraintNumber('>=1')", "            CN = ConstraintNumber('>1')"),
 'M6_suffix_colon_1': (MR, "            constraint = AtomRadical(False, ConstraintNumber('=2'))", "            constraint = AtomRadical(False, ConstraintNumber('=1'))"),
 'M7_ringsize_off_by_one': (MQ, "                        if self.ring_sizeCN(len(ring)):\n                            return", "                        if self.ring_sizeCN(len(ring) - 1):\n                            return"),
 'M8_heavy_includes_H': (MR, "            atom = rdqueries.AtomNumGreaterQueryAtom(1)", "            atom = rdqueries.AtomNumGreaterQueryAtom(0)"),
 'M9_negative_is_plus1': (MR, "MolCharge(ConstraintNumber('=-1'))", "MolCharge(ConstraintNumber('=1'))"),
 'M10_first_atom_constraints_skipped': (MQ, "                for i in range(0, len(match_indice)):", "                for i in range(1, len(match_indice)):"),
 'M11_ring_bond_no_constraint': (MR, "        elif bondtype == 'ring':\n            molquery.mol.AddBond(idx, idx_connected, Chem.BondType.UNSPECIFIED)\n            molquery.AppendBondConstraint(idx, idx_connected,\n                                          BondConstraint(BondQuery(bondtype)))", "        elif bondtype == 'ring':\n            molquery.mol.AddBond(idx, idx_connected, Chem.BondType.UNSPECIFIED)"),
 'M12_stereo_no_flip': (MQ, "            if stereo == Chem.rdchem.BondStereo.STEREOZ:\n                stereo = Chem.rdchem.BondStereo.STEREOE\n            elif", "            if False:\n                stereo = Chem.rdchem.BondStereo.STEREOE\n            elif"),
 'M13_nosuffix_radical_free': (MR, "            constraints.append(AtomRadical(False, ConstraintNumber('=0')))", "            pass"),
 'M14_maxmatches_100': (MQ, "        maxMatches = 10000", "        maxMatches = 100"),
 'M15_conn_negate_swapped': (MQ, "        if self.negate:\n            if self.ConstraintNumber(count):\n                raise MolQueryError('AtomConnectivity: False. (Negate)',\n                                    'Matching bond: %s. Constraint:%s.'\n                                    % (count, self.ConstraintNumber))\n        else:\n            if not self.ConstraintNumber(count):\n                raise MolQueryError('AtomConnectivity: False. Matching'", "        if not self.negate:\n            if self.ConstraintNumber(count):\n                raise MolQueryError('AtomConnectivity: False. (Negate)',\n                                    'Matching bond: %s. Constraint:%s.'\n                                    % (count, self.ConstraintNumber))\n        else:\n            if not self.ConstraintNumber(count):\n                raise MolQueryError('AtomConnectivity: False. Matching'"),
 'M16_nonaromatic_prefix': (MR, "            return AtomIsAromatic(negate=True)", "            return AtomIsAromatic(negate=False)"),
 'M17_paraffinic_no_check': (MQ, "        if mol.HasSubstructMatch(Chem.MolFromSmiles('C=C')):\n            raise MolQueryError(\"MolParaffinic: There is double bond\")", "        if mol.HasSubstructMatch(Chem.MolFromSmiles('C#C')):\n            raise MolQueryError(\"MolParaffinic: There is double bond\")"),
 'M18_bonded_to_wrong_index': (MR, "            idx_connected = molquery.atom_names.index(tree[3][1])", "            idx_connected = max(0, molquery.atom_names.index(tree[3][1]) - 1) if len(molquery.atom_names) > 3 else molquery.atom_names.index(tree[3][1])"),
}
MUTS.update({
 'M19_plusdot_charge_minus': (MR, "        if tree[0] == '+.':\n            constraint = AtomRadical(False, ConstraintNumber('=1'))\n            atom.ExpandQuery(rdqueries.FormalChargeEqualsQueryAtom(1))", "        if tree[0] == '+.':\n            constraint = AtomRadical(False, ConstraintNumber('=1'))\n            atom.ExpandQuery(rdqueries.FormalChargeEqualsQueryAtom(-1))"),
 'M20_neutral_is_plus1': (MR, "MolCharge(ConstraintNumber('=0'))", "MolCharge(ConstraintNumber('=1'))"),
 'M21_ringsize_negation_dropped': (MR, "        return AtomRing(negate, CN)", "        return AtomRing(False, CN)"),
 'M22_hetero_without_S': (MR, "            atom.ExpandQuery(rdqueries.AtomNumEqualsQueryAtom(16),", "            atom.ExpandQuery(rdqueries.AtomNumEqualsQueryAtom(15),"),
 'M23_metal_threshold': (MR, "            atom = rdqueries.AtomNumGreaterQueryAtom(19)", "            atom = rdqueries.AtomNumGreaterQueryAtom(20)"),
 'M24_allylic_triple': (MQ, "            if bond.GetBondType() == Chem.BondType.DOUBLE:\n                yes = True", "            if bond.GetBondType() == Chem.BondType.TRIPLE:\n                yes = True"),
 'M25_cyclic_swapped': (MQ, "        if not mol.GetRingInfo().NumRings():\n            raise MolQueryError(\"MolCyclic: Mol isn't cyclic\")", "        if mol.GetRingInfo().NumRings():\n            raise MolQueryError(\"MolCyclic: Mol isn't cyclic\")"),
 'M26_cn_default_operator': (MQ, "        elif type(s) == list and len(s) == 1:\n            self.operator = '='", "        elif type(s) == list and len(s) == 1:\n            self.operator = '>='"),
 'M28_partial_without_zero': (MQ, "                                           Chem.BondType.OTHER,\n                                           Chem.BondType.ZERO]:", "                                           Chem.BondType.OTHER]:"),
})
names = sys.argv[1:] or list(MUTS)
res = {}
for nm in names:
    f, old, new = MUTS[nm]
    p = os.path.join(REPO, f)
    s = open(p).read()
    assert s.count(old) >= 1, nm
    open(p, 'w').write(s.replace(old, new, 1))
    try:
        t = subprocess.run('cd %s && PYTHONPATH=%s /venv/bin/python -m pytest -q -p no:cacheprovider --timeout=900 2>&1 | tail -1' % (REPO, REPO), shell=True, capture_output=True, text=True).stdout.strip()
        env = dict(os.environ, REPO=REPO, VERIF_SEED=os.environ.get('VERIF_SEED', '0'))
        c = subprocess.run('cd %s && ./check C08' % VW, shell=True, capture_output=True, text=True, env=env)
        lines = [l[:230] for l in c.stdout.split('\n') if l.startswith(('VIOLATION', 'check ', 'MACHINERY'))]
        res[nm] = (t, c.returncode, lines)
        print(nm, '| tests:', t, '| exit', c.returncode)
        for l in lines: print('    ', l)
        for l in lines:
            m = re.search(r'replay=(\S+)', l)
            if m:
                r = json.load(open(os.path.join(VW, m.group(1))))
                print('       replay:', r.get('what') or r.get('kind'), '|', (r.get('input') or {}).get('text', '')[:100].replace('\n', ' '), '|', (r.get('input') or {}).get('molecule'))
                break
        sys.stdout.flush()
    finally:
        subprocess.run('cd %s && git checkout -- . ' % REPO, shell=True)
