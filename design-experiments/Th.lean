import Mathlib.Tactic.Linarith
import Mathlib.Tactic.Ring
import Mathlib.Tactic.FieldSimp
import Mathlib.Tactic.SplitIfs
import Mathlib.Algebra.Order.Field.Rat

structure RD where
  minT : Rat
  maxT : Rat
  minCp : Rat
  maxCp : Rat
  Href : Rat
  Tref : Rat
  I : Rat → Rat → Rat

def fin (d : RD) (T rH Ta Tb : Rat) : Rat := (rH + d.I Ta Tb) / T

def stage2 (d : RD) (T rH Ta Tb : Rat) : Rat :=
  if Ta ≥ d.maxT then
    if Tb ≥ d.maxT then (rH + d.maxCp * (Tb - Ta)) / T
    else fin d T (rH + d.maxCp * (d.maxT - Ta)) d.maxT Tb
  else if Tb ≥ d.maxT then fin d T (rH + d.maxCp * (Tb - d.maxT)) Ta d.maxT
  else fin d T rH Ta Tb

def HoRT (d : RD) (T : Rat) : Rat :=
  let Ta := d.Tref
  let Tb := T
  let rH := d.Href * Ta
  if Ta ≤ d.minT then
    if Tb ≤ d.minT then (rH + d.minCp * (Tb - Ta)) / T
    else stage2 d T (rH + d.minCp * (d.minT - Ta)) d.minT Tb
  else if Tb ≤ d.minT then stage2 d T (rH + d.minCp * (Tb - d.minT)) Ta d.minT
  else stage2 d T rH Ta Tb

/-- antiderivative of the extended heat capacity, anchored at minT -/
def F (d : RD) (t : Rat) : Rat :=
  if t ≤ d.minT then d.minCp * (t - d.minT)
  else if t ≥ d.maxT then d.I d.minT d.maxT + d.maxCp * (t - d.maxT)
  else d.I d.minT t

theorem H_consistent (d : RD) (T : Rat) (hT : T ≠ 0) (hmm : d.minT ≤ d.maxT)
    (hadd : ∀ a b c, d.I a b + d.I b c = d.I a c) :
    T * HoRT d T = d.Tref * d.Href + (F d T - F d d.Tref) := by
  have h0 : ∀ a, d.I a a = 0 := fun a => by have := hadd a a a; linarith
  have hneg : ∀ a b, d.I a b = - d.I b a := fun a b => by have := hadd a b a; have := h0 a; linarith
  unfold HoRT stage2 fin F
  simp only []
  rcases hmm.lt_or_eq with hlt | heq
  · have e1 := hadd d.minT d.Tref T; have e2 := hadd d.minT d.maxT T; have e3 := hadd d.minT d.Tref d.maxT
    have e4 := hadd d.minT T d.maxT; have e5 := hneg d.Tref d.minT; have e6 := hneg d.maxT d.minT
    have e7 := hadd d.Tref d.minT T; have e8 := hadd d.Tref d.minT d.maxT
    have e11 := hneg d.maxT T; have e12 := hneg d.Tref T
    have e13 := hneg d.maxT d.Tref; have e14 := hadd d.maxT d.minT T
    split_ifs <;> field_simp <;> linarith
  · rw [heq]
    have e1 := hadd d.maxT d.Tref T; have e5 := hneg d.Tref d.maxT
    have e7 := hadd d.Tref d.maxT T; have e9 := h0 d.maxT; have e11 := hneg d.maxT T; have e12 := hneg d.Tref T
    split_ifs <;> field_simp <;> linarith
#print axioms H_consistent
