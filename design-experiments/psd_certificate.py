"""Design-phase feasibility experiment (throwaway, not framework code).

Writes a Lean file whose theorem `cert` is a kernel-checked (`decide +kernel`, axioms: propext
only) certificate that a shipped 75x75 uncertainty matrix M satisfies
    10^7 * M_int - L L^T  is symmetric diagonally dominant with non-negative diagonal,
where M_int = 10^5 * M exactly (entries are 5-decimal literals) and L is the rounded Cholesky
factor of M - 5e-4 I.  Together with a general lemma (diagonally dominant => x^T E x >= 0) this
gives  forall x, 0 <= x^T M x.  Measured: 62 s wall for one matrix.  A single nested list
literal of 5625 entries exceeds the default elaboration heartbeats; one `def` per row does not.

usage: /venv/bin/python psd_certificate.py OUT.lean [library-dir-name]
"""
import sys
import numpy as np
import yaml

out = sys.argv[1]
libname = sys.argv[2] if len(sys.argv) > 2 else 'GuSolventGA2017Vac'
u = yaml.safe_load(open('/repo/pgradd/data/%s/uq.yaml' % libname))['UQ']['InvCovMat']
rows = u['mat']
n = len(rows)
Mi = [[int(round(float(x) * 10**5)) for x in r] for r in rows]
M = np.array(Mi, dtype=float) / 1e5
Lc = np.linalg.cholesky(M - 5e-4 * np.eye(n))
Li = [[int(round(Lc[i][j] * 10**6)) for j in range(n)] for i in range(n)]
lines = []
for nm, mat in (('M', Mi), ('L', Li)):
    for i, r in enumerate(mat):
        lines.append('def %s%d : List Int := [%s]' % (
            nm, i, ','.join(str(x) if x >= 0 else '(%d)' % x for x in r)))
    lines.append('def %s : List (List Int) := [%s]' % (nm, ','.join('%s%d' % (nm, i) for i in range(n))))
lines.append('''
def dot : List Int → List Int → Int
  | a :: as, b :: bs => a * b + dot as bs
  | _, _ => 0
def absI (x : Int) : Int := if x < 0 then -x else x
def rowOk (i : Nat) (mi li : List Int) : Bool :=
  let e : List Int := (List.zip mi L).map (fun (m, lj) => m * 10000000 - dot li lj)
  let d := e.getD i 0
  let off := (e.foldl (fun s x => s + absI x) 0) - absI d
  decide (off ≤ d)
def certOk : Bool := ((List.zip M L).zipIdx).all (fun ((mi, li), i) => rowOk i mi li)
def symOk : Bool := (List.range M.length).all fun i => (List.range M.length).all fun j =>
  (M.getD i []).getD j 0 == (M.getD j []).getD i 0
theorem cert : certOk = true := by decide +kernel
theorem sym : symOk = true := by decide +kernel
#print axioms cert
''')
open(out, 'w').write('\n'.join(lines))
