inductive PExpr where
  | lit (s : List Char)
  | prim                       -- consumes exactly one char if any
  | opt (e : PExpr)
  | seq (a b : PExpr)
  | alt (a b : PExpr)
  | ref (n : Nat)
deriving Repr

inductive Res where
  | ok (pos : Nat) | fail | stuck | missing
deriving Repr, DecidableEq

structure Grammar where
  rules : Array PExpr
  rank  : Array Nat

def matchLit (inp : Array Char) (pos : Nat) (s : List Char) : Bool :=
  (List.range s.length).all fun i => inp[pos + i]? == s[i]?

/-- bound: strict upper bound for ranks of rules that may be entered at `pos`
    without having consumed input since the last rule entry. -/
def eval (G : Grammar) (inp : Array Char) (e : PExpr) (pos bound : Nat) : Res :=
  match e with
  | .lit s => if s.length = 0 then .stuck else
      if matchLit inp pos s ∧ pos + s.length ≤ inp.size then .ok (pos + s.length) else .fail
  | .prim => if pos < inp.size then .ok (pos + 1) else .fail
  | .opt a =>
      match eval G inp a pos bound with
      | .fail => .ok pos
      | r => r
  | .seq a b =>
      match eval G inp a pos bound with
      | .ok p =>
          if h : pos < p ∧ p ≤ inp.size then eval G inp b p (G.rules.size + 1)
          else if p = pos then eval G inp b pos bound
          else .stuck
      | r => r
  | .alt a b =>
      match eval G inp a pos bound with
      | .fail => eval G inp b pos bound
      | r => r
  | .ref n =>
      match G.rules[n]?, G.rank[n]? with
      | some body, some r => if r < bound then eval G inp body pos r else .stuck
      | _, _ => .missing
termination_by (inp.size - pos, bound, sizeOf e)
decreasing_by
  all_goals simp_wf
  all_goals first
    | (apply Prod.Lex.left; omega)
    | (apply Prod.Lex.right; apply Prod.Lex.left; omega)
    | (apply Prod.Lex.right; apply Prod.Lex.right; omega)

#eval eval ⟨#[.seq (.lit ['a']) (.opt (.ref 0))], #[0]⟩ "aaab".toList.toArray (.ref 0) 0 5

/-! static analysis -/
def nullE (nt : Array Bool) : PExpr → Bool
  | .lit s => s.length == 0
  | .prim => false
  | .opt _ => true
  | .seq a b => nullE nt a && nullE nt b
  | .alt a b => nullE nt a || nullE nt b
  | .ref n => nt[n]?.getD true

/-- every ref defined with a rank, every literal non-empty -/
def wfE (G : Grammar) : PExpr → Bool
  | .lit s => s.length != 0
  | .prim => true
  | .opt a => wfE G a
  | .seq a b => wfE G a && wfE G b
  | .alt a b => wfE G a && wfE G b
  | .ref n => decide (n < G.rules.size) && (match G.rank[n]? with | some r => decide (r < G.rules.size + 1) | none => false)

def leftOK (G : Grammar) (nt : Array Bool) : PExpr → Nat → Bool
  | .lit _, _ => true
  | .prim, _ => true
  | .opt a, bd => leftOK G nt a bd
  | .seq a b, bd => leftOK G nt a bd && (if nullE nt a then leftOK G nt b bd else true)
  | .alt a b, bd => leftOK G nt a bd && leftOK G nt b bd
  | .ref n, bd => match G.rank[n]? with | some r => decide (r < bd) | none => false

structure WF (G : Grammar) (nt : Array Bool) : Prop where
  sizes : G.rank.size = G.rules.size ∧ nt.size = G.rules.size
  wf    : ∀ n (h : n < G.rules.size), wfE G G.rules[n] = true
  left  : ∀ n (h : n < G.rules.size) r, G.rank[n]? = some r → leftOK G nt G.rules[n] r = true
  nul   : ∀ n (h : n < G.rules.size), nullE nt G.rules[n] = true → nt[n]? = some true

theorem leftOK_mono (G : Grammar) (nt) (e : PExpr) (b1 b2 : Nat) (h : b1 ≤ b2) :
    leftOK G nt e b1 = true → leftOK G nt e b2 = true := by
  induction e with
  | lit s => simp [leftOK]
  | prim => simp [leftOK]
  | opt a ih => simpa [leftOK] using ih
  | seq a b iha ihb =>
      simp only [leftOK, Bool.and_eq_true]
      intro ⟨h1, h2⟩
      refine ⟨iha h1, ?_⟩
      split <;> simp_all
  | alt a b iha ihb =>
      simp only [leftOK, Bool.and_eq_true]
      intro ⟨h1, h2⟩; exact ⟨iha h1, ihb h2⟩
  | ref n =>
      simp only [leftOK]
      split <;> simp
      omega

/-- with all refs well-formed, leftOK holds at the top bound -/
theorem leftOK_top (G : Grammar) (nt) (e : PExpr) : wfE G e = true → leftOK G nt e (G.rules.size + 1) = true := by
  induction e with
  | lit s => simp [leftOK]
  | prim => simp [leftOK]
  | opt a ih => simpa [leftOK, wfE] using ih
  | seq a b iha ihb =>
      simp only [leftOK, wfE, Bool.and_eq_true]
      intro ⟨h1, h2⟩
      refine ⟨iha h1, ?_⟩
      split
      · exact ihb h2
      · rfl
  | alt a b iha ihb =>
      simp only [leftOK, wfE, Bool.and_eq_true]
      intro ⟨h1, h2⟩; exact ⟨iha h1, ihb h2⟩
  | ref n =>
      simp only [leftOK, wfE, Bool.and_eq_true]
      intro ⟨_, h2⟩
      split at h2 <;> simp_all

def Good (inp : Array Char) (nt : Array Bool) (e : PExpr) (pos : Nat) (r : Res) : Prop :=
  r ≠ .stuck ∧ r ≠ .missing ∧ ∀ p, r = .ok p → pos ≤ p ∧ p ≤ inp.size ∧ (p = pos → nullE nt e = true)

theorem eval_good (G : Grammar) (nt : Array Bool) (hG : WF G nt) (inp : Array Char) :
    ∀ e pos bound, pos ≤ inp.size → wfE G e = true → leftOK G nt e bound = true →
      Good inp nt e pos (eval G inp e pos bound) := by
  intro e pos bound
  fun_induction eval G inp e pos bound with
  | case1 pos bound s h =>
      intro _ hw; simp [wfE, h] at hw
  | case2 pos bound s h hm =>
      intro hp _ _
      refine ⟨by simp, by simp, ?_⟩
      intro p hp'; cases hp'
      exact ⟨by omega, hm.2, fun h' => by omega⟩
  | case3 pos bound s h hm =>
      intro _ _ _; exact ⟨by simp, by simp, by simp⟩
  | case4 pos bound h =>
      intro _ _ _
      refine ⟨by simp, by simp, ?_⟩
      intro p hp'; cases hp'; exact ⟨by omega, by omega, fun h' => by omega⟩
  | case5 pos bound h => intro _ _ _; exact ⟨by simp, by simp, by simp⟩
  | case6 pos bound a hf ih =>
      intro hp hw hl
      refine ⟨by simp, by simp, ?_⟩
      intro p hp'; cases hp'; exact ⟨by omega, hp, fun _ => by simp [nullE]⟩
  | case7 pos bound a hnf ih =>
      intro hp hw hl
      have g := ih hp (by simpa [wfE] using hw) (by simpa [leftOK] using hl)
      refine ⟨g.1, g.2.1, ?_⟩
      intro p hp'
      have := g.2.2 p hp'
      exact ⟨this.1, this.2.1, fun _ => by simp [nullE]⟩
  | case8 pos bound a b p hr h ih1 ih2 =>
      intro hp hw hl
      simp only [wfE, Bool.and_eq_true] at hw
      have g2 := ih2 h.2 hw.2 (leftOK_top G nt b hw.2)
      refine ⟨g2.1, g2.2.1, ?_⟩
      intro q hq
      have := g2.2.2 q hq
      exact ⟨by omega, this.2.1, fun h' => by omega⟩
  | case9 bound a b p hr h ih1 ih2 =>
      intro hp hw hl
      simp only [wfE, Bool.and_eq_true] at hw
      simp only [leftOK, Bool.and_eq_true] at hl
      have g1 := ih1 hp hw.1 hl.1
      have hn : nullE nt a = true := (g1.2.2 p hr).2.2 rfl
      have g2 := ih2 hp hw.2 (by simpa [hn] using hl.2)
      refine ⟨g2.1, g2.2.1, ?_⟩
      intro q hq
      have := g2.2.2 q hq
      exact ⟨this.1, this.2.1, fun h' => by simp [nullE, hn, this.2.2 h']⟩
  | case10 pos bound a b p hr h hpe ih1 =>
      intro hp hw hl
      simp only [wfE, Bool.and_eq_true] at hw
      simp only [leftOK, Bool.and_eq_true] at hl
      have g1 := ih1 hp hw.1 hl.1
      have := g1.2.2 p hr
      exfalso; omega
  | case11 pos bound a b hr ih1 =>
      intro hp hw hl
      simp only [wfE, Bool.and_eq_true] at hw
      simp only [leftOK, Bool.and_eq_true] at hl
      have g1 := ih1 hp hw.1 hl.1
      refine ⟨g1.1, g1.2.1, ?_⟩
      intro q hq; exact absurd hq (fun h => hr q h)
  | case12 pos bound a b hf ih1 ih2 =>
      intro hp hw hl
      simp only [wfE, Bool.and_eq_true] at hw
      simp only [leftOK, Bool.and_eq_true] at hl
      have g2 := ih2 hp hw.2 hl.2
      refine ⟨g2.1, g2.2.1, ?_⟩
      intro q hq
      have := g2.2.2 q hq
      exact ⟨this.1, this.2.1, fun h' => by simp [nullE, this.2.2 h']⟩
  | case13 pos bound a b hnf ih1 =>
      intro hp hw hl
      simp only [wfE, Bool.and_eq_true] at hw
      simp only [leftOK, Bool.and_eq_true] at hl
      have g1 := ih1 hp hw.1 hl.1
      refine ⟨g1.1, g1.2.1, ?_⟩
      intro q hq
      have := g1.2.2 q hq
      exact ⟨this.1, this.2.1, fun h' => by simp [nullE, this.2.2 h']⟩
  | case14 pos bound n body r hrank hrules hlt ih =>
      intro hp hw hl
      have hn : n < G.rules.size := by
        simp only [wfE, Bool.and_eq_true, decide_eq_true_eq] at hw; exact hw.1
      have hbody : G.rules[n] = body := by
        have := Array.getElem?_eq_getElem hn; rw [this] at hrules; exact Option.some.inj hrules
      have g := ih hp (hbody ▸ hG.wf n hn) (hbody ▸ hG.left n hn r hrank)
      refine ⟨g.1, g.2.1, ?_⟩
      intro q hq
      have := g.2.2 q hq
      refine ⟨this.1, this.2.1, fun h' => ?_⟩
      have h1 := hG.nul n hn (hbody ▸ this.2.2 h')
      simp [nullE, h1]
  | case15 pos bound n body r hrank hrules hlt =>
      intro hp hw hl
      simp only [leftOK, hrank, decide_eq_true_eq] at hl
      exact absurd hl hlt
  | case16 pos bound n hmiss =>
      intro hp hw hl
      exfalso
      simp only [wfE, Bool.and_eq_true, decide_eq_true_eq] at hw
      have h1 : G.rules[n]? = some G.rules[n] := Array.getElem?_eq_getElem hw.1
      have h2 : n < G.rank.size := by rw [hG.sizes.1]; exact hw.1
      have h3 : G.rank[n]? = some G.rank[n] := Array.getElem?_eq_getElem h2
      exact hmiss _ _ h1 h3

#print axioms eval_good
