/-- generic pruned enumeration: all lists `f` of length `k` over `range n` such that every
    non-empty prefix of `f` passes `ok`.  `pre` is the prefix built so far. -/
def enum (n : Nat) (ok : List Nat → Bool) : Nat → List Nat → List (List Nat)
  | 0, pre => [pre]
  | k+1, pre => (List.range n).flatMap fun a =>
      if ok (pre ++ [a]) then enum n ok k (pre ++ [a]) else []

def PrefOK (ok : List Nat → Bool) (f : List Nat) (from_ : Nat) : Prop :=
  ∀ m, from_ < m → m ≤ f.length → ok (f.take m) = true

theorem mem_enum (n : Nat) (ok : List Nat → Bool) :
    ∀ k pre f, f ∈ enum n ok k pre ↔
      (∃ suf, f = pre ++ suf ∧ suf.length = k ∧ (∀ a ∈ suf, a < n)) ∧ PrefOK ok f pre.length := by
  intro k
  induction k with
  | zero =>
    intro pre f
    simp only [enum, List.mem_singleton]
    constructor
    · rintro rfl
      exact ⟨⟨[], by simp, rfl, by simp⟩, fun m h1 h2 => by omega⟩
    · rintro ⟨⟨suf, rfl, hl, _⟩, _⟩
      have : suf = [] := List.eq_nil_of_length_eq_zero hl
      simp [this]
  | succ k ih =>
    intro pre f
    simp only [enum, List.mem_flatMap, List.mem_range]
    constructor
    · rintro ⟨a, ha, hf⟩
      split at hf
      · rename_i hok
        have := (ih (pre ++ [a]) f).1 hf
        obtain ⟨⟨suf, rfl, hl, hlt⟩, hp⟩ := this
        refine ⟨⟨a :: suf, by simp, by simp [hl], ?_⟩, ?_⟩
        · intro b hb; rcases List.mem_cons.1 hb with rfl | hb
          · exact ha
          · exact hlt b hb
        · intro m h1 h2
          by_cases hm : m = pre.length + 1
          · subst hm
            have : (pre ++ [a] ++ suf).take (pre.length + 1) = pre ++ [a] := by
              have := @List.take_append_length _ (pre ++ [a]) suf
              simpa using this
            rw [this]; exact hok
          · apply hp m
            · simp; omega
            · exact h2
      · simp at hf
    · rintro ⟨⟨suf, rfl, hl, hlt⟩, hp⟩
      match suf, hl with
      | a :: suf', hl' =>
        refine ⟨a, hlt a (by simp), ?_⟩
        have hok : ok (pre ++ [a]) = true := by
          have := hp (pre.length + 1) (by omega) (by simp)
          have e : (pre ++ a :: suf').take (pre.length + 1) = pre ++ [a] := by
            have := @List.take_append_length _ (pre ++ [a]) suf'
            simpa using this
          rwa [e] at this
        simp only [hok, if_true]
        apply (ih (pre ++ [a]) (pre ++ a :: suf')).2
        refine ⟨⟨suf', by simp, by simpa using hl', fun b hb => hlt b (by simp [hb])⟩, ?_⟩
        intro m h1 h2
        exact hp m (by simp at h1; omega) h2

#print axioms mem_enum
