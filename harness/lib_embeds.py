"""Property oracle of C08: the embeddings a RING fragment denotes, by direct enumeration.

Written from the property text and the reference tables of `lean/PGA/Spec/Embeds.lean` — not from the
implementation: it works on the generator's structured fragment (`lib_ringgen`) and on the plain graph extracted by
`lib_mol.mol_to_json`, never on the implementation's parse tree, query objects or RDKit's matcher.

`embeddings(frag, g)` -> sorted list of tuples | ('error', 'reader') when the fragment names an unknown element or an
undeclared label.  `brute(frag, g)` is the literal definition (all injective assignments) for tiny cases; the harness
cross-checks the two."""
import itertools

_PT = None


def atomic_number(sym):
    global _PT
    if _PT is None:
        from rdkit import Chem
        _PT = Chem.GetPeriodicTable()
    if not sym.isalpha() or not sym.isascii():
        return None
    try:
        z = _PT.GetAtomicNumber(sym)
    except Exception:
        return None
    return z if z > 0 else None


def default_valence(z):
    atomic_number('C')
    return _PT.GetDefaultValence(z)


class Unreadable(Exception):
    pass


CMP = {'>': lambda a, b: a > b, '<': lambda a, b: a < b, '>=': lambda a, b: a >= b, '<=': lambda a, b: a <= b,
       '=': lambda a, b: a == b}


def cn_holds(cn, x):
    op, n = cn
    return CMP[op or '='](x, n)


def negated(neg, v):
    return (not v) if neg else v


class Graph(object):
    def __init__(self, g):
        self.atoms = g['atoms']          # [Z, charge, radicals, aromatic, valence]
        self.bonds = g['bonds']          # [a, b, kind, ring, stereo, stereoatoms]
        self.rings = g['rings']
        self.n = len(self.atoms)
        self.adj = {}
        for b in self.bonds:
            self.adj[(b[0], b[1])] = b
            self.adj[(b[1], b[0])] = b
        self.nbrs = [[] for _ in range(self.n)]
        for b in self.bonds:
            self.nbrs[b[0]].append(b[1])
            self.nbrs[b[1]].append(b[0])


def class_z(sym):
    """None for a class symbol, else (Z, aromatic required)"""
    if sym in ('$', 'any atom', '&', 'heteroatom', 'X', 'heavy atom'):
        return None
    if sym[0].islower():
        z = atomic_number(sym[0].upper() + sym[1:])
        if z is None:
            raise Unreadable('element')
        return (z, True)
    if sym == 'M':
        return None
    z = atomic_number(sym)
    if z is None:
        raise Unreadable('element')
    return (z, False)


def class_holds(sym, a):
    Z = a[0]
    if sym in ('$', 'any atom'):
        return Z >= 1
    if sym in ('&', 'heteroatom'):
        return Z in (7, 8, 15, 16)
    if sym in ('X', 'heavy atom'):
        return Z >= 2
    cz = class_z(sym)
    if cz is None:          # 'M'
        return Z >= 20
    return Z == cz[0] and (not cz[1] or a[3] == 1)


def suffix_holds(sym, suffix, a, star=True):
    charge, rad = a[1], a[2]
    if suffix is None:
        return charge == 0 and rad == 0
    if suffix == '+':
        return charge == 1
    if suffix == '-':
        return charge == -1
    if suffix == '.':
        return rad == 1
    if suffix == ':':
        return rad == 2
    if suffix == ':.':
        return rad == 3
    if suffix == '+.':
        return charge == 1 and rad == 1
    if suffix == '-.':
        return charge == -1 and rad == 1
    if suffix == '?':
        return True
    if suffix == '*':
        if not star:            # the implementation's reading (finding FM1): `*` asks for nothing
            return True
        if charge != 1:
            return False
        cz = class_z(sym)
        if cz is not None and not cz[1]:
            return a[4] >= 0 and a[4] == default_valence(cz[0]) + 1
        return True
    raise ValueError(suffix)


def on_ring(G, x):
    return any(x in r for r in G.rings)


def prefix_holds(G, p, x):
    a = G.atoms[x]
    if p is None:
        return True
    if p == 'aromatic':
        return a[3] == 1
    if p == 'nonaromatic':
        return a[3] == 0
    if p == 'ringatom':
        return on_ring(G, x)
    if p == 'nonringatom':
        return not on_ring(G, x)
    if p == 'allylic':      # as the package uses the word: the atom bears a double bond
        return any(G.adj[(x, y)][2] == 'double' for y in G.nbrs[x])
    raise ValueError(p)


def bond_holds(word, b):
    kind, ring = b[2], b[3] == 1
    if word in ('single', 'double', 'triple', 'quadruple', 'aromatic'):
        return kind == word
    if word == 'any':
        return True
    if word == 'ring':
        return ring
    if word == 'nonring':
        return not ring
    if word == 'strong':
        return kind in ('double', 'triple', 'quadruple', 'aromatic')
    if word == 'partial':
        return kind in ('dative', 'other', 'zero')
    raise ValueError(word)


def type_holds(G, t, x, star=True):
    a = G.atoms[x]
    return class_holds(t['sym'], a) and suffix_holds(t['sym'], t.get('suffix'), a, star) and prefix_holds(G, t.get('prefix'), x)


def cons_holds(G, c, x, star=True):
    kind, neg = c[0], c[1]
    if kind == 'conn':
        _, _, cn, t, bw = c
        cn = cn or ('>=', 1)
        bw = bw or 'single'
        count = sum(1 for y in set(G.nbrs[x]) if bond_holds(bw, G.adj[(x, y)]) and type_holds(G, t, y, star))
        return negated(neg, cn_holds(cn, count))
    if kind == 'ringsize':
        return negated(neg, any(x in r and cn_holds(c[2], len(r)) for r in G.rings))
    if kind == 'radical':
        return negated(neg, cn_holds(c[2], G.atoms[x][2]))
    if kind == 'nring':
        return negated(neg, cn_holds(c[2], sum(1 for r in G.rings if x in r)))
    raise ValueError(kind)


def atom_holds(G, a, x, star=True):
    return type_holds(G, a, x, star) and all(cons_holds(G, c, x, star) for c in a['chain'])


def has_cc(G):
    return any(b[2] == 'double' and G.atoms[b[0]][0] == 6 and G.atoms[b[1]][0] == 6 for b in G.bonds)


def molprefix_holds(G, w):
    total = sum(a[1] for a in G.atoms)
    if w == 'positive':
        return total == 1
    if w == 'negative':
        return total == -1
    if w == 'neutral':
        return total == 0
    if w == 'aromatic':
        return any(a[3] == 1 for a in G.atoms)
    if w == 'olefinic':
        return has_cc(G)
    if w == 'paraffinic':
        return not has_cc(G)
    if w == 'cyclic':
        return len(G.rings) > 0
    if w == 'linear':
        return len(G.rings) == 0
    raise ValueError(w)


def same_side(b, x1, x2):
    refs = len(set(b[5]) & {x1, x2})
    if b[4] == 'z':
        return refs != 1
    if b[4] == 'e':
        return refs == 1
    return None


def stereo_holds(G, f, st):
    _, i1, neg, kind, i2, i3, i4 = st
    b = G.adj.get((f[i3], f[i4]))
    if b is None:
        return False
    if kind == 'notspecified':
        rel = b[4] == 'none'
    elif kind == 'cis':
        rel = same_side(b, f[i1], f[i2]) is True
    else:
        rel = same_side(b, f[i1], f[i2]) is False
    return negated(neg, rel)


def resolve(frag):
    """labels -> declaration indices; returns (atoms, bonds [(i, j, word)], stereo [('stereo', i1, neg, kind, i2, i3, i4)])"""
    names, atoms, bonds, stereo = [], [], [], []

    def idx(l):
        if l not in names:
            raise Unreadable('label')
        return names.index(l)
    for it in frag['items']:
        if it[0] == 'atom':
            a = it[1]
            class_z(a['sym'])
            for c in a['chain']:
                if c[0] == 'conn':
                    class_z(c[3]['sym'])
            names.append(a['label'])
            atoms.append(a)
            if a['bond']:
                bonds.append((len(atoms) - 1, idx(a['bond'][1]), a['bond'][0]))
        elif it[0] == 'ringbond':
            bonds.append((idx(it[1]), idx(it[3]), it[2]))
        else:
            _, l1, neg, kind, l2, l3, l4 = it
            stereo.append(('stereo', idx(l1), neg, kind, idx(l2), idx(l3), idx(l4)))
    return atoms, bonds, stereo


def is_embedding(G, atoms, bonds, stereo, molprefix, f, star=True):
    """the definition, clause by clause"""
    if len(f) != len(atoms) or len(set(f)) != len(f) or any(not (0 <= x < G.n) for x in f):
        return False
    if not all(molprefix_holds(G, w) for w in molprefix):
        return False
    for i, a in enumerate(atoms):
        if not atom_holds(G, a, f[i], star):
            return False
    for (i, j, w) in bonds:
        b = G.adj.get((f[i], f[j]))
        if b is None or not bond_holds(w, b):
            return False
    return all(stereo_holds(G, f, st) for st in stereo)


def brute(frag, g, star=True):
    G = Graph(g)
    try:
        atoms, bonds, stereo = resolve(frag)
    except Unreadable:
        return ('error', 'reader')
    return sorted(f for f in itertools.permutations(range(G.n), len(atoms))
                  if is_embedding(G, atoms, bonds, stereo, frag['molprefix'], f, star))


def embeddings(frag, g, star=True, G=None):
    """all embeddings: per-atom candidate sets from the unary clauses, then the assignments over them that are
    injective and satisfy the bond clauses, then the stereo clauses"""
    G = G or Graph(g)
    try:
        atoms, bonds, stereo = resolve(frag)
    except Unreadable:
        return ('error', 'reader')
    if not all(molprefix_holds(G, w) for w in frag['molprefix']):
        return []
    cands = [[x for x in range(G.n) if atom_holds(G, a, x, star)] for a in atoms]
    k = len(atoms)
    by_last = [[] for _ in range(k)]
    for (i, j, w) in bonds:
        by_last[max(i, j)].append((i, j, w))
    candset = [set(c) for c in cands]
    out = []
    f = []

    def rec(pos):
        if pos == k:
            t = tuple(f)
            if all(stereo_holds(G, t, st) for st in stereo):
                out.append(t)
            return
        pool = cands[pos]
        for (i, j, w) in by_last[pos]:
            o = j if i == pos else i
            if o != pos:        # a declared bond to an earlier atom: only its neighbours can stand here
                pool = [x for x in G.nbrs[f[o]] if x in candset[pos]]
                break
        for x in pool:
            if x in f:
                continue
            f.append(x)
            ok = True
            for (i, j, w) in by_last[pos]:
                b = G.adj.get((f[i], f[j]))
                if b is None or not bond_holds(w, b):
                    ok = False
                    break
            if ok:
                rec(pos + 1)
            f.pop()
    rec(0)
    return sorted(set(out))
