"""Shared machinery of the checks C01, C07 and C20 (all three run the Lean model `PGA.Model.Estimate`
against `GroupLibrary.Estimate` / `ThermochemGroupAdditive` / the `ThermochemBase` getters).

One *case* = (library, mapping as an ordered list of (descriptor, count), property-set name, T, unit strings,
S_elements flags).  `run_case` calls the real code, canonicalises what it returned, evaluates every
constituent's own correlation at T through the real per-group objects (these values are the data handed to the
model, as exact dyadic rationals) and builds the request for the model driver.  `compare` diffs a driver reply
with the implementation's outcome.  The property oracles live in c01.py / c07.py / c20.py.
"""
import math, os, types, json
from fractions import Fraction
from . import common

SET = 'thermochem'
ND_PROPS = (('cp', 'get_CpoR'), ('h', 'get_HoRT'), ('s', 'get_SoR'))
F12_WHAT = ('a zero reference value (H_ref: 0 / S_ref: 0 under a units block) is loaded as a unit-carrying Quantity; '
            'every estimate containing that group fails for the properties that use it')


def _imports():
    from rdkit import RDLogger
    RDLogger.DisableLog('rdApp.*')
    import pgradd.ThermoChem  # noqa: registers the property set
    from pgradd.GroupAdd.Library import GroupLibrary
    from pgradd.GroupAdd.Group import Group, Descriptor
    from pgradd.ThermoChem import ThermochemGroup
    from pgradd.Units import Quantity
    from pgradd import Error
    return GroupLibrary, Group, Descriptor, ThermochemGroup, Quantity, Error


class quiet:
    """the units code of the repository prints debugging lines ("here") on some error paths: keep them off the check's output"""

    def __enter__(self):
        import sys, io
        self._out = sys.stdout
        sys.stdout = io.StringIO()

    def __exit__(self, *a):
        import sys
        sys.stdout = self._out


def exact(v):
    """exact rational value of a number the implementation returned"""
    import numpy as np
    if isinstance(v, Fraction):
        return v
    if isinstance(v, bool):
        raise TypeError('bool')
    if isinstance(v, (int, np.integer)):
        return Fraction(int(v))
    if isinstance(v, (float, np.floating)):
        f = float(v)
        if not math.isfinite(f):
            raise ValueError('non-finite')
        return Fraction(f)
    raise TypeError(type(v).__name__)


def is_number(v):
    import numpy as np
    return isinstance(v, (int, float, Fraction, np.integer, np.floating)) and not isinstance(v, bool)


class LibInfo:
    """a library under test together with what the harness needs to know about it"""

    def __init__(self, label, lib, matlib=None, exact_mode=False):
        _, Group, Descriptor, _, Quantity, _ = _imports()
        self.label = label
        self.lib = lib
        self.matlib = matlib            # name of the shipped library whose generated matrix the driver should use
        self.exact_mode = exact_mode
        self.keys = list(lib.contents)  # insertion order
        self.names = [str(k) for k in self.keys]
        self.keyobj = dict(zip(self.names, self.keys))
        self.sets = {}
        self.corr = {}
        self.f12 = {}
        for k, nm in zip(self.keys, self.names):
            ps = lib.contents[k]
            self.sets[nm] = [str(s) for s in ps]
            if SET in ps:
                c = ps[SET]
                self.corr[nm] = c
                bad = set()
                if isinstance(getattr(c, 'ND_H_ref', None), Quantity):
                    bad |= {'h'}
                if isinstance(getattr(c, 'ND_S_ref', None), Quantity):
                    bad |= {'s'}
                if any(isinstance(v, Quantity) for v in (getattr(c, 'ND_Cp_data', None) or {}).values()):
                    bad |= {'cp', 'h', 's'}     # a zero heat-capacity entry: same loader shortcut, read by all three
                if bad:
                    self.f12[nm] = bad
        u = lib.uq_contents
        self.uq = None
        if u:
            self.uq = {'basis': [str(b) for b in u['descriptors']], 'mat': u['mat'], 'dof': u['dof'],
                       'rmse': u['RMSE'].thermochem}
        self._vals = {}

    # ------------------------------------------------------------------ per-group values (data of the model)
    def group_val(self, name, prop, T):
        """(json outcome, python value or None) of the group's own correlation"""
        key = (name, prop, T)
        if key not in self._vals:
            self._vals[key] = corr_val(self.corr[name], prop, T, self.f12.get(name, ()))
        return self._vals[key]

    def corr_json(self, name, T):
        c = self.corr[name]
        d = {p: self.group_val(name, p, T)[0] for p, _ in ND_PROPS}
        d['range'] = range_json(c.get_range())
        return d


def corr_val(c, prop, T, f12props=()):
    _, _, _, _, Quantity, Error = _imports()
    meth = dict(ND_PROPS)[prop]
    try:
        with quiet():
            v = getattr(c, meth)(T)
    except Error.IncompleteDataError:
        return ({'err': 'incomplete'}, None)
    except (Error.UnitsError, TypeError) as e:
        return ({'err': 'unitsF12' if prop in f12props else 'internal'}, None)
    except Exception as e:
        return ({'err': 'internal'}, None)
    if isinstance(v, Quantity):
        return ({'err': 'unitsF12' if prop in f12props else 'internal'}, None)
    try:
        return ({'ok': common.jrat(exact(v))}, v)
    except (TypeError, ValueError):
        return ({'err': 'internal'}, None)


def range_json(r):
    if r is None:
        return None
    return [common.jrat(exact(r[0])), common.jrat(exact(r[1]))]


def atoms_of(lib):
    """atomic numbers (explicit H included) of the molecule the library last decomposed, the way get_Selements gets them"""
    from rdkit import Chem
    nm = getattr(lib, 'name', None)
    if not isinstance(nm, str):
        return None
    try:
        m = Chem.MolFromSmiles(nm)
        if m is None:
            return None
        return [a.GetAtomicNum() for a in Chem.rdmolops.AddHs(m).GetAtoms()]
    except Exception:
        return None


def flag_json(f):
    if f is None or isinstance(f, (bool, str)):
        return f
    if isinstance(f, int):
        return f
    raise common.MachineryError('flag %r not expressible' % (f,))


# ---------------------------------------------------------------------- canonical outcomes of the implementation
def value_out(fn, site, info, mapping_names, prop_uses, lib_has_mol=True):
    """run a getter; ('ok', python number) or ('err', class).  `prop_uses` = which reference data the getter reads
    ('h', 's', 'cp'); `site` in {'nd', 'dim', 'sel', 'se'} tells which error classes can occur there."""
    _, _, _, _, Quantity, Error = _imports()
    f12 = any(p in info.f12.get(n, ()) for n in mapping_names for p in prop_uses)
    try:
        with quiet():
            v = fn()
    except Error.IncompleteDataError:
        return ('err', 'incomplete')
    except KeyError:
        return ('err', 'KeyError')
    except Error.UnitsError:
        return ('err', 'unitsF12' if f12 else 'internal:UnitsError')
    except TypeError as e:          # Boost.Python.ArgumentError is a TypeError
        if site == 'sel' and not lib_has_mol:
            return ('err', 'noMolecule')
        return ('err', 'unitsF12' if f12 else 'internal:' + type(e).__name__)
    except AttributeError:
        if site == 'se' and info.uq is None:
            return ('err', 'noUQ')
        return ('err', 'internal:AttributeError')
    except Exception as e:
        return ('err', 'internal:' + type(e).__name__)
    if isinstance(v, Quantity):
        return ('err', 'unitsF12' if f12 else 'internal:Quantity')
    if not is_number(v):
        return ('err', 'internal:returned ' + type(v).__name__)
    return ('ok', v)


def model_err(name):
    """model error class -> the canonical class the implementation side uses"""
    if name in ('badUnits',) or name.startswith('noElement'):
        return 'KeyError'
    if name == 'notSupplied':
        raise common.MachineryError('the model asked for a correlation value the harness did not supply')
    return name


EST_ERR = {'invalidSet': 'KeyError', 'keyError': 'KeyError', 'missing': 'GroupMissingDataError',
           'notInBasis': 'ValueError', 'shape': 'ValueError', 'emptyRange': 'AssertionError'}


class Case:
    pass


def eval_object(obj, T, units, flags, info, names, has_mol=True, dim_pairs=None):
    """every getter of a correlation object (an estimate or a group's own correlation) the properties observe"""
    ok = {}
    ok['cp'] = value_out(lambda: obj.get_CpoR(T), 'nd', info, names, ('cp',))
    ok['h'] = value_out(lambda: obj.get_HoRT(T), 'nd', info, names, ('h',))
    ok['s'] = [value_out(lambda f=f: obj.get_SoR(T, S_elements=f), 'sel' if f else 'nd', info, names, ('s',), has_mol) for f in flags]
    ok['g'] = [value_out(lambda f=f: obj.get_GoRT(T, S_elements=f), 'sel' if f else 'nd', info, names, ('h', 's'), has_mol) for f in flags]
    dim = []
    for ui, u in enumerate(units):
        row = []
        hv = cv = None
        for fi, f in enumerate(flags):
            if dim_pairs is not None and (ui, fi) not in dim_pairs:
                row.append(None)
                continue
            site = 'sel' if f else 'dim'
            if hv is None:      # H and Cp take no flag
                hv = value_out(lambda: obj.get_H(T, u), 'dim', info, names, ('h',))
                cv = value_out(lambda: obj.get_Cp(T, u), 'dim', info, names, ('cp',))
            row.append({
                'H': hv,
                'G': value_out(lambda: obj.get_G(T, u, S_elements=f), site, info, names, ('h', 's'), has_mol),
                'S': value_out(lambda: obj.get_S(T, u, S_elements=f), site, info, names, ('s',), has_mol),
                'Cp': cv})
        dim.append(row)
    ok['dim'] = dim
    return ok


def enc_num(x):
    """replayable spelling of a count / temperature"""
    import numpy as np
    if isinstance(x, Fraction):
        return 'q:%d/%d' % (x.numerator, x.denominator)
    if isinstance(x, (int, np.integer)) and not isinstance(x, bool):
        return 'i:%d' % int(x)
    return 'f:' + repr(float(x))


def dec_num(s):
    t, v = s.split(':', 1)
    if t == 'q':
        a, b = v.split('/')
        return Fraction(int(a), int(b))
    return int(v) if t == 'i' else float(v)


def rebuild(inp):
    """(LibInfo, mapping, T) of a recorded input"""
    import random
    if inp.get('synth'):
        sy = inp['synth']
        info = synthetic(random.Random(sy['seed']), inp['library'], **sy['kwargs'])
    elif inp.get('fresh'):
        GroupLibrary = _imports()[0]
        info = LibInfo(inp['library'], GroupLibrary.Load(inp['library']), matlib=None)
        info.matlib = inp['library'] if info.uq else None
    else:
        info = shipped(inp['library'])
    mapping = [((info.keyobj[nm] if kind == 'o' and nm in info.keyobj else nm), dec_num(n)) for nm, kind, n in inp['mapping']]
    return info, mapping, dec_num(inp['T'])


_CASE_NO = [0]
PRE_ELEMENTAL = [False]     # toggled by the harnesses: evaluate once relative to the elements before the recorded evaluation


def run_case(info, mapping, T, set_name=SET, units=(), flags=(None,), full_lib=False, decoys=(), want_se=False, dim_pairs=None):
    """mapping: ordered list of (key, count); key is a str, Group or Descriptor (unique as dict keys)."""
    GroupLibrary, Group, Descriptor, ThermochemGroup, Quantity, Error = _imports()
    lib = info.lib
    c = Case()
    c.info, c.mapping, c.T, c.set, c.units, c.flags = info, mapping, T, set_name, list(units), list(flags)
    groups = dict(mapping)
    if len(groups) != len(mapping):
        raise common.MachineryError('mapping keys are not unique')
    names = [str(k) for k, _ in mapping]
    c.names = names
    counts = [n for _, n in mapping]
    has_mol = atoms_of(lib) is not None
    # ------------------------------------------------------------ the implementation
    impl = {}
    est = None
    try:
        est = lib.Estimate(groups, set_name)
    except Error.GroupMissingDataError as e:
        impl = {'err': {'class': 'GroupMissingDataError', 'groups': [str(g) for g in e.groups], 'set': str(e.property_set_name)}}
    except (KeyError, ValueError, AssertionError) as e:
        impl = {'err': {'class': type(e).__name__}}
    except Exception as e:
        impl = {'err': {'class': 'internal:' + type(e).__name__}}
    c.est = est
    if est is not None:
        _CASE_NO[0] += 1
        if _CASE_NO[0] % 2 == 0:
            # the caller goes on using ITS dict after the estimate was made: the estimate must not follow it
            try:
                for k in list(groups):
                    groups[k] = groups[k] * 3 + 1
                groups['not a descriptor'] = 5
            except Exception:
                pass
        if PRE_ELEMENTAL[0] and has_mol:
            # an earlier request relative to the elements on the same estimate object must not change later plain values
            try:
                with quiet():
                    est.get_SoR(T, S_elements=True)
                    est.get_GoRT(T, S_elements=True)
            except Exception:
                pass
        ok = eval_object(est, T, units, flags, info, names, has_mol, dim_pairs)
        ok['range'] = est.get_range()
        ok['n'] = len(est.correlations)
        try:
            has_q = hasattr(est, 'Xp_invXX_Xp')
            qv = est.Xp_invXX_Xp if has_q else None
        except Exception as e:
            raise common.ImplFailure("reading an estimate's quadratic form x'Mx raises (after the caller went on using its own mapping dict)",
                                     {'library': info.label, 'mapping': [[nm, str(n)] for nm, n in zip(names, counts)]}, e)
        if has_q:
            import numpy as np
            q = np.asarray(qv)
            ok['uq'] = {'q': float(q.reshape(-1)[0]) if q.size == 1 else None, 'q_shape': list(q.shape), 'dof': est.dof}
        else:
            ok['uq'] = None
        if want_se:
            ok['se'] = {'cp': value_out(lambda: est.get_CpoR_SE(T), 'se', info, [], ()),
                        'h': value_out(lambda: est.get_HoRT_SE(T), 'se', info, [], ()),
                        's': value_out(lambda: est.get_SoR_SE(T), 'se', info, [], ())}
        impl = {'ok': ok}
    c.impl = impl
    # ------------------------------------------------------------ the constituents' own values and the request
    c.group = {}
    for nm in names:
        if nm in info.corr:
            c.group[nm] = {p: info.group_val(nm, p, T) for p, _ in ND_PROPS}
    listed = list(info.names) if full_lib else [n for n in dict.fromkeys(names + list(decoys)) if n in info.sets]
    entries = []
    for nm in listed:
        sets = []
        for s in info.sets[nm]:
            if s == SET and nm in c.group:
                sets.append([s, info.corr_json(nm, T)])
            else:
                sets.append([s, None])
        entries.append([nm, sets])
    uq = None
    if info.uq is not None:
        uq = {'rmse': corr_json_of(info.uq['rmse'], T), 'basis': info.uq['basis'], 'dof': info.uq['dof']}
        if info.matlib:
            uq['matlib'] = info.matlib
        else:
            uq['mat'] = [[common.jrat(exact(x)) for x in row] for row in info.uq['mat'].tolist()]
    c.request = {'lib': {'entries': entries, 'uq': uq, 'name': atoms_of(lib)},
                 'registered': sorted(GroupLibrary._property_set_estimator_types),
                 'groups': [[nm, common.jrat(exact(n))] for nm, n in zip(names, counts)],
                 'set': set_name, 'T': common.jrat(exact(T)), 'units': list(units), 'flags': [flag_json(f) for f in flags]}
    c.input = {'library': info.label, 'synth': getattr(info, 'synth', None),
               'mapping': [[nm, 's' if isinstance(k, str) else 'o', enc_num(n)] for (k, n), nm in zip(mapping, names)],
               'set': set_name, 'T': enc_num(T), 'units': list(units), 'flags': [flag_json(f) for f in flags],
               'decomposed': getattr(lib, 'name', None) if isinstance(getattr(lib, 'name', None), (str, type(None))) else '<object>'}
    return c


def corr_json_of(corr, T):
    d = {p: corr_val(corr, p, T)[0] for p, _ in ND_PROPS}
    d['range'] = range_json(corr.get_range())
    return d


def abs_sum(c, prop):
    """Σ|n·h_d| over the constituents whose own value exists (tolerance scale, DESIGN 2.3)"""
    tot = 0.0
    for (k, n) in c.mapping:
        g = c.group.get(str(k))
        if g and g[prop][1] is not None:
            tot += abs(float(n) * float(g[prop][1]))
    return tot


def spec_sum(c, prop):
    """the property's right-hand side: Σ n·h_d(T) over the mapping, exactly; or the error of the first failing constituent"""
    tot = Fraction(0)
    for (k, n) in c.mapping:
        out, v = c.group[str(k)][prop]
        if 'err' in out:
            return ('err', out['err'])
        tot += exact(n) * common.unjrat(out['ok'])
    return ('ok', tot)


def rfactor(u):
    """pmutt's R(u) as a float (None when rejected) -- used for tolerance scales and by the oracles"""
    import pgradd.ThermoChem.base as base
    try:
        return float(base.c.R(u))
    except KeyError:
        return None


# ---------------------------------------------------------------------- comparison with the model
def same_value(info, impl, model, scale):
    """impl = ('ok', number) | ('err', cls); model = {'ok': jrat} | {'err': name}"""
    if impl[0] == 'err':
        if 'err' not in model:
            return False
        m = model_err(model['err'])
        return m == impl[1] or (m == 'internal' and impl[1].startswith('internal'))
    if 'ok' not in model:
        return False
    m = common.unjrat(model['ok'])
    if info.exact_mode and isinstance(impl[1], (Fraction, int)):
        return Fraction(impl[1]) == m
    return common.close(impl[1], m, scale)


def compare_object(info, io, mo, sc, T, units, flags, sel_scale, parts, bad):
    """the getters of one correlation object: implementation outcome `io` vs model reply `mo`"""
    good = True
    if 'nd' in parts:
        for p in ('cp', 'h'):
            if not same_value(info, io[p], mo[p], sc[p]):
                good = bad(p, io[p], mo[p])
        for i, f in enumerate(flags):
            ss = sel_scale if f else 0.0
            if not same_value(info, io['s'][i], mo['s'][i], sc['s'] + ss):
                good = bad('s flag=%r' % (f,), io['s'][i], mo['s'][i])
            if not same_value(info, io['g'][i], mo['g'][i], sc['h'] + sc['s'] + ss):
                good = bad('g flag=%r' % (f,), io['g'][i], mo['g'][i])
    if 'dim' in parts:
        for ui, u in enumerate(units):
            rk, r1 = rfactor(u + '/K'), rfactor(u)
            for fi, f in enumerate(flags):
                a, b = io['dim'][ui][fi], mo['dim'][ui][fi]
                if a is None:
                    continue
                ss = sel_scale if f else 0.0
                for k, s_ in (('H', sc['h'] * abs(T) * (rk or 0.0)), ('G', (sc['h'] + sc['s'] + ss) * abs(T) * (rk or 0.0)),
                              ('S', (sc['s'] + ss) * (r1 or 0.0)), ('Cp', sc['cp'] * (r1 or 0.0))):
                    if not same_value(info, a[k], b[k], s_):
                        good = bad('%s units=%r flag=%r' % (k, u, f), a[k], b[k])
    return good


def compare(ctx, c, reply, op, parts=('nd',)):
    """diff one driver reply with the implementation's outcome; reports through ctx.disagree"""
    info, impl = c.info, c.impl

    def bad(what, i, m):
        ctx.disagree('corr:' + op, dict(c.input, part=what), i, m)
        return False

    if 'err' in impl or 'err' in reply:
        if not ('err' in impl and 'err' in reply):
            return bad('outcome', impl.get('err', 'estimate'), reply.get('err', 'estimate'))
        kind = reply['err']['kind']
        ctx.count('model_est_' + kind)
        if EST_ERR[kind] != impl['err']['class']:
            return bad('error class', impl['err'], reply['err'])
        if kind == 'missing' and reply['err']['groups'] != impl['err']['groups']:
            return bad('missing groups', impl['err'], reply['err'])
        return True
    io, mo = impl['ok'], reply['ok']
    T = float(c.T)
    sc = {p: abs_sum(c, p) for p, _ in ND_PROPS}
    good = True
    if 'nd' in parts:
        if io['n'] != mo['n']:
            good = bad('number of terms', io['n'], mo['n'])
        if range_json(io['range']) != mo['range']:
            good = bad('range', range_json(io['range']), mo['range'])
    sel_scale = 50.0 * len(c.request['lib']['name'] or [])
    good = compare_object(info, io, mo, sc, T, c.units, c.flags, sel_scale, parts, bad) and good
    if 'uq' in parts:
        if (io['uq'] is None) != (mo['uq'] is None):
            good = bad('uq presence', io['uq'], mo['uq'])
        elif io['uq'] is not None:
            mq = common.unjrat(mo['uq']['q'])
            if io['uq']['dof'] != mo['uq']['dof']:
                good = bad('dof', io['uq']['dof'], mo['uq']['dof'])
            if io['uq']['q'] is None:
                good = bad('q shape', io['uq']['q_shape'], '1x1')
            elif info.exact_mode:
                if Fraction(io['uq']['q']) != mq:
                    good = bad('q (exact)', io['uq']['q'], str(mq))
            elif not common.close(io['uq']['q'], mq, c.q_scale if hasattr(c, 'q_scale') else abs(float(mq))):
                good = bad('q', io['uq']['q'], float(mq))
    if 'se' in parts and 'se' in io:
        for p in ('cp', 'h', 's'):
            a, b = io['se'][p], mo['se2'][p]
            if a[0] == 'err':
                if not ('err' in b and model_err(b['err']) == a[1]):
                    good = bad('se ' + p, a, b)
            elif 'ok' not in b:
                good = bad('se ' + p, a, b)
            else:
                se2 = common.unjrat(b['ok'])
                v = float(a[1])
                if se2 < 0:
                    if not math.isnan(v):
                        good = bad('se %s (negative radicand)' % p, v, str(se2))
                elif not common.close(v, math.sqrt(se2) if se2 < 2**1000 else float('inf'), getattr(c, 'se_scale', 0.0)):
                    good = bad('se ' + p, v, math.sqrt(se2))
    return good


# ---------------------------------------------------------------------- libraries
_shipped = {}


def shipped_names():
    from .gen import uq as genuq
    return genuq.shipped_libraries()


def shipped(name):
    """LibInfo of a shipped library (one loaded instance per process, shared with the translator)"""
    if name not in _shipped:
        from .gen import uq as genuq
        lib = genuq.load(name)
        _shipped[name] = LibInfo(name, lib, matlib=name if lib.uq_contents else None)
    return _shipped[name]


def temperatures(info, rng, names, k):
    """k temperatures for a mapping: ends of the common range, heat-capacity knots, random interior points and a few outside"""
    los, his, knots = [], [], set()
    for nm in names:
        c = info.corr.get(nm)
        if c is None:
            continue
        r = c.get_range()
        if r is not None:
            los.append(float(r[0]))
            his.append(float(r[1]))
        for t in list(getattr(c, 'ND_Cp_data', {}) or {}):
            knots.add(float(t))
        knots.add(float(c.T_ref)) if is_number(getattr(c, 'T_ref', None)) else None
    lo = max(los) if los else 200.0
    hi = min(his) if his else 1500.0
    if hi < lo:
        lo, hi = hi, lo
    inside = sorted(t for t in knots if lo <= t <= hi)
    pool = [lo, hi]
    out = []
    for _ in range(k):
        r = rng.random()
        if r < 0.2:
            out.append(rng.choice(pool))
        elif r < 0.45 and inside:
            out.append(rng.choice(inside))
        elif r < 0.9:
            out.append(rng.uniform(lo, hi))
        else:
            out.append(rng.choice([lo - 1.0, hi + 1.0, math.nextafter(lo, -math.inf), math.nextafter(hi, math.inf), lo / 2, hi * 2]))
    return out


def random_count(rng, exact_mode=False):
    r = rng.random()
    if r < 0.45:
        return rng.randint(1, 6)
    if r < 0.55:
        return 0
    if r < 0.7:
        return -rng.randint(1, 4)
    if r < 0.85:
        return Fraction(rng.randint(-24, 24), rng.choice([2, 3, 4, 7, 8])) if exact_mode else rng.choice([0.217, 0.434, 0.5, 1.5, 2.25, -0.75, 1e-3, 3.7])
    if r < 0.93:
        return Fraction(rng.randint(-9, 9), rng.choice([2, 4, 8]))
    return float(rng.randint(-3, 5))


def random_mapping(info, rng, size, with_missing=0.0, pool=None):
    pool = pool if pool is not None else [n for n in info.names if n in info.corr]
    size = min(size, len(pool))
    names = rng.sample(pool, size)
    m = []
    for nm in names:
        key = nm if rng.random() < 0.6 else info.keyobj[nm]
        m.append((key, random_count(rng, info.exact_mode)))
    if with_missing and rng.random() < with_missing:
        for _ in range(rng.randint(1, 3)):
            nm = rng.choice(['C(C)(H)2(Zz)', 'Zz(H)4', 'no such descriptor', 'C(C)(H)3x', 'Q', 'ring strain?', 'C(Zz)2(H)2'])
            if nm not in [str(k) for k, _ in m] and nm not in info.sets:
                m.insert(rng.randint(0, len(m)), (nm, random_count(rng, info.exact_mode)))
    return m


class _NS(types.SimpleNamespace):
    pass


def synthetic_seeded(seed, label, **kwargs):
    import random
    info = synthetic(random.Random(seed), label, **kwargs)
    info.synth = {'seed': seed, 'kwargs': kwargs}
    return info


def synthetic(rng, label, n_groups=6, exact_mode=True, with_uq=False, ranges='some', extra_sets=True):
    """a library built through the real constructors; exact_mode: Fraction reference values and no Cp table
    (every property is then evaluated by the repository's own arithmetic on Fractions, exactly)"""
    GroupLibrary, Group, Descriptor, ThermochemGroup, Quantity, Error = _imports()
    import numpy as np
    alphabet = ['C(C)(H)3', 'C(C)2(H)2', 'C(C)3(H)', 'C(C)4', 'O(C)(H)', 'C(C)(H)2(O)', 'CO(C)(O)', 'O(CO)(H)', 'C[d](C[d])(H)2',
                'C(C)(H)2(Pt)', 'C(H)3(Pt)', 'N[A](C)(H)2', 'strain-3', 'surface-ring strain', 'Cyclohexane', 'CCPt1', 'x y', 'é']
    names = rng.sample(alphabet, min(n_groups, len(alphabet)))
    contents = []
    for i, nm in enumerate(names):
        def ref():
            r = rng.random()
            if r < 0.12:
                return None
            if exact_mode:
                return Fraction(rng.randint(-400, 400), rng.choice([1, 2, 3, 7, 8, 10])) if r > 0.2 else Fraction(0)
            return rng.choice([0.0, -8.5, 3.25, 12.0, -0.125, 40.5, 7.0])
        rg = None
        if ranges == 'all' or (ranges == 'some' and rng.random() < 0.6):
            lo = rng.choice([100.0, 200.0, 250.0, 298.15])
            rg = (lo, lo + rng.choice([0.0, 100.0, 700.0, 1200.0]))
        elif ranges == 'disjoint' and i < 2:
            rg = (100.0, 200.0) if i == 0 else (300.0, 400.0)
        tref = 298.15 if rg is None else rng.choice([rg[0], rg[1], (rg[0] + rg[1]) / 2])
        hr, sr = ref(), ref()
        try:
            corr = ThermochemGroup(ND_H_ref=hr, ND_S_ref=sr, ND_Cp_data={}, T_ref=tref, range=rg)
        except Exception as e:
            raise common.ImplFailure('a group correlation with valid data (reference values, no heat-capacity table, a valid range that '
                                     'may consist of a single temperature) cannot be constructed',
                                     {'ND_H_ref': str(hr), 'ND_S_ref': str(sr), 'T_ref': tref, 'range': rg}, e)
        kind = rng.random()
        key = nm
        if '(' in nm and kind < 0.6:
            key = Group.parse(None, nm)
        elif kind < 0.8:
            key = Descriptor(None, nm)
        ps = {SET: corr}
        if extra_sets and rng.random() < 0.2:
            ps = {'other': object(), SET: corr}
        contents.append((key, ps))
    if extra_sets:
        # entries that exist but carry no thermochemistry
        contents.append(('empty entry', {}))
        contents.append(('C(C)(H)2(N)', {'other': object()}))
    rng.shuffle(contents)
    uq = {}
    if with_uq:
        basis = [str(k) for k, ps in contents if SET in ps]
        if with_uq == 'partial' and len(basis) > 2:
            basis = basis[:-1]      # one library group is outside the basis
        rng.shuffle(basis)
        n = len(basis)
        A = [[rng.randint(-6, 6) / 8.0 for _ in range(n)] for _ in range(n)]
        if with_uq == 'indefinite':
            M = [[(A[i][j] + A[j][i]) / 2 for j in range(n)] for i in range(n)]
        else:
            M = [[sum(A[k][i] * A[k][j] for k in range(n)) for j in range(n)] for i in range(n)]   # AᵀA: PSD, dyadic
        rm = ThermochemGroup(ND_H_ref=rng.choice([0.75, 1.5, -2.0, 0.0, 3.0]), ND_S_ref=rng.choice([0.5, 1.25, 2.0, None]),
                             ND_Cp_data={}, T_ref=298.15, range=None)
        uq = {'RMSE': _NS(thermochem=rm), 'descriptors': basis, 'mat': np.array(M, dtype=float), 'dof': rng.randint(1, 200)}
    # without uncertainty data the constructor's default argument is used (a shared mutable default must stay empty)
    lib = GroupLibrary(None, contents, uq) if uq else GroupLibrary(None, contents)
    return LibInfo(label, lib, matlib=None, exact_mode=exact_mode)


def floors(ctx, table):
    """DESIGN Appendix B: a fall of the measured reach below the floor recorded when the check was built is a machinery
    failure (generator rot), not a pass.  Only judged on an undisturbed run (no violation, nothing broken)."""
    if ctx.violations or ctx.broken or ctx.disagreements:
        return
    # the table records what a run reached when the check was built; the counts move with the seed, so the alarm is for a
    # fall to under half of that (rot), not for a fluctuation
    low = ['%s=%d < %d' % (k, ctx.stats.get(k, 0), max(1, v // 2)) for k, v in table.items() if ctx.stats.get(k, 0) < max(1, v // 2)]
    if low:
        raise common.MachineryError('generator reach below its floor: ' + ', '.join(low))
