"""C12 — loading a library does not depend on the units its data use.

Proof: lean/PGA/Props/C12.lean over the model PGA/Model/Yaml.lean (qty_loader, with_units, the object loader,
yaml_construct).  Tie: GroupLibrary.Load of synthetic library files written to scratch, in many unit presentations,
compared field by field with the compiled model (c12.load) and, relationally, across presentations.
"""
import os, json, math
from fractions import Fraction
from . import common
from . import lib_yamlmerge as L
from .lib_yamlmerge import Q, Bad

PROPS = ['PGA.Props.C12', 'PGA.Props.C12Units']
GEN = ['YamlUnits', 'Chars', 'Units']
OBLIGATIONS = ['PGA.Yaml.' + t for t in [
    'C12_tab_schema_group', 'C12_tab_schema_incomplete', 'C12_tab_defaults', 'C12_tab_kelvin', 'C12_tab_gas_constant',
    'C12_tab_units_positive', 'C12_tab_property_sets',
    'C12_presentation_independent', 'C12_loads_plain', 'C12_same_quantity_same_load', 'C12_zero_like_any_value',
    'C12_missing_unit_rejected', 'C12_missing_unit_entry_rejected', 'C12_wrong_dimension_never_plain',
    'C12_wrong_dimension_cp_never_plain',
    'C12_wrong_dimension_temperature_rejected', 'C12_F12_old_shortcut_not_plain',
    # C12 <- C10 (PGA/Props/C12Units.lean): every row of the loader model's unit table is what the C10 model of eval_qty computes
    'C12_tab_units_from_units_model', 'C12_tab_units_exact', 'C12_tab_rounded_units_minimal', 'C12_tab_gas_constant_from_units_model',
    'C12_tab_units_from_si_reference', 'C12_tab_units_from_ext_reference', 'C12_tab_units_si_exact',
    'C12_tab_gas_constant_from_si_reference']]
RULE = ('a case = one synthetic library (1-4 groups; per group reference temperature given/defaulted, reference enthalpy and '
        'entropy present/absent/zero/negative, 0-8 heat-capacity points incl. zeros, range present/absent) written in one unit '
        'presentation (file-level default units for any subset of the four kinds, per-value explicit unit strings with '
        'prefixes, non-dimensional keys, mixed) and loaded with GroupLibrary.Load; plus single-group libraries with one '
        'injected fault (dimensional value with no unit available, unit of the wrong dimension, non-quantity string, '
        'inconsistent range). Non-trivial: at least one dimensional value present. Distinct = distinct (data, presentation).')
ASSUMPTIONS = ['A-yaml: PyYAML maps the generated documents to the obvious trees (re-checked on every written file)',
               'unit strings evaluate to the (SI factor, dimension) pairs dumped by the translator from the live pgradd.Units: no '
               'longer assumed - every row is re-derived by the kernel from the C10 model of eval_qty over the live unit definitions '
               '(exactly; five rows up to double rounding) and over the SI reference table (PGA/Props/C12Units.lean)',
               'decimal-literal abstraction: written decimals are read as exact rationals by the model, as nearest doubles by the code']
TRUSTED = ['modelled, not verified: qty_loader/float_loader/tuple_loader/list_loader (yaml_io/builtins.py), ObjectLoader.__call__ '
           '(yaml_io/schema.py), with_units (Units/helpers.py), Quantity._build/*,/ and in_units (Units/qty.py), '
           'ThermochemIncomplete.yaml_construct and the constructor range checks']

KEY_OF = {'H': ('H_ref', 'ND_H_ref'), 'S': ('S_ref', 'ND_S_ref'), 'Cp': ('Cp_data', 'ND_Cp_data')}
GROUP_NAMES = ['C(H)4', 'C(C)(H)3', 'C(C)2(H)2', 'O(C)(H)', 'CO(C)(H)', 'C(C)3(H)', 'N(C)(H)2', 'C[d](C)(H)', 'Pt(C)', 'C(C)4']


# --------------------------------------------------------------------------------------------------------------- data
def rnd_dec(rng, lo, hi, places):
    """random decimal in [lo, hi] with `places` decimals (Fraction)"""
    s = 10 ** places
    return Fraction(rng.randint(int(lo * s), int(hi * s)), s)


def gen_value(rng, scale):
    c = rng.random()
    if c < 0.18:
        return Fraction(0)
    mag = rng.choice([1, 1, 10, 100, 1000])
    v = rnd_dec(rng, -scale * mag, scale * mag, rng.choice([0, 1, 2, 3, 4]))
    return v


def gen_group(rng, valid=True):
    """abstract physical data of one group, in SI (K, J/mol, J/mol/K)"""
    g = {}
    g['Tref'] = rng.choice([None, None, Fraction('298.15'), Fraction(300), Fraction('273.15'), Fraction(500), Fraction(1000),
                            rnd_dec(rng, 250, 900, 2)])
    Tref = g['Tref'] if g['Tref'] is not None else Fraction('298.15')
    g['H'] = gen_value(rng, 500) * 1000 if rng.random() < 0.8 else None
    g['S'] = gen_value(rng, 400) if rng.random() < 0.75 else None
    n = rng.choice([0, 0, 1, 2, 3, 4, 5, 8])
    Ts = set()
    # reference temperature placement relative to the table: inside / at a knot / below / above
    place = rng.choice(['inside', 'knot', 'below', 'above', 'any'])
    while len(Ts) < n:
        Ts.add(rnd_dec(rng, 100, 2000, rng.choice([0, 0, 1, 2])))
    Ts = sorted(Ts)
    if n and place == 'knot':
        Ts[rng.randrange(n)] = Tref
        Ts = sorted(set(Ts))
    g['cp'] = [(T, gen_value(rng, 60)) for T in Ts]
    lo = min(Ts + [Tref])
    hi = max(Ts + [Tref])
    need_range = bool(Ts) and not (Ts[0] <= Tref <= Ts[-1])
    if need_range or rng.random() < 0.6:
        g['range'] = (lo - rng.choice([0, 0, 1, 50, Fraction('0.5')]), hi + rng.choice([0, 0, 1, 100, Fraction('12.25')]))
        if g['range'][0] < 0:
            g['range'] = (Fraction(0), g['range'][1])
    else:
        g['range'] = None
    if not valid and Ts:
        # break the constructor's consistency requirement
        how = rng.choice(['tref_out', 'table_out', 'reversed'])
        if how == 'tref_out':
            g['range'] = (hi + 1, hi + 500) if rng.random() < 0.5 else None
            if g['range'] is None:
                g['Tref'] = Ts[-1] + 10
        elif how == 'table_out':
            g['range'] = (Tref - 1, Tref + 1) if not (Tref - 1 <= Ts[0] and Ts[-1] <= Tref + 1) else (Tref, Tref)
        else:
            g['range'] = (hi + 5, lo - 5 if lo > 5 else Fraction(0))
    return g


def data_valid(g):
    """the constructor's consistency requirement (ThermochemBase / ThermochemRawData)"""
    Tref = g['Tref'] if g['Tref'] is not None else Fraction('298.15')
    r = g['range']
    if r is not None and r[1] < r[0]:
        return False
    if not g['cp']:
        return True
    Ts = [T for T, _ in g['cp']]
    if r is None:
        return min(Ts) <= Tref <= max(Ts)
    return r[0] <= min(Ts) and max(Ts) <= r[1] and r[0] <= Tref <= r[1]


# ---------------------------------------------------------------------------------------------------------- presentation
def pick_units_block(rng):
    """default units of the file: any subset of the four kinds"""
    blk = {}
    for k in ('H', 'S', 'Cp', 'T'):
        if rng.random() < 0.6:
            blk[k] = rng.choice(L.UNITS[k])
    return blk


def write_value(rng, x, kind, blk, force=None, memo=None):
    """one dimensional value x (SI) of `kind`: as a bare number under the file's default unit, or with explicit units.
    Returns (tree node, SI value actually written as Fraction, form).
    Equal temperatures of one group are written identically (memo), so that coinciding bounds (T_ref = range end = knot)
    stay equal as doubles too: the order checks of the constructor are outside the decimal-literal abstraction otherwise."""
    if memo is not None and kind == 'T' and x in memo:
        return memo[x]
    forms = ['explicit']
    if kind in blk:
        forms += ['bare', 'bare']
    form = force or rng.choice(forms)
    u = blk[kind] if form == 'bare' else rng.choice(L.UNITS[kind])
    f = L.unit_info(u)[0]
    v = L.round_sig(Fraction(x) / f, 15)
    node = v if form == 'bare' else Q(v, u, sci=rng.choice([None] * 6 + [1, 2]))
    res = (node, v * f, form)
    if memo is not None and kind == 'T':
        memo[x] = res
    return res


def present(rng, g, blk, style=None):
    """one presentation of group data `g` under units block `blk`.
    Returns (entry tree, expected non-dimensional content computed exactly from the written decimals, trace of forms)"""
    R = L.gas_constant()
    entry = {}
    forms = {}
    exp = {}
    memo = {}
    # reference temperature
    if g['Tref'] is None:
        Tref = Fraction('298.15')
        forms['Tref'] = 'default'
        # the schema default is the string "298.15 K": a coinciding bound must be the same double
        memo[Tref] = (Q(Tref, 'K'), Tref, 'explicit')
    else:
        node, Tref, forms['Tref'] = write_value(rng, g['Tref'], 'T', blk, memo=memo)
        entry['T_ref'] = node
    exp['Tref'] = Tref
    order = ['H', 'S', 'Cp', 'range']
    rng.shuffle(order)
    for what in order:
        if what == 'H' and g['H'] is not None:
            if style == 'nd' or (style is None and rng.random() < 0.3):
                v = L.round_sig(g['H'] / (R * Tref), 15)
                entry['ND_H_ref'] = v
                exp['H'] = v
                forms['H'] = 'nd'
            else:
                node, x, forms['H'] = write_value(rng, g['H'], 'H', blk)
                entry['H_ref'] = node
                exp['H'] = x / (R * Tref)
        elif what == 'S' and g['S'] is not None:
            if style == 'nd' or (style is None and rng.random() < 0.3):
                v = L.round_sig(g['S'] / R, 15)
                entry['ND_S_ref'] = v
                exp['S'] = v
                forms['S'] = 'nd'
            else:
                node, x, forms['S'] = write_value(rng, g['S'], 'S', blk)
                entry['S_ref'] = node
                exp['S'] = x / R
        elif what == 'Cp' and g['cp']:
            nd = style == 'nd' or (style is None and rng.random() < 0.3)
            rows = []
            ex = []
            fs = set()
            pts = list(g['cp'])
            rng.shuffle(pts)
            for T, c in pts:
                tn, Tx, ft = write_value(rng, T, 'T', blk, memo=memo)
                if nd:
                    v = L.round_sig(c / R, 15)
                    rows.append([tn, v])
                    ex.append((Tx, v))
                    fs.add('nd')
                else:
                    cn, cx, fc = write_value(rng, c, 'Cp', blk)
                    rows.append([tn, cn])
                    ex.append((Tx, cx / R))
                    fs.add(fc)
                fs.add('T' + ft)
            entry['ND_Cp_data' if nd else 'Cp_data'] = rows
            exp['cp'] = sorted(ex)
            forms['Cp'] = '+'.join(sorted(fs))
        elif what == 'range' and g['range'] is not None:
            a, ax, fa = write_value(rng, g['range'][0], 'T', blk, memo=memo)
            b, bx, fb = write_value(rng, g['range'][1], 'T', blk, memo=memo)
            entry['range'] = [a, b]
            exp['range'] = (ax, bx)
            forms['range'] = fa + '+' + fb
    exp.setdefault('H', None)
    exp.setdefault('S', None)
    exp.setdefault('cp', [])
    exp.setdefault('range', None)
    return entry, exp, forms


def units_block_tree(blk):
    return dict((L.KIND_NAME[k], u) for k, u in blk.items())


def request_of(blk, entry):
    return {'op': 'c12.load', 'units': [[L.KIND_NAME[k], u] for k, u in blk.items()], 'entry': L.jtree(entry)}


# --------------------------------------------------------------------------------------------------------------- oracles
def cmp_num(a, b, rel=1e-12):
    """two non-dimensional numbers agree (relative, exact zero stays exact zero)"""
    a = float(a)
    b = float(b)
    return abs(a - b) <= rel * max(abs(a), abs(b))


def check_against_expected(ctx, o, exp, inp):
    """implementation vs specification: the loaded correlation is the physical data divided by R (and T_ref), as plain numbers"""
    ok = True

    def bad(what, e, ob):
        nonlocal ok
        ok = False
        fid = None
        ctx.violation(what, inp, expected=e, observed=ob, finding=fid)
    for fld in ('H', 'S'):
        e = exp[fld]
        ob = o[fld]
        if e is None:
            if ob is not None:
                bad('a reference value that was not given is present after loading', None, ob)
        elif ob is None or 'num' not in ob:
            bad('loaded %s_ref is not a plain number' % fld, {'num': float(e)}, ob)
        elif not cmp_num(ob['num'], e):
            bad('loaded ND_%s_ref differs from value/(R%s)' % (fld, '*T_ref' if fld == 'H' else ''), float(e), ob['num'])
    if len(o['cp']) != len(exp['cp']):
        bad('number of heat-capacity points differs', len(exp['cp']), len(o['cp']))
    else:
        for (T, v), (Te, ve) in zip(o['cp'], exp['cp']):
            if v is None or 'num' not in v:
                bad('a loaded heat capacity is not a plain number', {'num': float(ve)}, v)
            elif not cmp_num(T, Te) or not cmp_num(v['num'], ve):
                bad('loaded heat-capacity point differs from (T in K, Cp/R)', [float(Te), float(ve)], [T, v['num']])
    if not cmp_num(o['Tref'], exp['Tref']):
        bad('loaded T_ref differs', float(exp['Tref']), o['Tref'])
    if (o['range'] is None) != (exp['range'] is None) or (
            o['range'] is not None and not (cmp_num(o['range'][0], exp['range'][0]) and cmp_num(o['range'][1], exp['range'][1]))):
        bad('loaded range differs', None if exp['range'] is None else [float(x) for x in exp['range']], o['range'])
    return ok


def eval_points(g, corr=None):
    """temperatures at which the loaded correlation is evaluated: its own T_ref and points strictly inside its range
    (the range ends themselves move by an ulp with the unit presentation)"""
    Tref = g['Tref'] if g['Tref'] is not None else Fraction('298.15')
    Ts = [T for T, _ in g['cp']]
    r = g['range'] or ((min(Ts), max(Ts)) if Ts else None)
    pts = [float(corr.T_ref) if corr is not None else float(Tref)]
    if r is not None and r[1] > r[0]:
        lo, hi = float(r[0]), float(r[1])
        pts += [lo + w * (hi - lo) for w in (0.001, 0.25, 0.5, 0.75, 0.999)]
    return [x for x in pts if x > 0]


def evaluate(corr, Ts):
    """get_CpoR/get_HoRT/get_SoR at each T: list of (kind, T, value or error class)"""
    out = []
    for T in Ts:
        for nm in ('get_CpoR', 'get_HoRT', 'get_SoR'):
            try:
                with L.quiet():
                    v = getattr(corr, nm)(T)
                if L.is_plain(v) and math.isfinite(float(v)):
                    out.append((nm, T, float(v)))
                else:
                    out.append((nm, T, 'not-plain:' + type(v).__name__))
            except Exception as e:
                out.append((nm, T, 'err:' + L.err_class(e)))
    return out


def cmp_model_corr(o, m, rel=1e-9):
    """implementation observation vs model reply (loaded correlation)"""
    def val(a, b):
        if a is None or b is None:
            return a is None and b is None
        if 'num' in a:
            return 'num' in b and L.close(a['num'], L.model_num(b['num']), rel)
        if 'qty' in a:
            return 'qty' in b and a['dim'] == b['dim'] and L.close(a['qty'], L.model_num(b['qty']), rel)
        return False
    if not (val(o['H'], m['H']) and val(o['S'], m['S'])):
        return False
    if len(o['cp']) != len(m['cp']):
        return False
    for (T, v), (Tm, vm) in zip(o['cp'], m['cp']):
        if not (L.close(T, L.model_num(Tm), rel) and val(v, vm)):
            return False
    if not L.close(o['Tref'], L.model_num(m['Tref']), rel):
        return False
    if (o['range'] is None) != (m['range'] is None):
        return False
    if o['range'] is not None and not all(L.close(a, L.model_num(b), rel) for a, b in zip(o['range'], m['range'])):
        return False
    return True


# ------------------------------------------------------------------------------------------------------------- one library
def load_presentation(ctx, groups, blk, entries):
    """write one file, check A-yaml, load it; returns (status, lib or error class, path)"""
    from pgradd import yaml_io
    d = L.new_dir(ctx, 'c12-')
    path = os.path.join(d, 'library.yaml')
    tree = {'units': units_block_tree(blk), 'groups': [(nm, {'thermochem': e}) for nm, e in zip(groups, entries)]}
    text = L.write_file(path, tree)
    parsed = yaml_io.parse(text)
    expect_tree = {'units': tree['units'], 'groups': dict(tree['groups'])}
    if not L.tree_equal(parsed, expect_tree):
        ctx.assumption('A-yaml', False, 'PyYAML tree differs from the generated tree for %r' % text[:300])
    ctx.count('files_written')
    st, res = L.load_library(path)
    return st, res, text


def check_library(ctx, rng, names, datas, n_pres, batch):
    """one abstract library in n_pres presentations"""
    per_pres = []
    for p in range(n_pres):
        blk = pick_units_block(rng)
        style = rng.choice([None, None, None, 'nd', 'dim'])
        pres = [present(rng, g, blk, style) for g in datas]
        entries = [e for e, _, _ in pres]
        st, res, text = load_presentation(ctx, names, blk, entries)
        inp = {'file': text, 'units': units_block_tree(blk)}
        valid = all(data_valid(g) for g in datas)
        nontrivial = any(k in e for e in entries for k in ('H_ref', 'S_ref', 'Cp_data', 'T_ref', 'range'))
        ctx.case(text if nontrivial else None, {'file': text[:400]} if p == 0 else None)
        ctx.count('presentations')
        for _, _, forms in pres:
            for k, f in forms.items():
                ctx.count('form_%s_%s' % (k, f))
        for nm, (entry, exp, forms) in zip(names, pres):
            batch.append((request_of(blk, entry), ('lib', st, res, nm), dict(inp, group=nm)))
        if not valid:
            ctx.count('inconsistent_data')
            if st != 'err':
                ctx.violation('data violating the constructor\'s consistency requirement were loaded', inp,
                              expected='rejected', observed='loaded')
            elif res != 'inputData':
                ctx.violation('inconsistent data are rejected with an unrelated exception', inp, expected='inputData',
                              observed=res, finding=classify_error(res))
            per_pres.append(None)
            continue
        if st == 'err':
            ctx.count('load_error_' + res)
            ctx.violation('a consistent library in a legal unit presentation fails to load', inp, expected='loaded',
                          observed=res, finding=None)
            per_pres.append(None)
            continue
        obs = L.obs_library(res)
        evals = {}
        for nm, g, (entry, exp, forms) in zip(names, datas, pres):
            o = obs.get(nm)
            if o is None:
                ctx.violation('a group of the file is missing after loading', dict(inp, group=nm), expected=nm, observed=sorted(obs))
                continue
            check_against_expected(ctx, o, exp, dict(inp, group=nm))
            ev = evaluate(res[nm]['thermochem'], eval_points(g, res[nm]['thermochem']))
            for nmf, T, v in ev:
                ctx.count('evaluations_' + nmf)
                if isinstance(v, str):
                    missing = (nmf == 'get_HoRT' and g['H'] is None) or (nmf == 'get_SoR' and g['S'] is None) or \
                              (nmf == 'get_CpoR' and not g['cp'])
                    if not (missing and v == 'err:incomplete'):
                        ctx.violation('evaluating a loaded correlation does not give a plain finite number',
                                      dict(inp, group=nm, T=T, method=nmf), expected='plain finite number', observed=v)
            evals[nm] = ev
        per_pres.append((obs, evals, inp))
    # relational oracle: same physical data => same non-dimensional content and same evaluations
    good = [x for x in per_pres if x is not None]
    for other in good[1:]:
        relate(ctx, names, good[0], other)


def relate(ctx, names, first, other):
    """two loaded presentations (observed library, evaluations, input) of the same physical data: same non-dimensional content,
    same evaluations"""
    for nm in names:
        a, b = first[0].get(nm), other[0].get(nm)
        if a is None or b is None:
            continue
        same = (a['H'] is None) == (b['H'] is None) and (a['S'] is None) == (b['S'] is None) and len(a['cp']) == len(b['cp'])
        if same and L.all_plain(a) and L.all_plain(b):
            same = all(cmp_num(x['num'], y['num'], 1e-11) for x, y in
                       [(a[k], b[k]) for k in ('H', 'S') if a[k] is not None] +
                       [(p[1], q[1]) for p, q in zip(a['cp'], b['cp'])])
            same = same and cmp_num(a['Tref'], b['Tref'], 1e-11)
        if not same:
            ctx.violation('the same data in two unit presentations load differently', {'a': first[2], 'b': other[2], 'group': nm},
                          expected=a, observed=b)
        for (f1, T1, v1), (f2, T2, v2) in zip(first[1].get(nm, []), other[1].get(nm, [])):
            if isinstance(v1, float) and isinstance(v2, float):
                if not cmp_num(v1, v2, 1e-8) and abs(v1 - v2) > 1e-9:
                    ctx.violation('the same data in two unit presentations evaluate differently',
                                  {'a': first[2], 'b': other[2], 'group': nm, 'T': T1, 'method': f1}, expected=v1, observed=v2)
            elif v1 != v2:
                ctx.violation('the same data in two unit presentations evaluate differently',
                              {'a': first[2], 'b': other[2], 'group': nm, 'T': T1, 'method': f1}, expected=v1, observed=v2)
        ctx.count('relational_pairs')


def classify_error(res):
    return None


# ------------------------------------------------------------------------------------------------- libraries over several files
# A library may be split over files (`include:`); every file has its own `units:` block, and a bare number is read in the
# default unit of the file it is written in.  The same data written in one file and written over a parent and included files
# whose units blocks differ load to the same correlations; a bare number of a kind the file's own block leaves out is rejected
# whatever the blocks of the files around it say.
FILE_SHAPES = [
    # (tag, [(label, parent label or None, include path as written in the parent)])
    ('child', [('root', None, None), ('a', 'root', 'part.yaml')]),
    ('child_subdir', [('root', None, None), ('a', 'root', 'sub/part.yaml')]),
    ('two_children', [('root', None, None), ('a', 'root', 'first.yaml'), ('b', 'root', 'more/second.yaml')]),
    ('chain', [('root', None, None), ('a', 'root', 'mid.yaml'), ('b', 'a', 'leaf.yaml')]),
    ('chain_subdirs', [('root', None, None), ('a', 'root', 'sub/mid.yaml'), ('b', 'a', 'deeper/leaf.yaml')]),
    ('chain_and_sibling', [('root', None, None), ('a', 'root', 'x/mid.yaml'), ('b', 'a', 'leaf.yaml'), ('c', 'root', 'other.yaml')]),
]


def other_unit(rng, kind, not_this):
    cands = [u for u in L.UNITS[kind] if not_this is None or L.unit_info(u)[0] != L.unit_info(not_this)[0]]
    return rng.choice(cands)


def file_blocks(rng, shape):
    """a units block per file: the root's is full more often than not, a file below differs from the file including it in most
    kinds (another unit, or the kind left out)"""
    blks = {}
    for lab, parent, _ in shape:
        if parent is None:
            blks[lab] = dict((k, rng.choice(L.UNITS[k])) for k in ('H', 'S', 'Cp', 'T')) if rng.random() < 0.7 else pick_units_block(rng)
            continue
        up, blk = blks[parent], {}
        for k in ('H', 'S', 'Cp', 'T'):
            c = rng.random()
            if c < 0.65:
                blk[k] = other_unit(rng, k, up.get(k))
            elif c < 0.75 and k in up:
                blk[k] = up[k]
        blks[lab] = blk
    return blks


def file_paths(shape):
    """label -> path of the file relative to the directory of the root file (an include is relative to the including file)"""
    rel = {}
    for lab, parent, inc in shape:
        rel[lab] = 'library.yaml' if parent is None else os.path.normpath(os.path.join(os.path.dirname(rel[parent]), inc))
    return rel


def show_exp(exp):
    return {'Tref': str(exp['Tref']), 'H': None if exp['H'] is None else str(exp['H']), 'S': None if exp['S'] is None else str(exp['S']),
            'cp': [[str(T), str(v)] for T, v in exp['cp']], 'range': None if exp['range'] is None else [str(x) for x in exp['range']]}


def unshow_exp(w):
    return {'H': None if w['H'] is None else Fraction(w['H']), 'S': None if w['S'] is None else Fraction(w['S']),
            'cp': [(Fraction(a), Fraction(b)) for a, b in w['cp']], 'Tref': Fraction(w['Tref']),
            'range': None if w['range'] is None else (Fraction(w['range'][0]), Fraction(w['range'][1]))}


def write_file_tree(ctx, shape, blks, groups_of):
    """write the files of one library; returns (directory, {relative path: text}, driver encoding of the root file)"""
    from pgradd import yaml_io
    d = L.new_dir(ctx, 'c12i-')
    rel = file_paths(shape)
    texts, jfiles = {}, {}
    for lab, parent, inc in shape:
        path = os.path.join(d, rel[lab])
        os.makedirs(os.path.dirname(path), exist_ok=True)
        incs = [i for l2, p2, i in shape if p2 == lab]
        tree = {'units': units_block_tree(blks[lab]), 'include': incs,
                'groups': [(nm, {'thermochem': e}) for nm, e in groups_of[lab]]}
        texts[rel[lab]] = L.write_file(path, tree)
        ctx.count('files_written')
        expect_tree = {'units': tree['units'], 'groups': dict(tree['groups'])}
        if incs:
            expect_tree = {'units': tree['units'], 'include': incs, 'groups': dict(tree['groups'])}
        if not L.tree_equal(yaml_io.parse(texts[rel[lab]]), expect_tree):
            ctx.assumption('A-yaml', False, 'PyYAML tree differs from the generated tree for %r' % texts[rel[lab]][:300])
        jfiles[lab] = {'units': [[L.KIND_NAME[k], u] for k, u in blks[lab].items()],
                       'groups': [[nm, L.jtree({'thermochem': e})] for nm, e in groups_of[lab]], 'include': []}
    for lab, parent, inc in shape:
        if parent is not None:
            jfiles[parent]['include'].append(jfiles[lab])
    return d, texts, jfiles['root']


def observe_loaded(ctx, res, names, datas, exps, inp):
    """check a loaded library against the expected content group by group; returns (observed, evaluations, input)"""
    obs = L.obs_library(res)
    evals = {}
    for nm, g in zip(names, datas):
        o = obs.get(nm)
        if o is None:
            ctx.violation('a group of the file is missing after loading', dict(inp, group=nm), expected=nm, observed=sorted(obs))
            continue
        check_against_expected(ctx, o, exps[nm], dict(inp, group=nm))
        ev = evaluate(res[nm]['thermochem'], eval_points(g, res[nm]['thermochem']))
        for nmf, T, v in ev:
            ctx.count('evaluations_' + nmf)
            if isinstance(v, str):
                missing = (nmf == 'get_HoRT' and g['H'] is None) or (nmf == 'get_SoR' and g['S'] is None) or (nmf == 'get_CpoR' and not g['cp'])
                if not (missing and v == 'err:incomplete'):
                    ctx.violation('evaluating a loaded correlation does not give a plain finite number',
                                  dict(inp, group=nm, T=T, method=nmf), expected='plain finite number', observed=v)
        evals[nm] = ev
    return obs, evals, inp


def include_cases(ctx, rng, n, batch13):
    for i in range(n):
        tag, shape = rng.choice(FILE_SHAPES)
        labels = [lab for lab, _, _ in shape]
        k = rng.randint(len(labels), len(labels) + 2)
        names = rng.sample(GROUP_NAMES, k)
        datas = []
        for _ in names:
            g = gen_group(rng)
            while g['H'] is None and g['S'] is None and not g['cp']:
                g = gen_group(rng)
            datas.append(g)
        blks = file_blocks(rng, shape)
        # every file gets a group; the rest go anywhere
        owner = dict(zip(names, labels + [rng.choice(labels) for _ in range(k - len(labels))]))
        groups_of = dict((lab, []) for lab in labels)
        exps, bare = {}, 0
        for nm, g in zip(names, datas):
            lab = owner[nm]
            entry, exp, forms = present(rng, g, blks[lab], rng.choice(['dim', 'dim', 'dim', None]))
            groups_of[lab].append((nm, entry))
            exps[nm] = exp
            if lab != 'root':
                bare += sum(1 for f in forms.values() if 'bare' in f)
            for kf, f in forms.items():
                ctx.count('form_%s_%s' % (kf, f))
        fault = None
        if rng.random() < 0.2:
            # a bare number, in a file below the root, of a kind its own block leaves out and the block of a file above it has
            cands = [(lab, kk) for lab, parent, _ in shape if parent is not None for kk in ('H', 'S')
                     if kk not in blks[lab] and any(kk in blks[a] for a in ancestors(shape, lab))]
            if cands:
                lab, kk = rng.choice(cands)
                nm = rng.choice([x for x in GROUP_NAMES if x not in names])
                groups_of[lab].append((nm, {'T_ref': Q(Fraction(300), 'K'), {'H': 'H_ref', 'S': 'S_ref'}[kk]: rnd_dec(rng, -50, 50, 2)}))
                fault = {'file': file_paths(shape)[lab], 'group': nm, 'kind': L.KIND_NAME[kk]}
        d, texts, jf = write_file_tree(ctx, shape, blks, groups_of)
        st, res = L.load_library(os.path.join(d, 'library.yaml'))
        inp = {'files': texts, 'layout': tag, 'expect': dict((nm, show_exp(e)) for nm, e in exps.items())}
        ctx.case(json.dumps(texts, sort_keys=True), None)
        ctx.count('include_cases')
        ctx.count('include_layout_' + tag)
        ctx.count('include_bare_values_below_the_root', bare)
        batch13.append(({'op': 'c13.load', 'file': jf}, (st, res if st == 'err' else L.obs_library(res)), inp))
        if fault is not None:
            ctx.count('include_fault_missing_unit')
            if st != 'err' or res != 'inputData':
                ctx.violation('a bare number of a kind the units block of its own file leaves out is not rejected (a file that includes '
                              'it has a default unit of that kind)', dict(inp, expect_error='inputData', fault=fault),
                              expected='inputData', observed=res if st == 'err' else 'loaded')
            continue
        if st == 'err':
            ctx.violation('a consistent library split over files with different units blocks fails to load', inp, expected='loaded', observed=res)
            continue
        multi = observe_loaded(ctx, res, names, datas, exps, inp)
        # the same data in ONE file (one block, another draw of forms)
        blk1 = pick_units_block(rng)
        pres = [present(rng, g, blk1, None) for g in datas]
        st1, res1, text1 = load_presentation(ctx, names, blk1, [e for e, _, _ in pres])
        if st1 != 'ok':
            ctx.violation('a consistent library in a legal unit presentation fails to load', {'file': text1}, expected='loaded', observed=res1)
            continue
        single = observe_loaded(ctx, res1, names, datas, dict((nm, e) for nm, (_, e, _) in zip(names, pres)), {'file': text1})
        relate(ctx, names, single, multi)


def ancestors(shape, lab):
    up = dict((l, p) for l, p, _ in shape)
    out = []
    while up[lab] is not None:
        lab = up[lab]
        out.append(lab)
    return out


def compare_batch13(ctx, batch13):
    """the tie for libraries over several files: the Lean model of the loaders composed with the model of _do_load (c13.load:
    every file's values are read under that file's own units block, then the files are merged)"""
    from . import c13
    replies = ctx.model([b[0] for b in batch13])
    if replies is None:
        return
    for (req, (st, res), inp), rep in zip(batch13, replies):
        ctx.count('corr_c13.load')
        if 'err' in rep:
            if rep['err'] == 'unmodelled':
                # over the unit table of the working tree some value is not a plain number (merging those is outside the model
                # of _do_load).  The generator writes only units of the right kind, so this is the unit table's doing; the
                # property oracle above has reported it if the implementation shows it too
                ctx.count('corr_c13.load_unmodelled')
                if st == 'ok' and all(o is None or L.all_plain(o) for o in res.values()):
                    ctx.disagree('corr:c13.load', inp, res, rep)
                continue
            if st != 'err' or res != rep['err']:
                ctx.disagree('corr:c13.load', inp, res if st == 'err' else 'loaded', rep)
            continue
        ml = dict((nm, o) for nm, o in rep['ok'])
        ok = st == 'ok' and set(ml) == set(res)
        if ok:
            for nm, o in res.items():
                if (o is None) != (ml[nm] is None) or (o is not None and not c13.model_state_close(o, ml[nm])):
                    ok = False
        if not ok:
            ctx.disagree('corr:c13.load', inp, res, rep)


def replay_files(ctx, inp):
    d = L.new_dir(ctx, 'c12r-')
    for relp, text in inp['files'].items():
        path = os.path.join(d, relp)
        os.makedirs(os.path.dirname(path), exist_ok=True)
        with open(path, 'w') as f:
            f.write(text)
    st, res = L.load_library(os.path.join(d, 'library.yaml'))
    if 'expect_error' in inp:
        if st != 'err' or res != inp['expect_error']:
            ctx.violation('recorded files are not rejected as specified', inp, expected=inp['expect_error'], observed=res if st == 'err' else 'loaded')
        return
    if st != 'ok':
        ctx.violation('recorded library does not load', inp, expected='loaded', observed=res)
        return
    obs = L.obs_library(res)
    for nm, w in inp.get('expect', {}).items():
        if obs.get(nm) is None:
            ctx.violation('group missing', inp, expected=nm, observed=sorted(obs))
        else:
            check_against_expected(ctx, obs[nm], unshow_exp(w), dict(inp, group=nm))


# ---------------------------------------------------------------------------------------------------------------- faults
def fault_cases(ctx, rng, n, batch):
    """single-group libraries with one injected fault"""
    from pgradd import yaml_io
    R = L.gas_constant()
    for i in range(n):
        g = gen_group(rng)
        while g['H'] is None and g['S'] is None and not g['cp']:
            g = gen_group(rng)
        kind_choices = [k for k in ('H', 'S') if g[k] is not None] + (['Cp'] if g['cp'] else []) + (['T'] if g['Tref'] is not None else [])
        kind = rng.choice(kind_choices)
        fault = rng.choice(['missing_unit', 'missing_unit', 'wrong_dim_explicit', 'wrong_dim_default', 'bad_string'])
        blk = pick_units_block(rng)
        if fault == 'missing_unit':
            blk.pop(kind, None)
        entry, exp, forms = present(rng, g, blk, 'dim')
        key = {'H': 'H_ref', 'S': 'S_ref', 'Cp': 'Cp_data', 'T': 'T_ref'}[kind]

        def put(node):
            if kind == 'Cp':
                j = rng.randrange(len(entry['Cp_data']))
                entry['Cp_data'][j][1] = node
            else:
                entry[key] = node
        val = {'H': g['H'], 'S': g['S'], 'T': g['Tref']}.get(kind)
        if kind == 'Cp':
            val = g['cp'][0][1]
        if fault == 'missing_unit':
            put(L.round_sig(Fraction(val) if val is not None else Fraction(1), 12))
            expect = 'inputData'
        elif fault == 'wrong_dim_explicit':
            v = L.round_sig(Fraction(val), 12)
            if v == 0 and rng.random() < 0.5:
                v = Fraction(3, 2)
            put(Q(v, rng.choice(L.WRONG[kind])))
            expect = 'not-plain'
        elif fault == 'wrong_dim_default':
            blk[kind] = rng.choice(L.WRONG[kind])
            v = L.round_sig(Fraction(val), 12)
            put(v)
            expect = 'not-plain'
            # every other bare value of that kind now also has the wrong dimension
        else:
            put(Bad(rng.choice(['abc', 'n/a', '12 parsecs', 'kcal per mol', '1.5 kcal/mole'])))
            expect = 'unitsParse'
        name = rng.choice(GROUP_NAMES)
        st, res, text = load_presentation(ctx, [name], blk, [entry])
        inp = {'file': text, 'fault': fault, 'kind': kind}
        ctx.case(text, None)
        ctx.count('fault_' + fault)
        batch.append((request_of(blk, entry), ('lib', st, res, name), inp))
        if expect == 'inputData':
            if st != 'err' or res != 'inputData':
                ctx.violation('a dimensional value with no unit available is not rejected with InputDataError', inp,
                              expected='inputData', observed=res if st == 'err' else 'loaded')
        elif expect == 'unitsParse':
            if st != 'err' or res not in ('unitsParse', 'inputData'):
                ctx.violation('a string that is no quantity is not rejected with a units/input error', inp,
                              expected='unitsParse', observed=res if st == 'err' else 'loaded')
        else:
            # a unit of the wrong dimension must never produce a plain number in that field
            if st == 'ok':
                o = L.obs_library(res).get(name)
                fld = {'H': [o['H']], 'S': [o['S']], 'Cp': [p[1] for p in o['cp']], 'T': []}[kind]
                if kind == 'T':
                    ctx.violation('a reference temperature with a non-temperature unit was loaded', inp, expected='rejected', observed=o)
                elif kind == 'Cp':
                    if all(v is not None and 'num' in v for v in fld):
                        ctx.violation('a heat capacity with a unit of the wrong dimension loaded as plain numbers', inp,
                                      expected='not a plain number', observed=o)
                elif fld[0] is not None and 'num' in fld[0]:
                    ctx.violation('a value with a unit of the wrong dimension loaded as a plain number', inp,
                                  expected='not a plain number', observed=o)
                ctx.count('wrong_dim_loaded_nonplain')
            else:
                ctx.count('wrong_dim_rejected_' + res)
                if res not in ('inputData', 'units'):
                    ctx.violation('a unit of the wrong dimension is rejected with an unrelated exception', inp,
                                  expected='inputData', observed=res, finding=classify_error(res))


def no_units_block_cases(ctx):
    """a file without any `units:` block: every bare dimensional value (temperatures included) has no unit available and the
    library is rejected; the same file with the values given units loads"""
    variants = {
        'bare T_ref, non-dimensional data': {'T_ref': Fraction(300), 'ND_H_ref': Fraction(3, 2), 'ND_S_ref': Fraction(2)},
        'bare table temperature': {'T_ref': Q(Fraction(300), 'K'), 'ND_H_ref': Fraction(3, 2), 'ND_Cp_data': [[Fraction(300), Fraction(2)], [Q(Fraction(400), 'K'), Fraction(3)]]},
        'bare range': {'T_ref': Q(Fraction(300), 'K'), 'ND_S_ref': Fraction(2), 'range': [Fraction(250), Fraction(900)]},
        'bare H_ref': {'T_ref': Q(Fraction(300), 'K'), 'H_ref': Fraction(-17)},
        'bare S_ref': {'T_ref': Q(Fraction(300), 'K'), 'S_ref': Fraction(40)},
        'bare Cp': {'T_ref': Q(Fraction(300), 'K'), 'ND_H_ref': Fraction(1), 'Cp_data': [[Q(Fraction(300), 'K'), Fraction(8)], [Q(Fraction(400), 'K'), Fraction(9)]]},
    }
    for tag, entry in variants.items():
        d = L.new_dir(ctx, 'c12n-')
        path = os.path.join(d, 'library.yaml')
        text = L.write_file(path, {'units': None, 'groups': [('C(H)4', {'thermochem': entry})]})
        st, res = L.load_library(path)
        ctx.count('no_units_block_cases')
        ctx.case(text, None)
        if st != 'err' or res != 'inputData':
            ctx.violation('a dimensional value with no unit available (no units block at all) is not rejected with InputDataError',
                          {'file': text, 'fault': 'no_units_block', 'variant': tag}, expected='inputData', observed=res if st == 'err' else 'loaded')


# ------------------------------------------------------------------------------------------------------------------- run
def compare_batch(ctx, batch):
    replies = ctx.model([b[0] for b in batch])
    if replies is None:
        return
    for (req, impl, inp), rep in zip(batch, replies):
        _, st, res, name = impl
        ctx.count('corr_c12.load')
        if 'err' in rep:
            ctx.count('model_err_' + rep['err'])
            if rep['err'] == 'unmodelled':
                raise common.MachineryError('generator produced an input outside the model: %r' % (inp,))
            if st != 'err' or res != rep['err']:
                ctx.disagree('corr:c12.load', inp, res if st == 'err' else 'loaded', rep)
        else:
            ctx.count('model_ok')
            if st != 'ok':
                # a multi-group file fails as a whole when any group fails: only single-group files are compared on errors
                if inp.get('fault') is not None or inp.get('single'):
                    ctx.disagree('corr:c12.load', inp, res, 'loaded')
                continue
            o = L.obs_library(res).get(name)
            if o is None or not cmp_model_corr(o, rep['ok']):
                ctx.disagree('corr:c12.load', inp, o, rep['ok'])


UNIT_EVAL_SCRIPT = r"""
import sys, json, io, contextlib
from pgradd.Units import eval_qty
sys.path.insert(0, %r)
from harness import lib_units as U
out = []
for u in json.load(sys.stdin):
    with contextlib.redirect_stdout(io.StringIO()):
        try:
            r = U.canon_value(eval_qty(u))
        except Exception as e:
            r = {'err': type(e).__name__}
    out.append(r)
json.dump(out, sys.stdout)
"""


def eval_units_fresh(order):
    """the live eval_qty on the unit strings `order`, one after the other in a fresh interpreter"""
    import subprocess, sys, os
    here = os.path.dirname(os.path.dirname(os.path.abspath(__file__)))
    r = subprocess.run([sys.executable, '-c', UNIT_EVAL_SCRIPT % here], input=json.dumps(order), capture_output=True, text=True, timeout=300)
    if r.returncode != 0:
        raise common.ImplFailure('evaluating the unit strings of the pool', {'units': order}, RuntimeError(r.stderr[-400:]))
    return json.loads(r.stdout)


def unit_semantics(ctx, orders=None):
    """what a unit string denotes must not depend on which unit strings were read before it in the process: every unit of the
    pool, evaluated by the live package in several orders (each in a fresh interpreter), against the C10 model's value"""
    from . import lib_units as U
    pool = list(L.ALL_UNIT_STRINGS)
    if orders is None:
        orders = [pool, pool[::-1]] + [ctx.rng.sample(pool, len(pool)) for _ in range(ctx.n(2, 10))]
    reps = dict(zip(pool, ctx.model([{'op': 'c10.eval', 'text': u} for u in pool])))
    for order in orders:
        for i, (u, impl) in enumerate(zip(order, eval_units_fresh(order))):
            ctx.count('unit_semantics')
            ctx.case(None, None)
            if u in reps and not U.same_outcome(impl, reps[u]):
                before = order[:i]
                if before:      # smallest history that still misreads u
                    bad = lambda sub: not U.same_outcome(eval_units_fresh(sub + [u])[-1], reps[u])
                    before = [] if bad([]) else common.shrink_list(before, bad, max_steps=60)
                order = before + [u]
                i = len(before)
                ctx.violation('a value written in a unit is read as another SI magnitude or dimension than the unit denotes '
                              '(after the unit strings read before it)', {'unit': u, 'read_before': order[:i]},
                              {k: v for k, v in reps[u].items() if k != 'flags'}, impl)
                break


def run(ctx):
    import pgradd.ThermoChem  # noqa
    rng = ctx.rng
    batch = []
    unit_semantics(ctx)
    for fname, rec in common.load_corpus('C12'):
        ctx.count('corpus')
        replay(ctx, rec)
    nlib = ctx.n(200, 3000)
    for i in range(nlib):
        k = rng.choice([1, 1, 2, 3, 4])
        names = rng.sample(GROUP_NAMES, k)
        invalid = rng.random() < 0.08
        datas = [gen_group(rng, valid=not (invalid and j == 0)) for j in range(k)]
        if invalid and data_valid(datas[0]):
            invalid = False
        check_library(ctx, rng, names, datas, ctx.n(4, 6), batch)
        if ctx.time_left() < 120:
            break
    fault_cases(ctx, rng, ctx.n(400, 6000), batch)
    batch13 = []
    include_cases(ctx, rng, ctx.n(120, 2500), batch13)
    compare_batch13(ctx, batch13)
    zero_cases(ctx, rng, batch)
    boundary_cases(ctx)
    no_units_block_cases(ctx)
    shape_cases(ctx, rng, batch)
    compare_batch(ctx, batch)
    ctx.assumption('A-yaml', True, '%d generated documents parsed to the generated trees' % ctx.stats['files_written'])
    reach_floor(ctx, ['form_H_bare', 'form_H_explicit', 'form_H_nd', 'form_S_bare', 'form_S_explicit', 'form_S_nd',
                      'form_Tref_bare', 'form_Tref_default', 'form_Tref_explicit', 'fault_missing_unit', 'fault_wrong_dim_explicit',
                      'fault_wrong_dim_default', 'fault_bad_string', 'inconsistent_data', 'model_err_inputData',
                      'model_err_unitsParse', 'model_ok', 'relational_pairs', 'wrong_dim_loaded_nonplain', 'zero_cases', 'shape_cases',
                      'include_cases', 'include_bare_values_below_the_root', 'include_fault_missing_unit'])


def reach_floor(ctx, names):
    """generator rot is a machinery failure: every construct the check was built to reach must still be reached"""
    missing = [n for n in names if ctx.stats.get(n, 0) == 0]
    ctx.extra.setdefault('coverage', {})['reach'] = dict((n, ctx.stats.get(n, 0)) for n in names)
    if missing and not ctx.searching and ctx.time_left() > 100 and not (ctx.violations or ctx.broken or ctx.disagreements):
        raise common.MachineryError('generator no longer reaches: %s' % ', '.join(missing))


def shape_cases(ctx, rng, batch):
    """entries of the wrong shape, and null members: what the loaders reject and what they ignore"""
    base = {'T_ref': Q(Fraction(300), 'K'), 'ND_H_ref': Fraction(3, 2)}
    cases = [
        ('entry_null', None, 'inputData'),
        ('entry_number', Fraction(5), 'inputData'),
        ('entry_list', [Fraction(1), Fraction(2)], 'inputData'),
        ('tref_null', dict(base, T_ref=None), 'inputData'),
        ('range_short', dict(base, range=[Q(Fraction(300), 'K')]), 'inputData'),
        ('range_long', dict(base, range=[Q(Fraction(200), 'K'), Q(Fraction(300), 'K'), Q(Fraction(400), 'K')]), 'inputData'),
        ('range_null', dict(base, range=None), 'inputData'),
        ('range_number', dict(base, range=Fraction(300)), 'inputData'),
        ('cp_number', dict(base, Cp_data=Fraction(5)), 'inputData'),
        ('cp_row_short', dict(base, Cp_data=[[Q(Fraction(300), 'K')]]), 'inputData'),
        ('ndcp_null', dict(base, ND_Cp_data=None), 'inputData'),
        ('ndh_string', dict(base, ND_H_ref=Bad('abc')), 'inputData'),
        ('nds_quantity_string', dict(base, ND_S_ref=Q(Fraction(2), 'J/mol/K')), 'inputData'),
        ('h_null', {'T_ref': Q(Fraction(300), 'K'), 'H_ref': None, 'ND_S_ref': Fraction(2)}, 'ok'),
        ('s_null', dict(base, S_ref=None), 'ok'),
        ('cp_empty', dict(base, Cp_data=[], ND_Cp_data=[]), 'ok'),
        ('both_h', dict(base, H_ref=Q(Fraction(1), 'kJ/mol')), 'ok'),       # the non-dimensional key wins
        ('reversed_range', dict(base, range=[Q(Fraction(400), 'K'), Q(Fraction(200), 'K')]), 'inputData'),
        ('tref_zero_with_h', {'T_ref': Q(Fraction(0), 'K'), 'H_ref': Q(Fraction(1), 'kJ/mol')}, 'inputData'),
    ]
    for tag, entry, want in cases:
        name = 'C(H)4'
        st, res, text = load_presentation(ctx, [name], {}, [entry])
        inp = {'file': text, 'shape': tag, 'single': True}
        ctx.case(text, None)
        ctx.count('shape_' + tag)
        ctx.count('shape_cases')
        batch.append((request_of({}, entry), ('lib', st, res, name), inp))
        got = res if st == 'err' else 'ok'
        if got != want:
            ctx.violation('an entry of the wrong shape is not handled as the loaders specify', inp, expected=want, observed=got)


def zero_cases(ctx, rng, batch):
    """the value zero in every dimensional position and every presentation (the F12 class), deterministically"""
    for kind in ('H', 'S', 'Cp'):
        for form in ('bare', 'explicit'):
            for u in L.UNITS[kind][:6]:
                g = {'Tref': Fraction('298.15'), 'H': Fraction(0) if kind == 'H' else Fraction(1000),
                     'S': Fraction(0) if kind == 'S' else Fraction(5),
                     'cp': [(Fraction(300), Fraction(0) if kind == 'Cp' else Fraction(2)), (Fraction(400), Fraction(3))],
                     'range': (Fraction(200), Fraction(1000))}
                blk = {'H': 'kcal/mol', 'S': 'cal/mol/K', 'Cp': 'cal/mol/K', 'T': 'K'}
                blk[kind] = u
                check_fixed(ctx, g, blk, form, batch)
    # a table that is constant (zero everywhere / the same value everywhere): H/RT, S/R and Cp/R have closed forms at every
    # temperature of the range, whatever the presentation
    for c in (Fraction(0), Fraction(5, 2)):
        for u in L.UNITS['Cp'][:4]:
            g = {'Tref': Fraction('298.15'), 'H': Fraction(-1000), 'S': Fraction(7), 'cp': [(Fraction(300), c), (Fraction(400), c), (Fraction(700), c)],
                 'range': (Fraction(200), Fraction(1000))}
            check_fixed(ctx, g, {'H': 'kJ/mol', 'S': 'J/mol/K', 'Cp': u, 'T': 'K'}, 'bare', batch)
            check_fixed(ctx, g, {'H': 'kcal/mol', 'S': 'cal/mol/K', 'Cp': u, 'T': 'K'}, 'explicit', batch)
    # range starting at 0 K
    g = {'Tref': Fraction('298.15'), 'H': Fraction(1), 'S': None, 'cp': [], 'range': (Fraction(0), Fraction(1000))}
    check_fixed(ctx, g, {'T': 'K', 'H': 'J/mol'}, 'bare', batch)


def boundary_cases(ctx):
    """coincidences that decide something: the reference temperature exactly on a bound of the range, the first / last table
    temperature exactly on a bound — with the coinciding values written in DIFFERENT temperature units (per-value explicit
    units).  The same data with everything in K loads, so every other presentation must load too (finding YU1 when a
    one-ulp conversion error of the prefixed unit decides the comparison)."""
    name = 'C(H)4'
    shapes = [
        ('tref_on_lower', Fraction('298.15'), (Fraction('298.15'), Fraction(1000)), [(Fraction(300), Fraction(2)), (Fraction(1000), Fraction(3))]),
        ('tref_on_upper', Fraction('1500'), (Fraction('298.15'), Fraction(1500)), [(Fraction(300), Fraction(2)), (Fraction(1000), Fraction(3))]),
        ('table_on_bounds', Fraction('400'), (Fraction('300.3'), Fraction('1000.7')), [(Fraction('300.3'), Fraction(2)), (Fraction('1000.7'), Fraction(3))]),
        ('tref_on_lower_odd', Fraction('273.15'), (Fraction('273.15'), Fraction(900)), [(Fraction(300), Fraction(2)), (Fraction(800), Fraction(3))]),
    ]
    for tag, tref, rng_, cp in shapes:
        for ur in L.UNITS['T']:
            for ut in ('K', ur):
                fr, ft = L.unit_info(ur)[0], L.unit_info(ut)[0]
                entry = {'T_ref': Q(tref / ft, ut), 'ND_H_ref': Fraction(3, 2), 'ND_S_ref': Fraction(5, 2),
                         'ND_Cp_data': [[Q(T / ft, ut), c] for T, c in cp], 'range': [Q(rng_[0] / fr, ur), Q(rng_[1] / fr, ur)]}
                st, res, text = load_presentation(ctx, [name], {}, [entry])
                inp = {'file': text, 'single': True, 'shape': tag}
                ctx.case(text, None)
                ctx.count('boundary_cases')
                if st == 'ok':
                    o = L.obs_library(res)[name]
                    check_against_expected(ctx, o, {'Tref': tref, 'H': Fraction(3, 2), 'S': Fraction(5, 2), 'cp': cp, 'range': rng_}, inp)
                    continue
                # which float conversions are inexact here?  (the implementation multiplies the number by the unit's SI factor)
                noisy = [x for x, f in ((rng_[0], fr), (rng_[1], fr), (tref, ft)) if float(x / f) * float(f) != float(x)]
                ctx.violation('a consistent library fails to load when coinciding temperatures are written in different units',
                              inp, expected='loaded (it loads with every temperature in K)', observed=res,
                              finding='YU1' if (res == 'inputData' and ur != ut and noisy) else None)


def check_fixed(ctx, g, blk, form, batch):
    import random
    rng = random.Random(1)
    R = L.gas_constant()
    entry = {}
    exp = {'Tref': g['Tref'], 'H': None, 'S': None, 'cp': [], 'range': None}

    def node(x, kind):
        u = blk[kind]
        f = L.unit_info(u)[0]
        v = L.round_sig(Fraction(x) / f, 15)
        return (v if form == 'bare' else Q(v, u)), v * f
    entry['T_ref'], _ = node(g['Tref'], 'T')
    if g['H'] is not None:
        entry['H_ref'], x = node(g['H'], 'H')
        exp['H'] = x / (R * g['Tref'])
    if g['S'] is not None:
        entry['S_ref'], x = node(g['S'], 'S')
        exp['S'] = x / R
    if g['cp']:
        rows = []
        for T, c in g['cp']:
            tn, tx = node(T, 'T')
            cn, cx = node(c, 'Cp')
            rows.append([tn, cn])
            exp['cp'].append((tx, cx / R))
        entry['Cp_data'] = rows
    if g['range'] is not None:
        a, ax = node(g['range'][0], 'T')
        b, bx = node(g['range'][1], 'T')
        entry['range'] = [a, b]
        exp['range'] = (ax, bx)
    name = 'C(H)4'
    st, res, text = load_presentation(ctx, [name], blk, [entry])
    inp = {'file': text, 'single': True}
    ctx.case(text, None)
    ctx.count('zero_cases')
    batch.append((request_of(blk, entry), ('lib', st, res, name), inp))
    if st != 'ok':
        ctx.violation('a consistent library in a legal unit presentation fails to load', inp, expected='loaded', observed=res)
        return
    o = L.obs_library(res)[name]
    check_against_expected(ctx, o, exp, inp)
    cvals = {v for _, v in exp['cp']}
    if len(cvals) == 1 and len(exp['cp']) >= 2 and exp['H'] is not None and exp['S'] is not None:
        c, tr = float(next(iter(cvals))), float(exp['Tref'])
        th = res[name]['thermochem']
        for T in (250.0, 298.15, 350.0, 650.0, 950.0):
            want = {'get_CpoR': c, 'get_HoRT': (float(exp['H']) * tr + c * (T - tr)) / T, 'get_SoR': float(exp['S']) + c * math.log(T / tr)}
            for nmf, w in want.items():
                try:
                    with L.quiet():
                        got = float(getattr(th, nmf)(T))
                except Exception as e:
                    got = 'err:' + L.err_class(e)
                ctx.count('constant_table_evaluations')
                if isinstance(got, str) or abs(got - w) > 1e-9 * max(1.0, abs(w)):
                    ctx.violation('a correlation with a constant heat-capacity table does not evaluate to the closed form',
                                  dict(inp, T=T, method=nmf), expected=w, observed=got)
                    return
    for nmf, T, v in evaluate(res[name]['thermochem'], eval_points(g, res[name]['thermochem'])):
        if isinstance(v, str):
            missing = (nmf == 'get_HoRT' and g['H'] is None) or (nmf == 'get_SoR' and g['S'] is None) or (nmf == 'get_CpoR' and not g['cp'])
            if not (missing and v == 'err:incomplete'):
                ctx.violation('evaluating a loaded correlation does not give a plain finite number',
                              dict(inp, T=T, method=nmf), expected='plain finite number', observed=v)


def replay(ctx, rec):
    """re-run a recorded library file on the implementation against the specification"""
    inp = rec.get('input', rec)
    before = len(ctx.violations)
    if 'read_before' in inp:
        unit_semantics(ctx, [inp['read_before'] + [inp['unit']]])
        return len(ctx.violations) == before
    if inp.get('fault') == 'no_units_block':
        d = L.new_dir(ctx, 'c12nr-')
        path = os.path.join(d, 'library.yaml')
        open(path, 'w').write(inp['file'])
        st, res = L.load_library(path)
        if st != 'err' or res != 'inputData':
            ctx.violation('a dimensional value with no unit available (no units block at all) is not rejected with InputDataError', inp, 'inputData', res if st == 'err' else 'loaded')
        return len(ctx.violations) == before
    if 'files' in inp or ('b' in inp and 'files' in inp['b']):
        replay_files(ctx, inp if 'files' in inp else inp['b'])
        return len(ctx.violations) == before
    d = L.new_dir(ctx, 'c12r-')
    path = os.path.join(d, 'library.yaml')
    text = inp['file'] if 'file' in inp else inp['a']['file']
    with open(path, 'w') as f:
        f.write(text)
    st, res = L.load_library(path)
    want = rec.get('spec', {})
    if want.get('load') == 'rejected':
        if st != 'err' or res != want.get('class', res):
            ctx.violation(rec.get('what', 'recorded input is not rejected as specified'), inp, expected=want, observed=res if st == 'err' else 'loaded')
    else:
        if st != 'ok':
            ctx.violation(rec.get('what', 'recorded library does not load'), inp, expected='loaded', observed=res)
        else:
            obs = L.obs_library(res)
            for nm, w in want.get('groups', {}).items():
                o = obs.get(nm)
                if o is None:
                    ctx.violation('group missing', inp, expected=nm, observed=sorted(obs))
                    continue
                exp = {'H': None if w['H'] is None else Fraction(w['H']), 'S': None if w['S'] is None else Fraction(w['S']),
                       'cp': [(Fraction(a), Fraction(b)) for a, b in w['cp']], 'Tref': Fraction(w['Tref']),
                       'range': None if w['range'] is None else (Fraction(w['range'][0]), Fraction(w['range'][1]))}
                check_against_expected(ctx, o, exp, inp)
                for nmf, T, v in evaluate(res[nm]['thermochem'], [float(Fraction(t)) for t in w.get('eval_at', [])]):
                    if isinstance(v, str) and not v == 'err:incomplete':
                        ctx.violation('evaluating a loaded correlation does not give a plain finite number',
                                      dict(inp, T=T, method=nmf), expected='plain finite number', observed=v)
    return len(ctx.violations) == before


LEVEL_TEXT = ('Lean 4 theorems over the model of the YAML loaders: for every value and every pair of presentations (file default '
              'unit, explicit unit string with any prefix, non-dimensional key) denoting the same physical quantity the constructed '
              'ND_H_ref, ND_S_ref, ND_Cp_data, T_ref and range are equal and are plain numbers, zero included; a dimensional value with '
              'no unit available is InputDataError; a unit of the wrong dimension never yields a plain number. Tied to the code by '
              'kernel-checked obligations over the regenerated schema/unit tables and by a correspondence run through the real '
              'GroupLibrary.Load. Right level: the quantifier is over all values and presentations.')
LEVEL_NOTE = ('Trusted: Lean kernel, standard axioms, translator, correspondence harness, decimal-literal abstraction, A-yaml. Units are '
              'abstract (factor, dimension) pairs taken from the live Units package for the unit strings the generators use; the unit '
              'expression parser is the C10 model. Modelled not verified: qty_loader, with_units, ObjectLoader, yaml_construct. '
              'The theorems are about the repaired code (F12 with_units zero shortcut, F31 sys.exc_traceback).')
TECHNIQUE = 'Lean 4 proof over hand-written model + correspondence check + table translator'
