"""C14 — every shipped database loads, is self-consistent and relocatable.

Proof: general theorems in lean/PGA/Props/C14.lean (PSD-certificate soundness for any size, meaning of the
table checks, path/data-directory resolution) + table obligations generated from the LIVE loaded libraries
(PGA/Gen/LibObl_*.lean, UqObl_*.lean; `decide +kernel`). Tie: the translator itself for the tables (plus a
cross-check of the tables against independent fresh-process loads), correspondence for the path resolution.
Property oracle: each library loaded by name / explicit path / relocated copy in fresh processes with identical
contents, every group evaluated over its range.
"""
import os, sys, json, math, subprocess, shutil, hashlib
from . import common
from .gen import libs

PROPS = ['PGA.Props.C14']


def GEN():
    return libs.module_names()


GENERAL = ['PGA.LibTable.C14_psd_of_certificate', 'PGA.LibTable.C14_chainFree_sound', 'PGA.LibTable.C14_wfGroup_plain',
           'PGA.LibTable.C14_wfGroup_range', 'PGA.LibTable.dd_psd',
           # T1 (PGA/Props/C14Eval.lean): a well-formed record is constructed by the thermo model of C05/C06 and evaluates on its range
           'PGA.LibTable.Dec.toThermo_toRat', 'PGA.Thermo.RawData.mk_ok_of', 'PGA.LibTable.C14_wf_group_constructs',
           'PGA.LibTable.C14_wf_group_evaluates', 'PGA.LibTable.C14_wf_group_reproduces', 'PGA.LibTable.C14_wf_group_range_row',
           'PGA.Paths.C14_dataDir_cached', 'PGA.Paths.C14_dataDir_override', 'PGA.Paths.C14_resolve_builtin',
           'PGA.Paths.C14_resolve_explicit']


def OBLIGATIONS():
    return GENERAL + libs.obligation_names()


RULE = ('exhaustive over configurations: 9 bundled libraries x 3 ways of locating them (name, explicit path, relocated copy via '
        'pgradd_DATA_DIR) in fresh processes; every group of every library evaluated for each property it has data for on a grid '
        'over its valid range (range ends, every knot, T_ref, random interior points); every remap, uncertainty basis entry and '
        'matrix. A case = (library, group, property, T) evaluation or (library, way) load; all are distinct; non-trivial = evaluations '
        'of groups with a heat-capacity table, and loads.')
ASSUMPTIONS = ['A-yaml: PyYAML maps the shipped documents to the obvious trees',
               'the live objects GroupLibrary.Load returns in the harness process are what the translator dumps (cross-checked '
               'against three independent fresh-process loads on every run)',
               'pattern readability is observed (scheme load succeeds in every process), not yet a model-reader obligation']
TRUSTED = ['modelled, not verified: path resolution of GroupLibrary.Load / DataDir.get_data_dir (PGA/Model/Paths.lean)',
           'numpy Cholesky only produces the untrusted PSD witness; the kernel checks the certificate']

DUMP = r'''
import sys, os, json, warnings, hashlib
#SHIM#
warnings.filterwarnings('ignore')
import numpy as np
import pgradd.ThermoChem
from pgradd.GroupAdd.Library import GroupLibrary
from pgradd.GroupAdd import DataDir
mode, arg = sys.argv[1], sys.argv[2]
names = json.loads(sys.argv[3])
out = {'data_dir': None, 'libs': {}}
def val(x):
    if x is None: return None
    if isinstance(x, (int, float, np.integer, np.floating)) and not isinstance(x, bool): return repr(float(x))
    return 'NOTNUMBER:' + type(x).__name__
for nm in names:
    target = nm if mode in ('name', 'reloc', 'reload') else os.path.join(arg, nm, 'library.yaml')
    if mode == 'cwd':
        # from inside the library's directory, by the bare file name (an explicit path without a directory part)
        os.chdir(os.path.join(arg, nm))
        target = 'library.yaml'
    try:
        lib = GroupLibrary.Load(target)
        if mode == 'reload':
            # a caller empties what it got; loading the same library again must give the full library, not a remembered object
            lib.contents.clear()
            if isinstance(lib.uq_contents, dict):
                lib.uq_contents.clear()
            lib.scheme.patterns[:] = []
            lib.scheme.remaps.clear()
            lib = GroupLibrary.Load(target)
    except BaseException as e:
        out['libs'][nm] = {'error': type(e).__name__ + ': ' + str(e)[:200]}
        continue
    groups = {}
    for g, ps in lib.contents.items():
        th = ps.get('thermochem')
        if th is None:
            groups[str(g)] = None; continue
        cp = getattr(th, 'ND_Cp_data', None) or {}
        rng = th.get_range()
        groups[str(g)] = {'T_ref': val(th.T_ref), 'H': val(th.ND_H_ref), 'S': val(th.ND_S_ref),
                          'cp': [[repr(float(t)), val(c)] for t, c in sorted(cp.items())],
                          'range': None if rng is None else [repr(float(rng[0])), repr(float(rng[1]))]}
    sch = lib.scheme
    uq = lib.uq_contents or {}
    d = {'path': lib.path, 'groups': groups,
         'patterns': [[str(p.get('center_group')), str(p.get('periph_group'))] for p in sch.patterns],
         'n_patterns_read': sum(1 for p in sch.patterns if hasattr(p['connectivity'], 'GetQueryMatches')),
         'other': [str(o['name']) for o in sch.other_descriptors],
         'n_other_read': sum(1 for o in sch.other_descriptors if hasattr(o['connectivity'], 'GetQueryMatches')),
         'remaps': {str(k): [[repr(float(t[0])) if isinstance(t[0], (int, float)) else 'NOTNUMBER', str(t[1])] for t in v] for k, v in sch.remaps.items()},
         'uq': None}
    if uq:
        M = np.array(uq['mat'], dtype=float)
        d['uq'] = {'basis': [str(x) for x in uq['descriptors']], 'shape': list(M.shape), 'dof': val(uq['dof']),
                   'mat_sha': hashlib.sha1(json.dumps([[repr(float(x)) for x in r] for r in M.tolist()]).encode()).hexdigest(),
                   'min_eig': float(np.linalg.eigvalsh((M + M.T) / 2).min()), 'max_asym': float(abs(M - M.T).max())}
    out['libs'][nm] = d
out['data_dir'] = DataDir.get_data_dir()
json.dump(out, sys.stdout)
'''


def fresh_load(ctx, mode, arg, names, env_extra=None, cwd=None):
    env = dict(os.environ)
    env.pop('pgradd_DATA_DIR', None)
    if env_extra:
        env.update(env_extra)
    script = os.path.join(ctx.scratch, 'dump.py')
    if not os.path.exists(script):
        open(script, 'w').write(DUMP.replace('#SHIM#', ENCODING_SHIM))
    return subprocess.Popen([sys.executable, script, mode, arg, json.dumps(names)], env=env, cwd=cwd or ctx.scratch,
                            stdout=subprocess.PIPE, stderr=subprocess.PIPE, text=True)


# ------------------------------------------------------------------------------------------ the process around the load
# What a library holds depends on the library's files alone: not on the directory the process happens to run in, and not on
# the text encoding the process happens to default to.
C_LOCALE = {'LC_ALL': 'C', 'LANG': 'C', 'PYTHONUTF8': '0', 'PYTHONCOERCECLOCALE': '0'}
# default text encodings of other platforms (Windows ANSI code pages), imitated in the fresh process: open() without an
# encoding argument gets this one (see ENCODING_SHIM; the C locale above is the real thing, these are stand-ins)
OTHER_ENCODINGS = ['cp1252', 'cp932']
ENCODING_SHIM = r'''
import builtins, io, os
_enc = os.environ.get('C14_DEFAULT_TEXT_ENCODING')
if _enc:
    _open = builtins.open
    def _open_with_default(file, mode='r', buffering=-1, encoding=None, errors=None, newline=None, closefd=True, opener=None):
        if encoding is None and 'b' not in mode:
            encoding = _enc
        return _open(file, mode, buffering, encoding, errors, newline, closefd, opener)
    builtins.open = _open_with_default
    io.open = _open_with_default
'''


def include_entries(pkg_data, names):
    """{library: [(file that includes, relative to the library directory; include entry as written)]}: the include closure of
    every shipped library.yaml, read from the files"""
    import yaml
    out = {}
    for nm in names:
        seen, todo, ents = set(), ['library.yaml'], []
        while todo:
            rel = todo.pop()
            if rel in seen:
                continue
            seen.add(rel)
            path = os.path.join(pkg_data, nm, rel)
            if not os.path.isfile(path):
                continue
            with open(path, 'rb') as f:
                doc = yaml.safe_load(f.read().decode('utf-8', 'replace'))
            for inc in (doc or {}).get('include') or []:
                ents.append((rel, inc))
                todo.append(os.path.normpath(os.path.join(os.path.dirname(rel), inc)))
        out[nm] = ents
    return out


def decoy_files(entries):
    """{path relative to the working directory: text}: a well-formed library file of other contents under every name by which
    some shipped file includes another (as written, and relative to the library directory), plus the two fixed file names"""
    rels = {'library.yaml', 'scheme.yaml'}
    for nm, ents in entries.items():
        for src, inc in ents:
            if os.path.isabs(inc):
                continue
            rels.add(os.path.normpath(inc))
            rels.add(os.path.normpath(os.path.join(os.path.dirname(src), inc)))
    out = {}
    for k, rel in enumerate(sorted(rels)):
        if os.path.basename(rel) == 'scheme.yaml':
            out[rel] = 'patterns: []\n'
        else:
            out[rel] = ('units: {}\ngroups:\n  "Xe(Xe)%d": {"thermochem": {"T_ref": "298.15 K", "ND_H_ref": %d.5, "ND_S_ref": -1.25}}\n'
                        % (k + 2, 1000 + k))
    return out


def write_decoys(d, files):
    for rel, text in files.items():
        path = os.path.join(d, rel)
        os.makedirs(os.path.dirname(path), exist_ok=True)
        with open(path, 'w') as f:
            f.write(text)
    return d


def py_wf(g):
    """Python mirror of PGA.LibTable.wfGroup on a dumped group (used to locate a failing record; validated against the driver)"""
    from fractions import Fraction
    from decimal import Decimal

    def num(v):
        return v is not None and not str(v).startswith('NOTNUMBER')

    def fr(v):
        return Fraction(Decimal(v))
    if g is None:
        return False
    if not num(g['T_ref']):
        return False
    if any(str(v).startswith('NOTNUMBER') for v in (g['H'], g['S']) if v is not None):
        return False
    if not all(num(c) for _, c in g['cp']):
        return False
    tr = fr(g['T_ref'])
    if tr <= 0:
        return False
    ts = [fr(t) for t, _ in g['cp']]
    if any(not a < b for a, b in zip(ts, ts[1:])):
        return False
    if g['range'] is not None:
        lo, hi = fr(g['range'][0]), fr(g['range'][1])
    elif ts:
        lo, hi = min(ts), max(ts)
    else:
        return True
    if not (0 < lo <= hi):
        return False
    if ts and not (lo <= tr <= hi):
        return False
    return all(lo <= t <= hi for t in ts)


def classify_eval_failure(th, exc):
    """F12: a reference value / heat capacity that loaded as a unit-carrying Quantity makes evaluation raise."""
    from pgradd.Units import Quantity
    vals = [getattr(th, 'ND_H_ref', None), getattr(th, 'ND_S_ref', None)] + list((getattr(th, 'ND_Cp_data', None) or {}).values())
    if any(isinstance(v, Quantity) for v in vals) and (exc is None or type(exc).__name__ in ('UnitsError', 'TypeError')):
        return 'F12'
    return None


def evaluate_groups(ctx, name, lib, dumped):
    """every group x every property it has data for x a grid over its valid range: finite plain numbers"""
    import numpy as np
    import warnings
    rng = ctx.rng
    for g, ps in lib.contents.items():
        th = ps.get('thermochem')
        if th is None:
            ctx.violation('entry without thermochemical data', {'library': name, 'group': str(g)}, 'thermochem data', None)
            continue
        r = th.get_range()
        cp = getattr(th, 'ND_Cp_data', None) or {}
        pts = set()
        if r is not None:
            lo, hi = float(r[0]), float(r[1])
            pts.update([lo, hi, (lo + hi) / 2])
            pts.update(lo + (hi - lo) * rng.random() for _ in range(ctx.n(2, 12)))
            pts.update(float(t) for t in cp if lo <= float(t) <= hi)
        try:
            tref = float(th.T_ref)
            pts.add(tref)
        except Exception:
            pass
        has = {'CpoR': bool(cp), 'HoRT': th.ND_H_ref is not None, 'SoR': th.ND_S_ref is not None}
        has['GoRT'] = has['HoRT'] and has['SoR']
        for T in sorted(pts):
            if not cp and T != tref:
                continue   # without a table only the reference point is data (elsewhere a warning is the defined behaviour)
            for prop, ok in has.items():
                if not ok:
                    continue
                inp = {'library': name, 'group': str(g), 'property': prop, 'T': T}
                ctx.case((name, str(g), prop, T) if cp else None, inp if cp else None)
                ctx.count('eval_' + prop)
                try:
                    with warnings.catch_warnings():
                        warnings.simplefilter('ignore')
                        v = getattr(th, 'get_' + prop)(T)
                except Exception as e:
                    ctx.violation('a shipped group cannot be evaluated inside its valid range', inp,
                                  'finite plain number', type(e).__name__ + ': ' + str(e)[:120],
                                  finding=classify_eval_failure(th, e))
                    continue
                plain = isinstance(v, (float, int, np.floating, np.integer)) and not isinstance(v, bool)
                if not plain or not math.isfinite(float(v)):
                    ctx.violation('a shipped group does not evaluate to a finite plain number', inp,
                                  'finite plain number', repr(v)[:80], finding=classify_eval_failure(th, None))


def way_specs(ctx, pkg_data, names, tag):
    """the ways a library is located and the process it is loaded in: {way: {'mode', 'arg', 'env', 'cwd', ...}}"""
    import pgradd
    reloc = os.path.join(ctx.scratch, 'elsewhere-' + tag, 'relocated_data')
    if not os.path.isdir(reloc):
        shutil.copytree(pkg_data, reloc)
    # a copy of the package WITHOUT its bundled data: the override alone must locate the libraries
    nodata = os.path.join(ctx.scratch, 'nodata_pkg-' + tag)
    if not os.path.isdir(nodata):
        shutil.copytree(os.path.dirname(pgradd.__file__), os.path.join(nodata, 'pgradd'),
                        ignore=lambda d, fs: [f for f in fs if (os.path.basename(d) == 'pgradd' and f == 'data') or f == '__pycache__'])
    # a working directory that holds well-formed library files of other contents under every name a shipped file includes
    entries = include_entries(pkg_data, names)
    decoys = decoy_files(entries)
    ddir = write_decoys(os.path.join(ctx.scratch, 'workdir-with-other-files-' + tag), decoys)
    ctx.extra.setdefault('coverage', {})['include_entries_of_the_shipped_files'] = sorted({i for e in entries.values() for _, i in e})
    ctx.extra['coverage']['files_in_the_working_directory_of_the_decoy_ways'] = sorted(decoys)
    R = {'pgradd_DATA_DIR': reloc}
    specs = {
        'name': dict(mode='name', arg=''),
        'path': dict(mode='path', arg=pkg_data),
        'cwd': dict(mode='cwd', arg=pkg_data),
        'reloc': dict(mode='reloc', arg='', env=R),
        # an empty override is "not set": the bundled directory is used
        'empty': dict(mode='name', arg='', env={'pgradd_DATA_DIR': ''}),
        # every library loaded twice in one process, the first result emptied by the caller in between
        'reload': dict(mode='reload', arg=''),
        'reloc-nodata': dict(mode='reloc', arg='', env=dict(R, PYTHONPATH=nodata + os.pathsep + os.environ.get('PYTHONPATH', ''))),
        # the working directory holds files named like the includes (and library.yaml, scheme.yaml) with other contents
        'name@other-files-in-cwd': dict(mode='name', arg='', cwd=ddir, cwd_files=decoys),
        'path@other-files-in-cwd': dict(mode='path', arg=pkg_data, cwd=ddir, cwd_files=decoys),
        'reloc@other-files-in-cwd': dict(mode='reloc', arg='', env=R, cwd=ddir, cwd_files=decoys),
        # the C/POSIX locale with UTF-8 mode and locale coercion off: the default text encoding of the process is ASCII
        'name@C-locale': dict(mode='name', arg='', env=C_LOCALE),
        'path@C-locale': dict(mode='path', arg=pkg_data, env=C_LOCALE),
        'reloc@C-locale': dict(mode='reloc', arg='', env=dict(R, **C_LOCALE)),
    }
    for enc in OTHER_ENCODINGS:
        specs['name@default-encoding-' + enc] = dict(mode='name', arg='', env={'C14_DEFAULT_TEXT_ENCODING': enc})
    if not ctx.thorough():
        # quick tier: one located-by-name and one located-by-path process per situation
        for w in ('reloc@other-files-in-cwd', 'reloc@C-locale', 'name@default-encoding-' + OTHER_ENCODINGS[-1]):
            specs.pop(w)
    return specs


def way_specs_all(ctx, pkg_data, names, tag):
    """the specs of the thorough tier (a replay of a thorough run in the quick tier needs them)"""
    tier = ctx.tier
    ctx.tier = 'thorough'
    try:
        return way_specs(ctx, pkg_data, names, tag)
    finally:
        ctx.tier = tier


def run_ways(ctx, specs, names, ways):
    procs = {w: fresh_load(ctx, specs[w]['mode'], specs[w]['arg'], names, specs[w].get('env'), specs[w].get('cwd')) for w in ways}
    dumps = {}
    for way, p in procs.items():
        out, err = p.communicate(timeout=max(60, ctx.time_left()))
        if p.returncode != 0:
            if way in ('name', 'path'):
                raise common.MachineryError('fresh-process load (%s) crashed: %s' % (way, err[-800:]))
            # the process could not even resolve the data directory: every library fails to load this way
            last = (err.strip().split('\n') or ['?'])[-1][:200]
            dumps[way] = {'data_dir': None, 'libs': {nm: {'error': last} for nm in names}}
            continue
        dumps[way] = json.loads(out)
    return dumps


def shrink_cwd_files(ctx, specs, nm, w, by_name):
    """the fewest files in the working directory with which library nm, loaded the way w, still differs from the load by name"""
    files = specs[w]['cwd_files']
    n = [0]

    def fails(rels):
        n[0] += 1
        d = os.path.join(ctx.scratch, 'workdir-shrink-%d' % n[0])
        sub = dict((r, files[r]) for r in rels)
        sp = dict(specs, **{w: dict(specs[w], cwd=write_decoys(d, sub), cwd_files=sub)})
        other = run_ways(ctx, sp, [nm], [w])[w]['libs'][nm]
        return 'error' in other or bool(contents_diff(by_name, other))
    keep = common.shrink_list(sorted(files), fails, max_steps=30)
    sub = dict((r, files[r]) for r in keep)
    return dict(specs[w], cwd_files=sub)


def way_input(specs, nm, w):
    """the concrete situation of one load, for a replay file"""
    sp = specs[w]
    inp = {'library': nm, 'way': w, 'located_by': sp['mode']}
    env = {k: v for k, v in (sp.get('env') or {}).items() if k != 'PYTHONPATH'}
    if env:
        inp['environment'] = env
    if sp.get('cwd_files'):
        inp['working_directory_files'] = sp['cwd_files']
    return inp


def contents_diff(a, b):
    """{} when two dumps of a library agree in everything but the path; else a summary of where they differ"""
    out = {}
    for k in a:
        if k == 'path' or a[k] == b.get(k):
            continue
        if k == 'groups':
            ga, gb = a[k], b.get(k) or {}
            out[k] = {'only_in_the_other_load': sorted(set(gb) - set(ga))[:8], 'missing_in_the_other_load': sorted(set(ga) - set(gb))[:8],
                      'number_missing': len(set(ga) - set(gb)),
                      'different_data': sorted(g for g in ga if g in gb and ga[g] != gb[g])[:8]}
        elif isinstance(a[k], list):
            out[k] = {'here': len(a[k]), 'other_load': len(b.get(k) or [])}
        else:
            out[k] = 'differs'
    return out


def stated_vs_loaded(ctx, names, pkg_data, dumps):
    """what each data FILE states for a group (read with a plain YAML parser over the include closure, no package code) must
    be what the loaded library holds: a reference enthalpy / entropy / heat-capacity table / range written in the file — a
    zero included — is present after loading"""
    import yaml
    for nm in names:
        d = dumps['name']['libs'].get(nm, {})
        if 'error' in d or 'groups' not in d:
            continue
        stated = {}
        todo, seen = [os.path.join(pkg_data, nm, 'library.yaml')], set()
        while todo:
            f = todo.pop()
            if f in seen or not os.path.isfile(f):
                continue
            seen.add(f)
            try:
                doc = yaml.safe_load(open(f, encoding='utf-8')) or {}
            except Exception:
                continue
            for inc in doc.get('include') or []:
                todo.append(os.path.join(os.path.dirname(f), str(inc)))
            for sect in ('groups', 'other_descriptors'):
                for g, ps in (doc.get(sect) or {}).items():
                    th = (ps or {}).get('thermochem') if isinstance(ps, dict) else None
                    if isinstance(th, dict):
                        st = stated.setdefault(str(g), set())
                        for key, what in (('H_ref', 'H'), ('ND_H_ref', 'H'), ('S_ref', 'S'), ('ND_S_ref', 'S'), ('Cp_data', 'cp'),
                                          ('ND_Cp_data', 'cp'), ('range', 'range')):
                            if th.get(key) is not None and th.get(key) != []:
                                st.add(what)
        import pgradd.GroupAdd.Group as GM
        loaded = d['groups']
        for g, st in stated.items():
            try:
                cn = GM.Group.parse(None, g).name if '(' in g else g
            except Exception:
                cn = g
            have = loaded.get(cn, loaded.get(g))
            ctx.count('stated_entries')
            ctx.case(('stated', nm, g), None)
            if have is None:
                continue
            got = {w for w, ok in (('H', have.get('H') is not None), ('S', have.get('S') is not None), ('cp', bool(have.get('cp'))),
                                   ('range', have.get('range') is not None)) if ok}
            lost = sorted(st - got)
            if lost:
                ctx.violation('a value the data file states for a group is absent from the loaded library', {'library': nm, 'group': g, 'stated': sorted(st)},
                              sorted(st), sorted(got))


def run(ctx):
    import pgradd
    names = libs.lib_names()
    pkg_data = os.path.join(os.path.dirname(pgradd.__file__), 'data')
    # corpus first
    for fname, rec in common.load_corpus('C14'):
        ctx.count('corpus')
        replay(ctx, rec)
    # --- the ways of locating each library, in fresh processes (run in parallel)
    tag = 'search' if ctx.searching else 'run'      # `run` is called a second time while searching: fresh copies
    specs = way_specs(ctx, pkg_data, names, tag)
    dumps = run_ways(ctx, specs, names, list(specs))
    reloc = specs['reloc']['env']['pgradd_DATA_DIR']
    stated_vs_loaded(ctx, names, pkg_data, dumps)
    for w in specs:
        if w.startswith('reloc') and dumps[w]['data_dir'] is not None and os.path.realpath(dumps[w]['data_dir']) != os.path.realpath(reloc):
            ctx.violation('the data-directory override is not honoured', {'pgradd_DATA_DIR': reloc, 'way': w}, reloc, dumps[w]['data_dir'])
    if dumps['empty']['data_dir'] is not None and os.path.realpath(dumps['empty']['data_dir']) != os.path.realpath(pkg_data):
        ctx.violation('an empty data-directory override is not treated as unset', {'pgradd_DATA_DIR': ''}, pkg_data, dumps['empty']['data_dir'])
    model_reqs = []
    for nm in names:
        per = {w: dumps[w]['libs'][nm] for w in dumps}
        for w, d in per.items():
            ctx.case(('load', nm, w), {'library': nm, 'way': w, 'path': d.get('path'), 'error': d.get('error')})
            ctx.count('loads')
            ctx.count('loads_' + w)
            if 'error' in d:
                ctx.violation('a bundled library does not load', way_input(specs, nm, w), 'loads', d['error'])
        if 'error' in per['name']:
            continue
        for w in per:
            if w != 'name' and 'error' not in per[w]:
                diff = contents_diff(per['name'], per[w])
                if diff:
                    if specs[w].get('cwd_files') and not getattr(ctx, '_c14_shrunk', False):
                        ctx._c14_shrunk = True
                        specs = dict(specs)
                        specs[w] = shrink_cwd_files(ctx, specs, nm, w, per['name'])
                    ctx.violation('library contents depend on how the library is located / on the process it is loaded in',
                                  dict(way_input(specs, nm, w), differing=sorted(diff)), 'the contents loaded by name from a neutral directory', diff)
        if any('error' in d for d in per.values()):
            continue
        # path resolution: implementation (observed lib.path) vs model
        for w, dd, arg in (('name', pkg_data, nm), ('reloc', reloc, nm), ('path', pkg_data, os.path.join(pkg_data, nm, 'library.yaml'))):
            model_reqs.append(({'op': 'c14.resolve', 'exists': [arg] if w == 'path' else [], 'dataDir': dd, 'path': arg},
                               per[w]['path'], {'library': nm, 'way': w, 'argument': arg}))
        d = per['name']
        # scheme: every pattern was compiled; remaps well formed and chain free (oracle in Python, independent of the Lean check)
        if d['n_patterns_read'] != len(d['patterns']) or d['n_other_read'] != len(d['other']):
            ctx.violation('a scheme pattern was not compiled to a query', {'library': nm}, 'all patterns readable', None)
        ctx.count('patterns', len(d['patterns']) + len(d['other']))
        rm = d['remaps']
        ctx.count('remaps', len(rm))
        for k, ts in rm.items():
            if not ts or any(t[0] == 'NOTNUMBER' for t in ts):
                ctx.violation('malformed remap rule', {'library': nm, 'key': k, 'targets': ts}, '[[number, name], ...]', ts)
            for t in ts:
                if t[1] in rm:
                    ctx.violation('remap chain: a remap target is itself remapped', {'library': nm, 'key': k, 'target': t[1]}, 'chain-free', None)
        # uncertainty block
        if d['uq']:
            u = d['uq']
            ctx.count('uq_libraries')
            gnames = {g for g, v in d['groups'].items() if v is not None}
            bad = [b for b in u['basis'] if b not in gnames]
            if bad:
                ctx.violation('uncertainty basis names a descriptor without data', {'library': nm, 'descriptors': bad[:5]}, 'entries with data', None)
            if u['shape'] != [len(u['basis'])] * 2:
                ctx.violation('uncertainty matrix not square / not sized to its basis', {'library': nm, 'shape': u['shape'], 'basis': len(u['basis'])}, None, None)
            elif u['max_asym'] != 0.0:
                ctx.violation('uncertainty matrix not symmetric', {'library': nm, 'max_asym': u['max_asym']}, 0.0, u['max_asym'])
            elif u['min_eig'] < -1e-9:
                ctx.violation('uncertainty matrix not positive semi-definite', {'library': nm, 'min_eigenvalue': u['min_eig']}, '>= 0', u['min_eig'])
        # table records: Python mirror of wfGroup (locates a failing record) ...
        for g, v in d['groups'].items():
            if not py_wf(v):
                ctx.count('records_not_wf')
        model_reqs.append(({'op': 'c14.wfgroups', 'lib': nm}, sorted([g, py_wf(v)] for g, v in d['groups'].items()), {'library': nm, 'check': 'wfGroup'}))
    # in-process libraries (the very objects the translator dumps): consistency with the fresh-process dumps, then evaluation
    for nm in names:
        d = dumps['name']['libs'][nm]
        if 'error' in d:
            continue            # already a violation ('a bundled library does not load'); nothing to evaluate in-process
        lib = libs.load(nm)
        here = sorted(str(g) for g in lib.contents)
        if here != sorted(d['groups']):
            raise common.MachineryError('translator process and fresh process disagree on the groups of ' + nm)
        evaluate_groups(ctx, nm, lib, d)
        # C14-T1 tie: every record through the constructors of the thermo model (driver) vs the loaded object: constructed,
        # inner table correlation present, number of points, effective range (declared, else the one of the table correlation)
        exp = []
        for g, ps in lib.contents.items():
            th = ps.get('thermochem')
            if th is None:
                continue
            rng = th.get_range()
            if rng is None and hasattr(th, '_correlation'):
                rng = th._correlation.get_range()
            try:
                rj = None if rng is None else [common.jrat(common.frac_of_float(float(rng[0]))), common.jrat(common.frac_of_float(float(rng[1])))]
            except Exception:
                rj = 'NOTNUMBER'
            exp.append({'name': str(g), 'out': {'ok': True, 'hasCorr': hasattr(th, '_correlation'), 'npts': len(th.ND_Cp_data or {})},
                        'range': rj})
        model_reqs.append(({'op': 'c14.correlations', 'lib': nm}, sorted(exp, key=lambda e: e['name']), {'library': nm, 'check': 'correlation'}))
    # data-directory lookup: model vs a direct reading of the property (small exhaustive table)
    for cache in (None, '/c'):
        for env in (None, '', '/e'):
            for pkg in (None, '/p/data'):
                for dirs in ([], ['/e'], ['/p/data'], ['/e', '/p/data', '/c']):
                    exp_dir = cache if cache else (env if env else pkg)
                    if cache:
                        exp = {'ok': cache, 'cache': cache}
                    elif exp_dir is None:
                        exp = {'err': 'cannotLocate', 'cache': None}
                    elif exp_dir in dirs:
                        exp = {'ok': exp_dir, 'cache': exp_dir}
                    else:
                        exp = {'err': 'notADirectory', 'cache': None}
                    req = {'op': 'c14.datadir', 'dirs': dirs}
                    if cache is not None:
                        req['cache'] = cache
                    if env is not None:
                        req['env'] = env
                    if pkg is not None:
                        req['pkg'] = pkg
                    model_reqs.append((req, exp, dict(req)))
    replies = ctx.model([m[0] for m in model_reqs])
    if replies is not None:
        for (req, impl, inp), rep in zip(model_reqs, replies):
            ctx.count('corr_' + req['op'])
            if req['op'] == 'c14.resolve':
                rep = rep['library']
            elif req['op'] == 'c14.wfgroups':
                rep = sorted([r['name'], r['wf']] for r in rep)
            elif req['op'] == 'c14.correlations':
                rep = sorted(rep, key=lambda e: e['name'])
                ctx.count('corr_c14.correlations_groups', len(rep))
            if rep != impl:
                ctx.disagree('corr:' + req['op'], inp, impl if not isinstance(impl, list) else [x for x in impl if x not in rep][:5],
                             rep if not isinstance(rep, list) else [x for x in rep if x not in impl][:5])


def replay(ctx, rec):
    inp = rec.get('input', rec)
    before = len(ctx.violations) + sum(k['count'] for k in ctx.known_seen.values())
    if 'way' in inp and 'library' in inp:
        # one library, loaded by name from a neutral directory and in the recorded situation (rebuilt from the record)
        import pgradd
        names = libs.lib_names()
        pkg_data = os.path.join(os.path.dirname(pgradd.__file__), 'data')
        specs = way_specs(ctx, pkg_data, names, 'replay')
        w, nm = inp['way'], inp['library']
        if w not in specs:
            specs.update(way_specs_all(ctx, pkg_data, names, 'replay'))
        if inp.get('working_directory_files'):
            d = write_decoys(os.path.join(ctx.scratch, 'workdir-replay'), inp['working_directory_files'])
            specs[w] = dict(specs[w], cwd=d, cwd_files=inp['working_directory_files'])
        dumps = run_ways(ctx, specs, [nm], ['name', w] if w != 'name' else ['name'])
        a, b = dumps['name']['libs'][nm], dumps[w]['libs'][nm]
        if 'error' in b or 'error' in a:
            ctx.violation('a bundled library does not load', inp, 'loads', b.get('error') or a.get('error'))
        elif contents_diff(a, b):
            ctx.violation('library contents depend on how the library is located / on the process it is loaded in', inp,
                          'the contents loaded by name from a neutral directory', contents_diff(a, b))
    elif 'stated' in inp and 'library' in inp:
        import pgradd
        pkg_data = os.path.join(os.path.dirname(pgradd.__file__), 'data')
        specs = way_specs(ctx, pkg_data, libs.lib_names(), 'replay')
        dumps = run_ways(ctx, specs, [inp['library']], ['name'])
        stated_vs_loaded(ctx, [inp['library']], pkg_data, dumps)
    elif 'group' in inp and 'library' in inp:
        import warnings
        lib = libs.load(inp['library'])
        for g, ps in lib.contents.items():
            if str(g) == inp['group']:
                th = ps['thermochem']
                props = [inp['property']] if 'property' in inp else ['CpoR', 'HoRT', 'SoR']
                Ts = [inp['T']] if 'T' in inp else [float(th.T_ref)]
                for prop in props:
                    for T in Ts:
                        try:
                            with warnings.catch_warnings():
                                warnings.simplefilter('ignore')
                                v = getattr(th, 'get_' + prop)(T)
                            if not math.isfinite(float(v)) or type(v).__name__ == 'Quantity':
                                raise ValueError('not a finite plain number: %r' % (v,))
                        except Exception as e:
                            if type(e).__name__ == 'IncompleteDataError':
                                continue
                            ctx.violation('a shipped group cannot be evaluated inside its valid range', inp, 'finite plain number',
                                          type(e).__name__, finding=classify_eval_failure(th, e))
    return len(ctx.violations) + sum(k['count'] for k in ctx.known_seen.values()) == before


LEVEL_TEXT = ('Exhaustive over configurations by proof: table obligations generated from the live loaded libraries (every group record '
              'self-consistent: plain numbers, positive T_ref, strictly increasing table inside a positive range containing T_ref; remaps '
              'well formed and chain-free; uncertainty basis names entries with data; matrix square, sized, symmetric) are decided by the '
              'kernel over the whole tables, and positive semi-definiteness of each shipped matrix is a theorem: a kernel-checked certificate '
              'plus a general soundness theorem (diagonally dominant => PSD, any size). Path/data-directory resolution is modelled and its '
              'laws proved. Loads by name / path / relocated copy run in fresh processes and must give identical contents.')
LEVEL_NOTE = ('Trusted: Lean kernel; axioms propext/Classical.choice/Quot.sound; the translator (dumps GroupLibrary.Load objects; cross-checked '
              'against three independent fresh-process loads each run); decimal-literal abstraction for matrix entries and table values. '
              'Observed rather than proved: finiteness of evaluated values (floating point), readability of pattern texts (load succeeds).')
TECHNIQUE = 'Lean 4 proof: kernel-decided table obligations over translator output + general PSD-certificate soundness theorem + correspondence for path resolution'
