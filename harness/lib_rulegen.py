"""Generator of RING reaction rules and the property oracle of C16.

A rule is a plain dict, independent of the implementation's parser, reader and edit classes:
  {'name': str, 'frag': <fragment as in lib_ringgen_c08, its 'name' is the reactant name>,
   'constraints': bool, 'edits': [edit]}
  edit = ('form', word|None, l1, l2) | ('break', word|None, l1, l2) | ('modify', l1, l2, word)
       | ('increase', l1, l2) | ('decrease', l1, l2)
       | ('radset', l, n) | ('radinc', l) | ('raddec', l) | ('chginc', l) | ('chgdec', l)
       | ('atomtype', l, {'prefix','sym','suffix'})

The oracle part is written from the property text ("each product set is the reactant with precisely the rule's
bond formations, breakages, order changes and radical or charge changes applied to the matched atoms and nothing
else ... A rule whose bond and radical edits leave some labelled atom's electrons unbalanced is rejected when
read"): `expected_read(rule)` says how reading must end, `apply_declared(rule, graph, match)` applies the declared
edits to a copy of the plain graph (dicts, no RDKit, nothing of the repository), `check_product(...)` tests the
conservation, frame and balance clauses on a product the implementation returned."""
import copy
from . import lib_ringgen_c08 as RG
from . import lib_embeds as EM

# twice the bond order a RING bond word declares (the words an edit may use)
ORDER2 = {'single': 2, 'double': 4, 'triple': 6, 'quadruple': 8, 'aromatic': 3, 'partial': 0}
KIND_OF_WORD = {'single': 'single', 'double': 'double', 'triple': 'triple', 'quadruple': 'quadruple',
                'aromatic': 'aromatic', 'partial': 'dative'}
# twice the bond order of a bond kind of the graph (kinds no edit can name count 0: they are never changed)
HALF = {'single': 2, 'double': 4, 'triple': 6, 'quadruple': 8, 'quintuple': 10, 'aromatic': 3,
        'zero': 0, 'dative': 0, 'other': 0, 'misc': 0}
UP = {'single': 'double', 'double': 'triple', 'triple': 'quadruple', 'quadruple': 'quintuple'}
DOWN = {'single': None, 'double': 'single', 'triple': 'double', 'quadruple': 'triple', 'quintuple': 'quadruple'}
EDIT_WORDS = ['single', 'double', 'triple', 'quadruple', 'aromatic', 'partial']
OTHER_WORDS = ['ring', 'nonring', 'any', 'strong']
SUFFIX_RADICAL = {None: 0, '.': 1, ':': 2, ':.': 3, '+.': 1, '-.': 1}       # '+', '-', '?', '*': left open


# ---------------------------------------------------------------------------------------------- text
def edit_tokens(e):
    k = e[0]
    if k in ('form', 'break'):
        return [k] + ([e[1]] if e[1] else []) + ['bond', '(', e[2], ',', e[3], ')']
    if k == 'modify':
        return ['modify bond', '(', e[1], ',', e[2], ',', e[3], ')']
    if k == 'increase':
        return ['increase bond order', '(', e[1], ',', e[2], ')']
    if k == 'decrease':
        return ['decrease bond order', '(', e[1], ',', e[2], ')']
    if k == 'radset':
        return ['modify number of radical', '(', e[1], ',', str(e[2]), ')']
    if k == 'radinc':
        return ['increase number of radical', '(', e[1], ')']
    if k == 'raddec':
        return ['decrease number of radical', '(', e[1], ')']
    if k == 'chginc':
        return ['increase formal charge', '(', e[1], ')']
    if k == 'chgdec':
        return ['decrease formal charge', '(', e[1], ')']
    if k == 'atomtype':
        return ['modify atomtype', '(', e[1], ',', RG.atomtype_text(e[2]), ')']
    raise ValueError(e)


def tokens(rule):
    ft = RG.tokens(rule['frag'])
    k = ft.index('fragment')
    ft[k] = 'reactant'
    toks = ['rule', rule['name'], '{'] + ft
    if rule.get('constraints'):
        toks += ['constraints{', rule['frag']['name'] + '.size', '>', '1', '}']
    for e in rule['edits']:
        toks += edit_tokens(e)
    toks.append('}')
    return toks


def render(rule, rng=None, plain=False):
    toks = tokens(rule)
    out = []
    for k, t in enumerate(toks):
        if k:
            glue_ok = t in '{}(),' or toks[k - 1] in '{}(),!'
            if plain or rng is None:
                out.append(' ')
            elif glue_ok and rng.random() < 0.4:
                pass
            else:
                out.append(''.join(rng.choice([' ', ' ', ' ', '\n', '\t', '  ', '\n    ']) for _ in range(rng.choice([1, 1, 1, 2]))))
        out.append(t)
    text = ''.join(out)
    if rng is not None and not plain:
        text = rng.choice(['', ' ', '\n']) + text + rng.choice(['', ' ', '\n'])
    return text


# ---------------------------------------------------------------------------------------------- declared pattern
class Pattern(object):
    """what the reactant fragment declares: label -> index (first declaration), bond word per index pair, radical
    count per atom (None = left open)"""

    def __init__(self, frag):
        self.atoms, self.bonds, self.stereo = EM.resolve(frag)        # raises EM.Unreadable
        self.labels = [a['label'] for a in self.atoms]
        self.word = {}
        for (i, j, w) in self.bonds:
            self.word.setdefault(frozenset((i, j)), w)
        self.radical = [declared_radical(a) for a in self.atoms]

    def idx(self, label):
        return self.labels.index(label) if label in self.labels else None


def declared_radical(a):
    if a.get('suffix') in SUFFIX_RADICAL:
        return SUFFIX_RADICAL[a.get('suffix')]
    for c in a['chain']:
        if c[0] == 'radical' and not c[1] and c[2][0] in (None, '='):
            return c[2][1]
    return None


def edit_labels(e):
    k = e[0]
    if k in ('form', 'break'):
        return [e[2], e[3]]
    if k in ('modify', 'increase', 'decrease'):
        return [e[1], e[2]]
    return [e[1]]


def is_bond_edit(e):
    return e[0] in ('form', 'break', 'modify', 'increase', 'decrease')


def declared_increments(pat, e):
    """the change of (2 x bond order sum + 2 x radicals + 2 x charge) the edit declares per label index, or a string:
    'reader' (the statement cannot be given a meaning / cannot be balanced), 'notImplemented'"""
    k = e[0]
    idx = [pat.idx(l) for l in edit_labels(e)]
    if k in ('form', 'break'):
        w = e[1] or 'single'
        if w not in ORDER2:
            return 'reader'
    if any(i is None for i in idx):
        return 'reader'
    if k == 'form':
        return [(idx[0], ORDER2[w]), (idx[1], ORDER2[w])]
    if k == 'break':
        pw = pat.word.get(frozenset(idx)) if idx[0] != idx[1] else None
        if pw is None or pw not in ('single', 'double', 'triple', 'quadruple', 'aromatic') or pw != w:
            return 'reader'
        return [(idx[0], -ORDER2[w]), (idx[1], -ORDER2[w])]
    if k == 'modify':
        pw = pat.word.get(frozenset(idx)) if idx[0] != idx[1] else None
        if pw is None or pw not in ('single', 'double', 'triple', 'quadruple', 'aromatic'):
            return 'reader'
        if e[3] not in ORDER2:
            return 'reader'
        d = ORDER2[e[3]] - ORDER2[pw]
        return [(idx[0], d), (idx[1], d)]
    if k == 'increase':
        return [(idx[0], 2), (idx[1], 2)]
    if k == 'decrease':
        return [(idx[0], -2), (idx[1], -2)]
    if k == 'atomtype':
        return 'notImplemented'
    if k == 'radset':
        d = pat.radical[idx[0]]
        if d is None:
            return 'reader'
        return [(idx[0], 2 * (e[2] - d))]
    if k in ('radinc', 'chginc'):
        return [(idx[0], 2)]
    if k in ('raddec', 'chgdec'):
        return [(idx[0], -2)]
    raise ValueError(e)


def declared_balance(rule):
    """(class, balance per label index): class 'ok' when every statement has a meaning"""
    try:
        pat = Pattern(rule['frag'])
    except EM.Unreadable:
        return 'reader', None
    if rule.get('constraints'):
        return 'notImplemented', None
    bal = [0] * len(pat.atoms)
    for e in rule['edits']:
        inc = declared_increments(pat, e)
        if isinstance(inc, str):
            return inc, None
        for i, d in inc:
            bal[i] += d
    return 'ok', bal


def expected_read(rule):
    """how `Read(text)` must end: 'ok' | 'reader' | 'notImplemented'"""
    cls, bal = declared_balance(rule)
    if cls != 'ok':
        return cls
    return 'ok' if all(b == 0 for b in bal) else 'reader'


# ---------------------------------------------------------------------------------------------- applying a rule
class Inapplicable(Exception):
    pass


def graph_state(g):
    atoms = [[a[0], a[1], a[2]] for a in g['atoms']]
    bonds = {}
    for b in g['bonds']:
        bonds[frozenset((b[0], b[1]))] = b[2]
    return atoms, bonds


def apply_declared(rule, g, f):
    """the reactant graph with exactly the declared edits applied at the atoms the match `f` names, or
    ('inapplicable', k, why) when the k-th statement does not describe something that can be done there"""
    pat = Pattern(rule['frag'])
    atoms, bonds = graph_state(g)
    for k, e in enumerate(rule['edits']):
        xs = [f[pat.idx(l)] for l in edit_labels(e)]
        try:
            t = e[0]
            if is_bond_edit(e):
                pair = frozenset(xs)
                cur = bonds.get(pair) if len(pair) == 2 else None
                if t == 'form':
                    if len(pair) != 2 or cur is not None:
                        raise Inapplicable('the atoms are already bonded' if cur else 'an atom cannot be bonded to itself')
                    bonds[pair] = KIND_OF_WORD[e[1] or 'single']
                elif t == 'break':
                    if cur is None or cur != KIND_OF_WORD[e[1] or 'single']:
                        raise Inapplicable('no %s bond to break' % (e[1] or 'single'))
                    del bonds[pair]
                elif t == 'modify':
                    pw = pat.word.get(frozenset(pat.idx(l) for l in edit_labels(e)))
                    if cur is None or cur != KIND_OF_WORD[pw]:
                        raise Inapplicable('the bond is not the declared %s bond any more' % pw)
                    bonds[pair] = KIND_OF_WORD[e[3]]
                elif t == 'increase':
                    if cur not in UP:
                        raise Inapplicable('no bond whose order can be increased')
                    bonds[pair] = UP[cur]
                elif t == 'decrease':
                    if cur not in DOWN:
                        raise Inapplicable('no bond whose order can be decreased')
                    if DOWN[cur] is None:
                        del bonds[pair]
                    else:
                        bonds[pair] = DOWN[cur]
            else:
                a = atoms[xs[0]]
                if t == 'radset':
                    if a[2] != pat.radical[pat.idx(e[1])]:
                        raise Inapplicable('the atom does not carry the declared number of radical electrons any more')
                    a[2] = e[2]
                elif t == 'radinc':
                    a[2] += 1
                elif t == 'raddec':
                    if a[2] == 0:
                        raise Inapplicable('no radical electron to remove')
                    a[2] -= 1
                elif t == 'chginc':
                    a[1] += 1
                elif t == 'chgdec':
                    a[1] -= 1
                else:
                    raise ValueError(e)
        except Inapplicable as why:
            return ('inapplicable', k, str(why))
    return ('ok', atoms, bonds)


def components(n, bonds):
    """connected components (lists of atom indices, ascending, ordered by smallest atom) by union-find"""
    parent = list(range(n))

    def find(x):
        while parent[x] != x:
            parent[x] = parent[parent[x]]
            x = parent[x]
        return x
    for p in bonds:
        a, b = tuple(p)
        ra, rb = find(a), find(b)
        if ra != rb:
            parent[max(ra, rb)] = min(ra, rb)
    groups = {}
    for i in range(n):
        groups.setdefault(find(i), []).append(i)
    return [groups[k] for k in sorted(groups)]


def bond_sum2(bonds, x):
    return sum(HALF[k] for p, k in bonds.items() if x in p)


def check_product(rule, g, f, patoms, pbonds, pcomps):
    """the clauses of the property on one product set the implementation returned (atoms [[Z, charge, radicals]] and
    bonds {pair: kind} by original atom index, components as returned): list of violated clauses"""
    bad = []
    pat = Pattern(rule['frag'])
    atoms0, bonds0 = graph_state(g)
    n = len(atoms0)
    # T1 conservation: same atoms, same elements, the product molecules partition them
    if len(patoms) != n or [a[0] for a in patoms] != [a[0] for a in atoms0]:
        bad.append('atoms are not conserved')
        return bad
    flat = sorted(x for c in pcomps for x in c)
    if flat != list(range(n)):
        bad.append('the product molecules do not partition the atoms of the reactant')
    if sorted(map(sorted, pcomps)) != sorted(components(n, pbonds)):
        bad.append('the product molecules are not the connected components of the edited molecule')
    # T2 frame
    named_atoms, named_pairs = set(), set()
    for e in rule['edits']:
        xs = [f[pat.idx(l)] for l in edit_labels(e)]
        if is_bond_edit(e):
            named_pairs.add(frozenset(xs))
        else:
            named_atoms.add(xs[0])
    for x in range(n):
        if x not in named_atoms and patoms[x][1:3] != atoms0[x][1:3]:
            bad.append('an atom no radical/charge edit names changed its charge or radical electrons (atom %d)' % x)
            break
    for p in set(bonds0) | set(pbonds):
        if p not in named_pairs and bonds0.get(p) != pbonds.get(p):
            bad.append('a bond no bond edit names changed (%s)' % sorted(p))
            break
    # T3 balance at every labelled atom
    for i, x in enumerate(f):
        d = (bond_sum2(pbonds, x) - bond_sum2(bonds0, x)) + 2 * (patoms[x][2] - atoms0[x][2]) + 2 * (patoms[x][1] - atoms0[x][1])
        if d != 0:
            bad.append('electrons of the labelled atom %s are not balanced (by %s half electrons)' % (pat.labels[i], d))
            break
    return bad


# ---------------------------------------------------------------------------------------------- generation
SYMS = ['C', 'C', 'C', 'C', 'H', 'H', 'O', 'N', '$', 'X', '&', 'Pt']
SUFFIXES = [None, None, None, None, '.', '.', '?', '?', '+', '-', ':', '+.', '-.', ':.']
BOND_WORDS = ['single'] * 6 + ['double', 'double', 'triple', 'aromatic', 'any', 'ring', 'nonring', 'strong', 'partial', 'quadruple']
LABELS = ['c1', 'c2', 'c3', 'h1', 'a', 'b', 'x_1', 'o', 'n7', 'q9', 'C', 'H1', 'lab', 'm', 'k0', '_z']


def rand_pattern(rng, n=None):
    n = n or rng.choice([1, 1, 2, 2, 2, 2, 3, 3, 3, 4, 4])
    labels = rng.sample(LABELS, n)
    items = []
    pairs = set()
    for i in range(n):
        a = {'prefix': None, 'sym': rng.choice(SYMS), 'suffix': rng.choice(SUFFIXES), 'label': labels[i], 'chain': [], 'bond': None}
        if rng.random() < 0.06:
            a['prefix'] = rng.choice(RG.ATOM_PREFIX)
        if i:
            j = rng.randrange(i) if rng.random() < 0.5 else i - 1
            a['bond'] = (rng.choice(BOND_WORDS), labels[j])
            pairs.add(frozenset((i, j)))
        r = rng.random()
        if r < 0.08:
            c = RG.rand_cons(rng)
            while c[0] == 'conn' and c[3].get('suffix') == '*':     # the `*` suffix is C08's finding FM1: not generated here
                c = RG.rand_cons(rng)
            a['chain'] = [c]
        elif r < 0.16 and a['suffix'] in ('?', '+', '-'):
            a['chain'] = [('radical', False, (rng.choice(['=', None]), rng.choice([0, 1, 1, 2])))]
        items.append(('atom', a))
        if i >= 2 and rng.random() < 0.15:
            x, y = rng.sample(range(i + 1), 2)
            if frozenset((x, y)) not in pairs:
                items.append(('ringbond', labels[x], rng.choice(['single', 'single', 'double', 'ring', 'any']), labels[y]))
                pairs.add(frozenset((x, y)))
    mp = []
    if rng.random() < 0.06:
        mp = [rng.choice(RG.CHARGE_PREFIX + RG.KIND_PREFIX + RG.RING_PREFIX)]
    return {'molprefix': mp, 'name': rng.choice(['r1', 'r1', 'A', 'mol_1', 'x']), 'items': items}


def rand_edit(rng, pat, labels=None):
    labels = labels or pat.labels
    n = len(pat.labels)
    bonded = [tuple(sorted(p)) for p in pat.word]
    k = rng.choice(['form', 'break', 'break', 'modify', 'increase', 'decrease', 'decrease', 'radset', 'radinc', 'radinc',
                    'raddec', 'raddec', 'chginc', 'chgdec'])
    if k in ('form', 'break', 'modify', 'increase', 'decrease'):
        if n == 1:
            i = j = 0
            if rng.random() < 0.8:
                return rand_edit(rng, pat, labels)
        elif k != 'form' and bonded and rng.random() < 0.85:
            i, j = rng.choice(bonded)
        else:
            i, j = rng.sample(range(n), 2)
        if rng.random() < 0.5:
            i, j = j, i
        l1, l2 = pat.labels[i], pat.labels[j]
        if k in ('form', 'break'):
            pw = pat.word.get(frozenset((i, j)))
            if k == 'break' and pw in ORDER2 and rng.random() < 0.85:
                w = None if (pw == 'single' and rng.random() < 0.6) else pw
            else:
                w = rng.choice([None, None, None, 'single', 'double', 'triple', 'aromatic', 'partial', 'quadruple'])
            return (k, w, l1, l2)
        if k == 'modify':
            return (k, l1, l2, rng.choice(EDIT_WORDS))
        return (k, l1, l2)
    l = rng.choice(labels)
    if k == 'radset':
        return (k, l, rng.choice([0, 0, 1, 1, 2, 3]))
    return (k, l)


def compensate(rng, pat, edits, charge_ok=True):
    """append radical (or charge) edits that bring every label's declared balance to zero; None if impossible"""
    rule = {'frag': None, 'edits': edits}
    bal = [0] * len(pat.atoms)
    for e in edits:
        inc = declared_increments(pat, e)
        if isinstance(inc, str):
            return None
        for i, d in inc:
            bal[i] += d
    extra = []
    for i, b in enumerate(bal):
        if b % 2:
            return None
        l = pat.labels[i]
        if pat.idx(l) != i:          # a label declared twice: the second atom cannot be named
            if b:
                return None
            continue
        have = pat.radical[i] if pat.radical[i] is not None else 1
        for _ in range(abs(b) // 2):
            if b > 0:
                if have > 0 and not (charge_ok and rng.random() < 0.12):
                    extra.append(('raddec', l))
                    have -= 1
                else:
                    extra.append(('chgdec', l) if (charge_ok and rng.random() < 0.8) else ('raddec', l))
            else:
                extra.append(('chginc', l) if (charge_ok and rng.random() < 0.15) else ('radinc', l))
    return extra


def rand_rule(rng, balanced=True, nedits=None):
    for _ in range(50):
        frag = rand_pattern(rng)
        try:
            pat = Pattern(frag)
        except EM.Unreadable:
            continue
        k = nedits or rng.choice([1, 1, 2, 2, 2, 3, 3, 4, 5])
        edits = [rand_edit(rng, pat) for _ in range(k)]
        if balanced:
            extra = compensate(rng, pat, edits)
            if extra is None:
                continue
            edits = edits + extra
            r = rng.random()
            if r < 0.35:
                rng.shuffle(edits)
            elif r < 0.6:
                edits = extra + edits[:k]
        return {'name': rng.choice(['r', 'rule1', 'H_abs', 'x9']), 'frag': frag, 'constraints': False, 'edits': edits}
    return docstring_rule()


def unbalance(rng, rule):
    """a balanced rule made unbalanced by one change"""
    r = copy.deepcopy(rule)
    pat = Pattern(r['frag'])
    how = rng.choice(['drop', 'dup', 'extra', 'swap'])
    es = r['edits']
    if how == 'drop' and len(es) > 1:
        del es[rng.randrange(len(es))]
    elif how == 'dup':
        es.insert(rng.randrange(len(es) + 1), rng.choice(es))
    elif how == 'swap' and es:
        k = rng.randrange(len(es))
        sw = {'radinc': 'raddec', 'raddec': 'radinc', 'chginc': 'chgdec', 'chgdec': 'chginc', 'increase': 'decrease', 'decrease': 'increase',
              'form': 'break', 'break': 'form'}
        if es[k][0] in sw:
            es[k] = (sw[es[k][0]],) + tuple(es[k][1:])
        else:
            es.append((rng.choice(['radinc', 'raddec', 'chginc', 'chgdec']), rng.choice(pat.labels)))
    else:
        es.insert(rng.randrange(len(es) + 1), (rng.choice(['radinc', 'raddec', 'chginc', 'chgdec']), rng.choice(pat.labels)))
    return r


def A(sym='C', label='c1', suffix=None, bond=None, prefix=None, chain=()):
    return ('atom', {'prefix': prefix, 'sym': sym, 'suffix': suffix, 'label': label, 'chain': list(chain), 'bond': bond})


def R(items, edits, name='r', rname='r1', mp=(), constraints=False):
    return {'name': name, 'frag': {'molprefix': list(mp), 'name': rname, 'items': list(items)}, 'constraints': constraints,
            'edits': list(edits)}


def docstring_rule():
    """the C-H scission of the reader's docstring"""
    return R([A('C', 'c1'), A('H', 'h1', bond=('single', 'c1'))],
             [('radinc', 'c1'), ('radinc', 'h1'), ('break', None, 'c1', 'h1')], name='increaseBO')


def template_rules():
    """designed rules: the elementary steps the rule language is for, each edit kind at least once in a balanced rule,
    and the classes behind the findings of C16"""
    CC = lambda w='single', s1=None, s2=None, y1='C', y2='C': [A(y1, 'c1', suffix=s1), A(y2, 'c2', suffix=s2, bond=(w, 'c1'))]
    out = [
        docstring_rule(),
        # homolytic scissions
        R(CC(), [('break', None, 'c1', 'c2'), ('radinc', 'c1'), ('radinc', 'c2')]),
        R(CC(), [('break', 'single', 'c2', 'c1'), ('radinc', 'c2'), ('radinc', 'c1')]),
        R(CC('double'), [('break', 'double', 'c1', 'c2'), ('radinc', 'c1'), ('radinc', 'c1'), ('radinc', 'c2'), ('radinc', 'c2')]),
        R(CC('triple'), [('break', 'triple', 'c1', 'c2')] + [('radinc', 'c1')] * 3 + [('radinc', 'c2')] * 3),
        R(CC('single', y2='O'), [('break', None, 'c1', 'c2'), ('radinc', 'c1'), ('radinc', 'c2')]),
        R(CC('single', y2='$'), [('break', None, 'c1', 'c2'), ('radinc', 'c1'), ('radinc', 'c2')]),
        R(CC('single', y1='X', y2='X'), [('break', None, 'c1', 'c2'), ('radinc', 'c1'), ('radinc', 'c2')]),
        # bond-order changes
        R(CC('double'), [('decrease', 'c1', 'c2'), ('radinc', 'c1'), ('radinc', 'c2')]),
        R(CC('triple'), [('decrease', 'c1', 'c2'), ('radinc', 'c1'), ('radinc', 'c2')]),
        R(CC('single'), [('decrease', 'c1', 'c2'), ('radinc', 'c1'), ('radinc', 'c2')]),
        R(CC('single', '.', '.'), [('increase', 'c1', 'c2'), ('raddec', 'c1'), ('raddec', 'c2')]),
        R(CC('double', '.', '.'), [('raddec', 'c1'), ('raddec', 'c2'), ('increase', 'c1', 'c2')]),
        R(CC('single', ':', ':'), [('increase', 'c1', 'c2'), ('increase', 'c1', 'c2'), ('raddec', 'c1'), ('raddec', 'c2'), ('raddec', 'c1'), ('raddec', 'c2')]),
        R(CC('single', '?', '?'), [('increase', 'c1', 'c2'), ('raddec', 'c1'), ('raddec', 'c2')]),
        R(CC('any', '?', '?'), [('increase', 'c1', 'c2'), ('raddec', 'c1'), ('raddec', 'c2')]),
        R(CC('any', '?', '?'), [('decrease', 'c1', 'c2'), ('radinc', 'c1'), ('radinc', 'c2')]),
        R(CC('aromatic'), [('break', 'aromatic', 'c1', 'c2'), ('form', 'aromatic', 'c1', 'c2')]),
        R(CC('aromatic'), [('modify', 'c1', 'c2', 'aromatic')]),
        R(CC('aromatic'), [('decrease', 'c1', 'c2'), ('radinc', 'c1'), ('radinc', 'c2')]),
        R(CC('double'), [('modify', 'c1', 'c2', 'single'), ('radinc', 'c1'), ('radinc', 'c2')]),
        R(CC('single', '.', '.'), [('modify', 'c1', 'c2', 'double'), ('raddec', 'c1'), ('raddec', 'c2')]),
        R(CC('double'), [('modify', 'c1', 'c2', 'double')]),
        R(CC('single'), [('modify', 'c1', 'c2', 'partial'), ('radinc', 'c1'), ('radinc', 'c2')]),
        R(CC('triple'), [('modify', 'c1', 'c2', 'single')] + [('radinc', 'c1'), ('radinc', 'c2')] * 2),
        R(CC('double'), [('modify', 'c1', 'c2', 'quadruple')] + [('raddec', 'c1'), ('raddec', 'c2')] * 2),
        # recombination / ring closure
        R([A('C', 'c1', '.'), A('$', 'c2', '?', bond=('any', 'c1')), A('C', 'c3', '.', bond=('any', 'c2'))], [('form', None, 'c1', 'c3'), ('raddec', 'c1'), ('raddec', 'c3')]),
        R([A('C', 'c1', '.'), A('C', 'c2', bond=('single', 'c1')), A('C', 'c3', '.', bond=('single', 'c2'))],
          [('form', None, 'c1', 'c3'), ('raddec', 'c1'), ('raddec', 'c3')]),
        R([A('C', 'c1', '.'), A('C', 'c2', bond=('single', 'c1')), A('O', 'o', '.', bond=('single', 'c2'))], [('raddec', 'c1'), ('raddec', 'o'), ('form', 'single', 'c1', 'o')]),
        R([A('C', 'c1', ':'), A('C', 'x', bond=('single', 'c1')), A('C', 'c2', ':', bond=('single', 'x'))], [('form', 'double', 'c1', 'c2')] + [('raddec', 'c1'), ('raddec', 'c2')] * 2),
        R([A('O', 'o', '?'), A('C', 'c', bond=('single', 'o')), A('Pt', 'm', '?', bond=('single', 'c'))], [('form', 'partial', 'o', 'm')]),
        # hydrogen shift / abstraction inside one molecule
        R([A('C', 'c1'), A('H', 'h1', bond=('single', 'c1')), A('C', 'c2', '.', bond=('single', 'c1'))],
          [('break', None, 'c1', 'h1'), ('form', None, 'c2', 'h1'), ('radinc', 'c1'), ('raddec', 'c2')]),
        R([A('C', 'c1'), A('H', 'h1', bond=('single', 'c1')), A('C', 'c2', bond=('single', 'c1')), A('O', 'o', '.', bond=('single', 'c2'))],
          [('break', None, 'c1', 'h1'), ('form', None, 'o', 'h1'), ('radinc', 'c1'), ('raddec', 'o')]),
        # beta scission
        R([A('C', 'c1', '.'), A('C', 'c2', bond=('single', 'c1')), A('$', 'x', bond=('single', 'c2'))],
          [('increase', 'c1', 'c2'), ('break', None, 'c2', 'x'), ('raddec', 'c1'), ('radinc', 'x')]),
        # radical and charge edits
        R([A('C', 'c1', '.')], [('raddec', 'c1'), ('chginc', 'c1')]),
        R([A('C', 'c1', '?')], [('raddec', 'c1'), ('chginc', 'c1')]),
        R([A('C', 'c1', '+')], [('radinc', 'c1'), ('chgdec', 'c1')]),
        R([A('$', 'c1', '?')], [('chginc', 'c1'), ('chgdec', 'c1')]),
        R([A('C', 'c1')], [('radinc', 'c1'), ('raddec', 'c1')]),
        R([A('C', 'c1')], [('raddec', 'c1'), ('radinc', 'c1')]),
        R([A('O', 'c1', '-')], [('chginc', 'c1'), ('raddec', 'c1')]),
        R([A('N', 'c1', '?')], [('chginc', 'c1'), ('chginc', 'c1'), ('raddec', 'c1'), ('raddec', 'c1')]),
        # radical set
        R([A('C', 'c1')], [('radset', 'c1', 0)]),
        R([A('C', 'c1', '.')], [('radset', 'c1', 1)]),
        R([A('C', 'c1', '.')], [('radset', 'c1', 0)]),
        R([A('C', 'c1', '.')], [('radset', 'c1', 0), ('chginc', 'c1')]),
        R([A('C', 'c1', '+.')], [('radset', 'c1', 0), ('chginc', 'c1')]),
        R([A('C', 'c1', '+.')], [('radset', 'c1', 1)]),
        R([A('C', 'c1', '-.')], [('radset', 'c1', 2), ('chgdec', 'c1')]),
        R([A('C', 'c1', '.'), A('H', 'h1', bond=('single', 'c1'))], [('radset', 'c1', 2), ('radinc', 'h1'), ('break', None, 'c1', 'h1')]),
        R([A('C', 'c1'), A('H', 'h1', bond=('single', 'c1'))], [('radset', 'c1', 1), ('radset', 'h1', 1), ('break', None, 'c1', 'h1')]),
        R([A('C', 'c1', ':')], [('radset', 'c1', 0), ('chginc', 'c1'), ('chginc', 'c1')]),
        R([A('C', 'c1', '?')], [('radset', 'c1', 0)]),
        R([A('C', 'c1', '+')], [('radset', 'c1', 0)]),
        R([A('C', 'c1', '?', chain=[('radical', False, ('=', 1))])], [('radset', 'c1', 0), ('chginc', 'c1')]),
        R([A('C', 'c1', '+', chain=[('radical', False, (None, 2))])], [('radset', 'c1', 1), ('radinc', 'c1')]),
        R([A('C', 'c1', '?', chain=[('radical', True, ('=', 1))])], [('radset', 'c1', 1)]),
        R([A('C', 'c1', '?', chain=[('radical', False, ('>=', 1))])], [('radset', 'c1', 1)]),
        # the same bond or atom edited more than once
        R(CC(), [('increase', 'c1', 'c2'), ('break', None, 'c1', 'c2')]),
        R(CC(), [('break', None, 'c1', 'c2'), ('break', None, 'c1', 'c2'), ('form', 'double', 'c1', 'c2')]),
        R(CC(), [('break', None, 'c1', 'c2'), ('form', None, 'c1', 'c2')]),
        R(CC(), [('increase', 'c1', 'c2'), ('decrease', 'c1', 'c2')]),
        R(CC(), [('decrease', 'c1', 'c2'), ('increase', 'c1', 'c2')]),
        R(CC(), [('decrease', 'c1', 'c2'), ('form', None, 'c1', 'c2')]),
        R(CC(), [('modify', 'c1', 'c2', 'double'), ('decrease', 'c1', 'c2')]),
        R(CC('single', '.', '.'), [('increase', 'c1', 'c2'), ('modify', 'c1', 'c2', 'single'), ('raddec', 'c1'), ('raddec', 'c2')]),
        R(CC('double'), [('decrease', 'c1', 'c2'), ('break', 'double', 'c1', 'c2'), ('radinc', 'c1'), ('radinc', 'c2'), ('radinc', 'c1'), ('radinc', 'c2'), ('radinc', 'c1'), ('radinc', 'c2')]),
        R(CC('double'), [('increase', 'c1', 'c2')] * 3 + [('decrease', 'c1', 'c2')] * 3),
        R(CC('double'), [('increase', 'c1', 'c2')] * 4 + [('decrease', 'c1', 'c2')] * 4),
        R([A('C', 'c1', '.')], [('raddec', 'c1'), ('radset', 'c1', 1), ('chginc', 'c1')]),
        R([A('C', 'c1')], [('radinc', 'c1'), ('radset', 'c1', 0), ('chginc', 'c1')]),
        # edits that cannot be applied on (some) matches
        R(CC(), [('form', None, 'c1', 'c2'), ('decrease', 'c1', 'c2')]),
        R([A('C', 'c1')], [('form', 'partial', 'c1', 'c1')]),
        R([A('C', 'c1')], [('increase', 'c1', 'c1'), ('decrease', 'c1', 'c1')]),
        R([A('C', 'c1'), A('C', 'c2', bond=('single', 'c1')), A('C', 'c3', bond=('single', 'c2'))], [('form', 'partial', 'c1', 'c3')]),
        R([A('C', 'c1', '?')], [('raddec', 'c1'), ('chginc', 'c1')]),
        R([A('C', 'c1'), A('$', 'x', '?', bond=('any', 'c1')), A('C', 'c2', bond=('any', 'x'))], [('increase', 'c1', 'c2'), ('decrease', 'c1', 'c2')]),
        R(CC('any'), [('increase', 'c1', 'c2'), ('decrease', 'c1', 'c2')]),
        R(CC('strong'), [('decrease', 'c1', 'c2'), ('radinc', 'c1'), ('radinc', 'c2')]),
        R(CC('quadruple', y1='$', y2='$', s1='?', s2='?'), [('increase', 'c1', 'c2'), ('increase', 'c1', 'c2'), ('decrease', 'c1', 'c2'), ('decrease', 'c1', 'c2')]),
        R(CC('partial', y1='$', y2='$', s1='?', s2='?'), [('increase', 'c1', 'c2'), ('decrease', 'c1', 'c2')]),
        # rejected at read time
        R(CC(), [('break', None, 'c1', 'c2')]),
        R(CC(), [('break', None, 'c1', 'c2'), ('radinc', 'c1')]),
        R(CC('double'), [('break', None, 'c1', 'c2'), ('radinc', 'c1'), ('radinc', 'c2')]),
        R(CC('any'), [('break', None, 'c1', 'c2'), ('radinc', 'c1'), ('radinc', 'c2')]),
        R(CC('partial'), [('break', 'partial', 'c1', 'c2')]),
        R(CC('ring'), [('modify', 'c1', 'c2', 'double'), ('raddec', 'c1'), ('raddec', 'c2')]),
        R(CC(), [('break', 'ring', 'c1', 'c2')]),
        R(CC(), [('form', 'any', 'c1', 'c2')]),
        R(CC(), [('modify', 'c1', 'c2', 'strong')]),
        R(CC(), [('break', None, 'c1', 'zz'), ('radinc', 'c1')]),
        R(CC(), [('radinc', 'nolabel')]),
        R(CC(), [('break', None, 'c1', 'c1')]),
        R([A('C', 'c1'), A('C', 'x', bond=('single', 'c1')), A('C', 'c2', bond=('single', 'x'))], [('break', None, 'c1', 'c2'), ('radinc', 'c1'), ('radinc', 'c2')]),
        R(CC(), [('increase', 'c1', 'c2')]),
        R(CC(), [('chginc', 'c1')]),
        R(CC(), [('radset', 'c1', 1)]),
        R(CC('aromatic'), [('break', 'aromatic', 'c1', 'c2'), ('form', 'single', 'c1', 'c2'), ('radinc', 'c1')]),
        R(CC('aromatic'), [('modify', 'c1', 'c2', 'single')]),
        # not implemented
        R(CC(), [('atomtype', 'c1', {'prefix': None, 'sym': 'C', 'suffix': '.'})]),
        R(CC(), [('atomtype', 'c1', {'prefix': 'aromatic', 'sym': 'C', 'suffix': None})]),
        R(CC(), [('atomtype', 'zz', {'prefix': None, 'sym': 'C', 'suffix': None})]),
        R(CC(), [('radinc', 'c1'), ('raddec', 'c1')], constraints=True),
        # a label declared twice (later references go to the first declaration)
        R([A('C', 'c1'), A('C', 'c1', bond=('single', 'c1'))], [('radinc', 'c1'), ('raddec', 'c1')]),
        # molecule prefix and atom prefix on the reactant
        R([A('C', 'c1', '+')], [('radinc', 'c1'), ('raddec', 'c1')], mp=['positive']),
        R([A('C', 'c1', prefix='ringatom'), A('C', 'c2', bond=('ring', 'c1'))], [('radinc', 'c1'), ('raddec', 'c1')]),
        R([A('c', 'c1'), A('c', 'c2', bond=('aromatic', 'c1'))], [('break', 'aromatic', 'c1', 'c2'), ('form', 'aromatic', 'c2', 'c1')]),
    ]
    return out
