"""C13 — merging library files is a conflict-checked, order-free union.

Proof: lean/PGA/Props/C13.lean over the model PGA/Model/Merge.lean (ThermochemIncomplete.update / copy,
GroupLibrary.Update, GroupLibrary._do_load with duplicate check and recursive includes).
Tie: (a) random sequences of update calls on real objects, (b) every way of splitting a group's data over files in
every include order and nesting through the real GroupLibrary.Load, (c) sequences of GroupLibrary.Update calls —
state after every call compared with the compiled model and with the specification (pointwise union / error /
unchanged on error: the correlation for `update`, the whole target library for `GroupLibrary.Update`).
"""
import os, json, math, itertools
from fractions import Fraction
from . import common
from . import lib_yamlmerge as L
from .lib_yamlmerge import Q

PROPS = ['PGA.Props.C13']
GEN = ['YamlUnits', 'Chars']
OBLIGATIONS = ['PGA.Merge.' + t for t in [
    'C13_update_atomic', 'C13_update_atomic_old_fails', 'C13_update_parts', 'C13_update_idempotent',
    'C13_merge_list_union', 'C13_merge_order_free', 'C13_conflict_rejected', 'C13_conflict_S_rejected', 'C13_conflict_cp_rejected',
    'C13_overwrite_later_wins', 'C13_range_union_hull', 'C13_libUpdate_union', 'C13_load_tree_union',
    'C13_load_order_nesting_free', 'C13_duplicate_spelling_rejected',
    'C13_libUpdate_atomic', 'C13_libUpdate_atomic_old_fails', 'C13_libUpdate_ok_eq_old', 'C13_libUpdate_same_outcome']]
RULE = ('cases: (a) sequences (length <= 12) of update(target, source, overwrite) over a universe of 3-6 correlations that '
        'are parts of one consistent whole (shared T_ref; reference values present/absent/zero/negative; 0-6 Cp points; range '
        'absent/whole/wider/narrower), some with an altered datum (conflict); (b) a group\'s data (H, S, individual Cp points, '
        'range) split over 1-4 files, every include order and nesting (exhaustive up to 3 files, sampled for 4), with '
        'injected conflicts, duplicate spellings and empty entries; (c) sequences of GroupLibrary.Update over 2-4 loaded '
        'libraries. Non-trivial: at least two sources carry data. Distinct = distinct (universe, operation sequence) / (split, tree).')
ASSUMPTIONS = ['A-yaml (checked in C12 on the same writer)',
               'A-ref: ThermochemRawData.get_HoRT/get_SoR evaluated at its own reference temperature return the reference values '
               '(C05 model; re-checked numerically on every generated universe)',
               'math.isclose(rel_tol=1e-15) and float != are modelled over exact rationals (decimal-literal abstraction)']
TRUSTED = ['modelled, not verified: ThermochemIncomplete.update/copy/has_ND_*/_setup_correlation, ThermochemRawData.__init__ range '
           'checks, GroupLibrary.Update/_do_load; Group.parse through the C19 model']

NAMES = ['C(H)4', 'C(C)(H)3', 'C(C)2(H)2', 'O(C)(H)', 'CO(C)(H)', 'C(C)3(H)']
SPELLINGS = {'C(C)2(H)2': ['C(H)2(C)2', 'C(C)(H)(C)(H)', 'C(H)(H)(C)2', 'C(C)2(H)(H)'],
             'C(C)(H)3': ['C(H)3(C)', 'C(H)(C)(H)2', 'C(H)(H)(H)(C)'],
             'C(H)4': ['C(H)2(H)2', 'C(H)(H)3', 'C(H)(H)(H)(H)'],
             'C(C)3(H)': ['C(H)(C)3', 'C(C)(H)(C)2']}


# ----------------------------------------------------------------------------------------------------------- abstract data
def rnd_dec(rng, lo, hi, places):
    s = 10 ** places
    return Fraction(rng.randint(int(lo * s), int(hi * s)), s)


def gen_val(rng):
    c = rng.random()
    if c < 0.2:
        return Fraction(0)
    return rnd_dec(rng, -60, 60, rng.choice([0, 1, 2, 3]))


def gen_whole(rng):
    """a consistent whole: T_ref, H, S, Cp table, range (all present; parts drop some)"""
    Tref = rng.choice([Fraction('298.15'), Fraction(300), Fraction(500), Fraction(1000), rnd_dec(rng, 200, 900, 1)])
    n = rng.choice([0, 1, 2, 3, 4, 6])
    place = rng.choice(['inside', 'knot', 'below', 'above', 'top', 'bottom'])
    Ts = set()
    while len(Ts) < n:
        if place == 'below':
            Ts.add(rnd_dec(rng, float(Tref) + 1, float(Tref) + 900, rng.choice([0, 1])))
        elif place == 'above':
            Ts.add(rnd_dec(rng, max(1, float(Tref) - 190), float(Tref) - 1, rng.choice([0, 1])))
        else:
            Ts.add(rnd_dec(rng, max(1, float(Tref) - 190), float(Tref) + 900, rng.choice([0, 1])))
    Ts = sorted(Ts)
    if n and place == 'knot':
        Ts[rng.randrange(n)] = Tref
    if n and place == 'top':
        Ts = [T for T in Ts if T < Tref] + [Tref]
    if n and place == 'bottom':
        Ts = [Tref] + [T for T in Ts if T > Tref]
    Ts = sorted(set(Ts))
    lo = min(Ts + [Tref]) - rng.choice([0, 0, 10, Fraction(1, 2)])
    hi = max(Ts + [Tref]) + rng.choice([0, 0, 100, Fraction(5, 4)])
    return {'Tref': Tref, 'H': gen_val(rng) * 3, 'S': gen_val(rng), 'cp': [(T, gen_val(rng)) for T in Ts],
            'range': (max(lo, Fraction(1)), hi)}


def part_valid(p):
    """the constructor's requirement on one correlation"""
    r = p['range']
    if r is not None and r[1] < r[0]:
        return False
    if not p['cp']:
        return True
    Ts = [T for T, _ in p['cp']]
    if r is None:
        return min(Ts) <= p['Tref'] <= max(Ts)
    return r[0] <= min(Ts) and max(Ts) <= r[1] and r[0] <= p['Tref'] <= r[1]


def gen_part(rng, W, want_valid=True):
    """a part of the whole: some of its data"""
    for _ in range(50):
        p = {'Tref': W['Tref'],
             'H': W['H'] if rng.random() < 0.5 else None,
             'S': W['S'] if rng.random() < 0.5 else None,
             'cp': [pt for pt in W['cp'] if rng.random() < 0.5],
             'range': W['range'] if rng.random() < 0.5 else None}
        rng.shuffle(p['cp'])
        if part_valid(p) or not want_valid:
            return p
    return {'Tref': W['Tref'], 'H': W['H'], 'S': None, 'cp': [], 'range': None}


# sizes of a difference between two values given for one datum: from one unit in the last place of the double upward
ULPS = ['ulp+', 'ulp-', '4ulp']                                   # inside the documented tolerance of H and S (rel 1e-15)
RELS = [1e-14, 1e-13, 1e-12, 1e-11, 1e-10, 1e-9, 1e-8, 1e-7, 1e-6, 3e-6, 9e-6, 1e-5, 1e-4, 1e-3]      # outside it
ABS0 = ['0.000000000000000000000000000001', '0.000000000001', '0.000000005', '-0.00000001', '0.0000001']     # next to an exact zero (no relative scale there)


def nudge(v, size):
    """the double `size` away from the double of v, as an exact Fraction (None if that is v itself)"""
    x = float(v)
    if x == 0.0:
        return Fraction(size) if isinstance(size, str) and 'ulp' not in size else Fraction(1, 10 ** 30)
    elif size == 'ulp+':
        y = math.nextafter(x, math.inf)
    elif size == 'ulp-':
        y = math.nextafter(x, -math.inf)
    elif size == '4ulp':
        y = x
        for _ in range(4):
            y = math.nextafter(y, math.inf)
    elif isinstance(size, str):
        y = x + float(size)
    else:
        y = x * (1.0 + size)
    return None if y == x else Fraction(y)


def any_nudge(rng, v, within_tolerance_too=True):
    """v moved by a random small size (Cp: every size is a conflict; H and S: the ULPS are inside the documented tolerance)"""
    sizes = (ULPS if within_tolerance_too else []) + RELS + (ABS0 if float(v) == 0.0 else [])
    for _ in range(10):
        w = nudge(v, rng.choice(sizes))
        if w is not None:
            return w
    return Fraction(v) + 1


def mutate_part(rng, p, W):
    """alter one datum (conflict) or the range (hull / inconsistency)"""
    q = dict(p, cp=list(p['cp']))
    how = rng.choice(['H', 'S', 'cp', 'range_wider', 'range_narrow', 'range_shift', 'H_tiny'])
    if rng.random() < 0.3:
        how = rng.choice(['H_tiny', 'S_tiny', 'cp_tiny', 'cp_tiny'])
    if how == 'H' and q['H'] is not None:
        q['H'] = q['H'] + rng.choice([1, -1, Fraction(1, 1000)])
    elif how == 'H_tiny' and q['H'] is not None:
        q['H'] = any_nudge(rng, q['H'])
    elif how == 'S_tiny' and q['S'] is not None:
        q['S'] = any_nudge(rng, q['S'])
    elif how == 'S' and q['S'] is not None:
        q['S'] = q['S'] + rng.choice([1, -2, Fraction(1, 100)])
    elif how == 'cp' and q['cp']:
        i = rng.randrange(len(q['cp']))
        q['cp'][i] = (q['cp'][i][0], q['cp'][i][1] + rng.choice([1, -1, Fraction(1, 10)]))
    elif how == 'cp_tiny' and q['cp']:
        i = rng.randrange(len(q['cp']))
        q['cp'][i] = (q['cp'][i][0], any_nudge(rng, q['cp'][i][1]))
    elif how == 'range_wider':
        r = W['range']
        q['range'] = (r[0] - rng.choice([1, 50]) if r[0] > 51 else r[0], r[1] + rng.choice([1, 200]))
    elif how == 'range_narrow':
        T = q['Tref']
        q['range'] = (T - rng.choice([0, 1]), T + rng.choice([0, 1, 5]))
    elif how == 'range_shift':
        T = q['Tref']
        q['range'] = (T, T + 400)
    return q


# ------------------------------------------------------------------------------------------------------- implementation
def impl_obj(p):
    from pgradd.ThermoChem import ThermochemGroup
    with L.quiet():
        return ThermochemGroup(None if p['H'] is None else float(p['H']), None if p['S'] is None else float(p['S']),
                               dict((float(T), float(v)) for T, v in p['cp']), float(p['Tref']),
                               None if p['range'] is None else (float(p['range'][0]), float(p['range'][1])))


EVAL_PROBLEMS = []


def eval_check(o):
    """A merged correlation must *evaluate* to its merged data, not only store them: H/RT and S/R at T_ref are the stored
    reference values (the internal interpolant has to be rebuilt whenever any datum arrives).  Problems are collected here and
    reported by run()."""
    import warnings
    try:
        T = float(o.T_ref)
        r = o.get_range()
        if r is not None and not (float(r[0]) <= T <= float(r[1])):
            return
        for name, stored, fn in (('H', o.ND_H_ref, o.get_HoRT), ('S', o.ND_S_ref, o.get_SoR)):
            if stored is None or type(stored).__name__ == 'Quantity':
                continue
            with warnings.catch_warnings():
                warnings.simplefilter('ignore')
                try:
                    got = float(fn(T))
                except Exception as e:
                    got = 'err:' + type(e).__name__
            if isinstance(got, str) or abs(got - float(stored)) > 1e-9 * (1 + abs(float(stored))):
                if len(EVAL_PROBLEMS) < 20:
                    EVAL_PROBLEMS.append({'datum': name, 'stored': float(stored), 'evaluated_at_T_ref': got, 'T_ref': T,
                                          'cp_points': len(o.ND_Cp_data or {}), 'range': None if r is None else [float(r[0]), float(r[1])]})
    except Exception:
        return


def obs_obj(o):
    eval_check(o)
    s = L.obs_corr(o)
    s['built'] = hasattr(o, '_correlation')
    s['order'] = [float(T) for T in (o.ND_Cp_data or {})]
    return s


def jcorr_of_obs(s):
    """observed state -> driver encoding (dictionary order of the Cp table kept)"""
    def num(v):
        if v is None:
            return None
        if 'num' not in v:
            raise common.MachineryError('non-plain value in a merge universe: %r' % (v,))
        return L.jr(common.exact_of_float(v['num']))
    cpd = dict((T, v) for T, v in s['cp'])
    return {'H': num(s['H']), 'S': num(s['S']),
            'cp': [[L.jr(common.exact_of_float(T)), num(cpd[T])] for T in s['order']],
            'Tref': L.jr(common.exact_of_float(s['Tref'])),
            'range': None if s['range'] is None else [L.jr(common.exact_of_float(x)) for x in s['range']]}


def state_key(s):
    """comparable form of an observed state"""
    def num(v):
        return None if v is None else (v.get('num'), v.get('qty'), tuple(v.get('dim', ())))
    return (num(s['H']), num(s['S']), tuple((T, num(v)) for T, v in s['cp']), s['Tref'],
            None if s['range'] is None else tuple(s['range']), s.get('built'))


def states_close(a, b, rel=1e-12):
    def num(x, y):
        if x is None or y is None:
            return x is None and y is None
        if 'num' not in x or 'num' not in y:
            return x == y
        return abs(x['num'] - y['num']) <= rel * max(abs(x['num']), abs(y['num']))
    if not (num(a['H'], b['H']) and num(a['S'], b['S'])):
        return False
    if len(a['cp']) != len(b['cp']) or any(p[0] != q[0] or not num(p[1], q[1]) for p, q in zip(a['cp'], b['cp'])):
        return False
    if a['Tref'] != b['Tref'] or a['range'] != b['range']:
        return False
    if 'built' in a and 'built' in b and a['built'] != b['built']:
        return False
    return True


def model_state_close(s, m, built=None, rel=1e-9):
    """implementation state vs driver reply {"state": corr, "built": bool}"""
    c = m['state']

    def num(x, y):
        if x is None or y is None:
            return x is None and y is None
        return 'num' in x and L.close(x['num'], L.model_num(y), rel)
    if not (num(s['H'], c['H']) and num(s['S'], c['S'])):
        return False
    if len(s['cp']) != len(c['cp']):
        return False
    for (T, v), (Tm, vm) in zip(s['cp'], c['cp']):
        if not (L.close(T, L.model_num(Tm), rel) and num(v, vm)):
            return False
    if not L.close(s['Tref'], L.model_num(c['Tref']), rel):
        return False
    if (s['range'] is None) != (c['range'] is None):
        return False
    if s['range'] is not None and not all(L.close(a, L.model_num(b), rel) for a, b in zip(s['range'], c['range'])):
        return False
    if 'built' in s and s['built'] != m['built']:
        return False
    return True


# ----------------------------------------------------------------------------------------------------------- specification
def isclose15(a, b):
    return math.isclose(a, b, rel_tol=1e-15)


def spec_update(t, s, ow):
    """the specification of one merge, on observed states: ('ok', merged) | ('readOnly', None) | ('invalid', None).
    merged = pointwise union (the source wins where overwrite lets two values meet); range = hull."""
    def num(v):
        return None if v is None else v['num']
    conflict = False
    cp_conflict = False
    tcp = dict((T, num(v)) for T, v in t['cp'])
    scp = dict((T, num(v)) for T, v in s['cp'])
    for T, v in scp.items():
        if T in tcp and tcp[T] != v:
            conflict = True
            cp_conflict = True
    for f in ('H', 'S'):
        a, b = num(t[f]), num(s[f])
        if a is not None and b is not None and not isclose15(a, b):
            conflict = True
    m = {'H': s['H'] if s['H'] is not None else t['H'], 'S': s['S'] if s['S'] is not None else t['S'], 'Tref': t['Tref']}
    cp = dict(tcp)
    cp.update(scp)
    m['cp'] = sorted([T, {'num': v}] for T, v in cp.items())
    if t['range'] is None:
        m['range'] = s['range']
    elif s['range'] is None:
        m['range'] = t['range']
    else:
        m['range'] = [min(t['range'][0], s['range'][0]), max(t['range'][1], s['range'][1])]
    m['built'] = bool(cp)
    # consistency of what the merge would have to hold
    def consistent(cpkeys, Tref, r):
        if r is not None and r[1] < r[0]:
            return False
        if not cpkeys:
            return True
        if r is None:
            return min(cpkeys) <= Tref <= max(cpkeys)
        return r[0] <= min(cpkeys) and max(cpkeys) <= r[1] and r[0] <= Tref <= r[1]
    ok_final = consistent(list(cp), t['Tref'], m['range'])
    if conflict and not ow:
        # a merge that is both conflicting and inconsistent may be rejected for either reason (the property fixes the
        # error class only for a conflict; a conflicting table point is found before anything else)
        return ('readOnly' if (cp_conflict or ok_final) else 'either'), None
    if not ok_final:
        return 'invalid', None
    return 'ok', m


# -------------------------------------------------------------------------------------------------- (a) update sequences
def check_sequences(ctx, rng, n, batch):
    for i in range(n):
        W = gen_whole(rng)
        k = rng.randint(3, 6)
        parts = [gen_part(rng, W) for _ in range(k)]
        conflicts = rng.random() < 0.6
        if conflicts:
            for j in range(rng.randint(1, 2)):
                idx = rng.randrange(k)
                q = mutate_part(rng, parts[idx], W)
                if part_valid(q):
                    parts[idx] = q
        check_ref_assumption(ctx, W)
        ops = [[rng.randrange(k), rng.randrange(k), rng.random() < 0.3] for _ in range(rng.randint(1, 12))]
        sequence_case(ctx, parts, ops, batch, sample=i < 2)


def sequence_case(ctx, parts, ops_todo, batch, sample=False):
    """correlations built from `parts`, then update calls `ops_todo` = [target, source, overwrite]: every call against the
    specification (pointwise union / ReadOnlyDataError / unchanged on error), the whole history against the model"""
    if True:
        k = len(parts)
        try:
            objs = [impl_obj(p) for p in parts]
        except Exception as e:
            raise common.MachineryError('generator produced an unconstructible part %r: %r' % (parts, e))
        init = [obs_obj(o) for o in objs]
        ops = []
        impl = []
        ctx.count('sequences')
        for j, (t, s, ow) in enumerate(ops_todo):
            before_t = obs_obj(objs[t])
            before_s = obs_obj(objs[s])
            inp = {'universe': [show_part(p) for p in parts], 'ops': ops + [[t, s, ow]], 'step': j}
            try:
                with L.quiet():
                    objs[t].update(objs[s], ow)
                err = None
            except Exception as e:
                err = L.err_class(e)
            after = obs_obj(objs[t])
            ops.append([t, s, ow])
            impl.append({'err': err, 'state': after})
            ctx.count('update_calls')
            ctx.count('update_' + (err or 'ok'))
            # --- specification
            verdict, merged = spec_update(before_t, before_s, ow)
            if err is not None and not states_close(after, before_t, 0.0):
                fid = classify_nonatomic(before_t, before_s, err)
                ctx.violation('a rejected merge changed the correlation', inp, expected=before_t, observed=after, finding=fid)
            if s != t and not states_close(obs_obj(objs[s]), before_s, 0.0):
                ctx.violation('merging changed the source correlation', inp, expected=before_s, observed=obs_obj(objs[s]))
            if verdict == 'readOnly':
                if err != 'readOnly':
                    ctx.violation('two different values for one datum are not rejected with ReadOnlyDataError', inp,
                                  expected='readOnly', observed=err or after, finding=classify_zero_dropped(before_t, before_s))
            elif verdict == 'either':
                ctx.count('conflicting_and_inconsistent')
                if err not in ('readOnly', 'value', 'assertion'):
                    ctx.violation('a conflicting and inconsistent merge is not rejected', inp, expected='readOnly or value',
                                  observed=err or after)
            elif verdict == 'invalid':
                if err is None:
                    ctx.violation('a merge whose result is inconsistent (table / T_ref outside the range) was accepted', inp,
                                  expected='rejected', observed=after)
            else:
                if err is not None:
                    ctx.violation('a conflict-free merge was rejected', inp, expected=merged, observed=err)
                elif not states_close(after, merged):
                    ctx.violation('a merge is not the pointwise union of the two correlations', inp, expected=merged, observed=after,
                                  finding=classify_zero_dropped(before_t, before_s))
                if err is None and s == t and not states_close(after, before_t):
                    ctx.violation('merging a correlation into itself changed it', inp, expected=before_t, observed=after)
        ctx.case(json.dumps([[show_part(p) for p in parts], ops]) if k >= 2 else None,
                 {'universe': [show_part(p) for p in parts][:3], 'ops': ops[:4]} if sample else None)
        if batch is not None:
            batch.append(({'op': 'c13.seq', 'objs': [jcorr_of_obs(s) for s in init], 'ops': ops}, impl,
                          {'universe': [show_part(p) for p in parts], 'ops': ops}))


# ---------------------------------------------------------------------------------------- the size of a conflict
def tolerance_cases(ctx, batch):
    """two values for ONE datum that differ by every size from one unit in the last place upward: a heat-capacity point is
    compared exactly (any difference is a conflict); H and S are compared with the documented relative tolerance 1e-15 (a few
    units in the last place merge, the later value standing; anything from 1e-14 upward is a conflict).  Through update() with
    and without overwrite, and through two files in both include orders."""
    import random
    rng = random.Random(13)
    # (a merge whose result is inconsistent -- the table of one part outside the range of the other -- on every run)
    T = {'Tref': Fraction(500), 'H': None, 'S': None, 'cp': [(Fraction(400), Fraction(2)), (Fraction(600), Fraction(3))], 'range': None}
    N = {'Tref': Fraction(500), 'H': Fraction(1), 'S': None, 'cp': [], 'range': (Fraction(450), Fraction(550))}
    sequence_case(ctx, [T, N], [[0, 1, False], [1, 0, False], [0, 1, True]], batch)
    bases = [Fraction('58.601'), Fraction(3), Fraction('-0.125'), Fraction(0), Fraction('1234.5'), Fraction('0.000001')]
    for datum in ('cp', 'H', 'S'):
        for bi, v in enumerate(bases):
            for size in ULPS + RELS + (ABS0 if v == 0 else []):
                w = nudge(v, size)
                if w is None:
                    continue
                A = {'Tref': Fraction(500), 'H': Fraction('-12.5'), 'S': Fraction('30.25'),
                     'cp': [(Fraction(400), Fraction('4.5')), (Fraction(600), Fraction('6.75'))], 'range': (Fraction(300), Fraction(700))}
                B = dict(A, cp=list(A['cp']))
                if datum == 'cp':
                    A['cp'][0] = (Fraction(400), v)
                    B['cp'][0] = (Fraction(400), w)
                else:
                    A[datum], B[datum] = v, w
                ctx.count('conflict_size_%s_%s' % (datum, size if isinstance(size, str) else '%g' % size))
                sequence_case(ctx, [A, B, dict(A, cp=list(A['cp']))], [[0, 1, False], [2, 1, True], [1, 0, False]], batch)
                if bi >= 2 and not ctx.thorough():
                    continue
                # the same two values in two files, either file including the other
                conflict = datum == 'cp' or not isclose15(float(v), float(w))
                for first, second in ((A, B), (B, A)):
                    d = L.new_dir(ctx, 'c13t-')
                    files = {'root': [('C(H)4', {'thermochem': entry_tree(rng, first, 'nd')})], 'f1': [('C(H)4', {'thermochem': entry_tree(rng, second, 'nd')})]}
                    path, jf = write_tree(ctx, d, ('root', [('f1', [])]), files, False)
                    st, res = L.load_library(path)
                    inp = {'mode': 'conflict of size %s in %s' % (size, datum), 'names': ['C(H)4'], 'texts': L.read_texts(d),
                           'spec': {'error': 'readOnly'} if conflict else {'groups': {'C(H)4': show_part(second)}}}
                    ctx.case(json.dumps(inp['texts']), None)
                    ctx.count('conflict_size_files')
                    batch.append(({'op': 'c13.load', 'file': jf}, (st, res if st == 'err' else obs_lib(res)), inp))
                    if conflict:
                        if st != 'err' or res != 'readOnly':
                            ctx.violation('two different values for one datum in two files are not rejected with ReadOnlyDataError (the '
                                          'later file silently wins)', inp, expected='readOnly', observed=res if st == 'err' else obs_lib(res))
                    elif st != 'ok' or not states_close({k2: obs_lib(res)['C(H)4'][k2] for k2 in obs_of_part(union_of([second]))},
                                                        obs_of_part(union_of([second]))):
                        ctx.violation('two values for H or S within the documented tolerance (1e-15 relative) do not merge to the later one',
                                      inp, expected=obs_of_part(union_of([second])), observed=res if st == 'err' else obs_lib(res))


def classify_nonatomic(before_t, before_s, err):
    return None


def classify_zero_dropped(before_t, before_s):
    return None


def show_part(p):
    return {'Tref': str(p['Tref']), 'H': None if p['H'] is None else str(p['H']), 'S': None if p['S'] is None else str(p['S']),
            'cp': [[str(T), str(v)] for T, v in p['cp']], 'range': None if p['range'] is None else [str(x) for x in p['range']]}


def unshow_part(j):
    return {'Tref': Fraction(j['Tref']), 'H': None if j['H'] is None else Fraction(j['H']),
            'S': None if j['S'] is None else Fraction(j['S']), 'cp': [(Fraction(a), Fraction(b)) for a, b in j['cp']],
            'range': None if j['range'] is None else (Fraction(j['range'][0]), Fraction(j['range'][1]))}


_ref_checked = [0, 0.0]


def check_ref_assumption(ctx, W):
    """A-ref: a correlation evaluated at its own reference temperature returns its reference values"""
    if not W['cp']:
        return
    o = impl_obj(W)
    with L.quiet():
        h = o.get_HoRT(float(W['Tref']))
        s = o.get_SoR(float(W['Tref']))
    dh = abs(h - float(W['H'])) / max(1e-300, abs(float(W['H']))) if W['H'] != 0 else abs(h)
    ds = abs(s - float(W['S'])) / max(1e-300, abs(float(W['S']))) if W['S'] != 0 else abs(s)
    _ref_checked[0] += 1
    _ref_checked[1] = max(_ref_checked[1], dh, ds)
    if max(dh, ds) > 1e-12:
        ctx.violation('a correlation evaluated at its own reference temperature does not return its reference value '
                      '(breaks every merge of reference values)', {'whole': show_part(W)},
                      expected=[float(W['H']), float(W['S'])], observed=[h, s], finding=None)


# ------------------------------------------------------------------------------------------------ (b) splits over files
def tree_shapes(n):
    """all rooted ordered trees on n nodes as nested lists of children: node = [children...]"""
    if n == 1:
        return [[]]
    out = []
    # forests of total size n-1 as ordered sequences of trees
    def forests(m):
        if m == 0:
            return [[]]
        res = []
        for first in range(1, m + 1):
            for t in tree_shapes(first):
                for rest in forests(m - first):
                    res.append([t] + rest)
        return res
    return forests(n - 1)


def label_tree(shape, labels):
    """assign labels in pre-order: returns (label, [children...])"""
    it = iter(labels)

    def go(node):
        lab = next(it)
        return (lab, [go(ch) for ch in node])
    return go(shape)


def split_whole(rng, W, n, allow_invalid=False):
    """distribute the data of W over n parts (every datum to at least one part)"""
    for _ in range(200):
        parts = [{'Tref': W['Tref'], 'H': None, 'S': None, 'cp': [], 'range': None} for _ in range(n)]
        for f in ('H', 'S', 'range'):
            if W[f] is None:
                continue
            owners = [i for i in range(n) if rng.random() < 0.4] or [rng.randrange(n)]
            for i in owners:
                parts[i][f] = W[f]
        for pt in W['cp']:
            owners = [i for i in range(n) if rng.random() < 0.35] or [rng.randrange(n)]
            for i in owners:
                parts[i]['cp'].append(pt)
        for p in parts:
            rng.shuffle(p['cp'])
        if allow_invalid or all(part_valid(p) for p in parts):
            return parts
    # fall back: give every part the range
    for p in parts:
        p['range'] = W['range']
    return parts


def entry_tree(rng, p, style):
    """one part as a `thermochem:` mapping; style 'nd' (exact non-dimensional keys) or 'units' (bare numbers under the
    file's units block, exact decimals)"""
    e = {}
    e['T_ref'] = Q(p['Tref'], 'K')
    if p['H'] is not None:
        e['ND_H_ref'] = p['H']
    if p['S'] is not None:
        e['ND_S_ref'] = p['S']
    if p['cp']:
        e['ND_Cp_data'] = [[Q(T, 'K'), v] for T, v in p['cp']]
    if p['range'] is not None:
        e['range'] = [Q(p['range'][0], 'K'), Q(p['range'][1], 'K')]
    items = list(e.items())
    rng.shuffle(items)
    return dict(items)


def write_tree(ctx, d, tree, files, nested=False, fname=None):
    """tree = (label, children); files[label] = list of (group name, property-sets tree). Returns root path, driver file.
    Flat layout: every file in one directory under its own name.  Nested layout: the k-th child of ANY file lives in the
    sub-directory `p<k>` of its parent's directory and is always called `part.yaml`, so different files are included under
    the same relative name from different directories (include paths are relative to the including file)."""
    label, children = tree
    if fname is None:
        fname = 'library.yaml' if label == 'root' else '%s.yaml' % label
    if nested:
        incs = ['p%d/part.yaml' % k for k in range(len(children))]
    else:
        incs = ['%s.yaml' % ch[0] for ch in children]
    doc = {'units': {}, 'include': incs, 'groups': files[label]}
    os.makedirs(d, exist_ok=True)
    L.write_file(os.path.join(d, fname), doc)
    sub = []
    for k, ch in enumerate(children):
        if nested:
            sub.append(write_tree(ctx, os.path.join(d, 'p%d' % k), ch, files, True, 'part.yaml')[1])
        else:
            sub.append(write_tree(ctx, d, ch, files)[1])
    jf = {'units': [], 'groups': [[nm, L.jtree(ps)] for nm, ps in files[label]], 'include': sub}
    return os.path.join(d, fname), jf


def union_of(parts):
    u = {'Tref': parts[0]['Tref'], 'H': None, 'S': None, 'cp': {}, 'range': None}
    for p in parts:
        for f in ('H', 'S'):
            if p[f] is not None:
                u[f] = p[f]
        for T, v in p['cp']:
            u['cp'][T] = v
        if p['range'] is not None:
            u['range'] = p['range'] if u['range'] is None else (min(u['range'][0], p['range'][0]), max(u['range'][1], p['range'][1]))
    u['cp'] = sorted(u['cp'].items())
    return u


def obs_of_part(u):
    return {'H': None if u['H'] is None else {'num': float(u['H'])}, 'S': None if u['S'] is None else {'num': float(u['S'])},
            'cp': [[float(T), {'num': float(v)}] for T, v in sorted(u['cp'])], 'Tref': float(u['Tref']),
            'range': None if u['range'] is None else [float(u['range'][0]), float(u['range'][1])]}


def include_strings(texts):
    """every include entry written in the files `texts` = {relative path: text}: [(including file, entry)]"""
    from pgradd import yaml_io
    out = []
    for rel, text in texts.items():
        for inc in (yaml_io.parse(text) or {}).get('include') or []:
            out.append((rel, inc))
    return out


def decoys_for(texts, other_group):
    """{path relative to the working directory: text}: a well-formed library file with other contents under every name by which
    one of the files includes another (as written, and relative to the root), and under the two fixed names"""
    rels = {'library.yaml'}
    for src, inc in include_strings(texts):
        rels.add(os.path.normpath(inc))
        rels.add(os.path.normpath(os.path.join(os.path.dirname(src), inc)))
    out = {}
    for k, rel in enumerate(sorted(rels)):
        out[rel] = 'units: {}\ngroups:\n  "%s": {"thermochem": {"T_ref": "300 K", "ND_H_ref": %d.25, "ND_S_ref": -7.5}}\n' % (other_group, 90 + k)
    return out


def same_load(a, b):
    """two outcomes (status, library or error class) of loading agree"""
    if a[0] != b[0]:
        return False
    if a[0] == 'err':
        return a[1] == b[1]
    oa, ob = obs_lib(a[1]), obs_lib(b[1])
    return set(oa) == set(ob) and all(same_opt(oa[k], ob[k]) for k in oa)


def show_load(r):
    return r[1] if r[0] == 'err' else obs_lib(r[1])


def load_in_situation(ctx, d, cwd):
    """load d/library.yaml with the current directory described by `cwd`:
    {'other_files': {rel: text}} (a fresh directory holding those), {'own': rel dir} (a directory of the library itself;
    'by': 'absolute' | 'relative' path given to Load)"""
    if 'other_files' in cwd:
        wd = L.new_dir(ctx, 'c13cwd-')
        L.write_texts(wd, cwd['other_files'])
        return L.load_library(os.path.join(d, 'library.yaml'), cwd=wd)
    wd = os.path.normpath(os.path.join(d, cwd['own']))
    target = os.path.join(d, 'library.yaml') if cwd.get('by') != 'relative' else os.path.relpath(os.path.join(d, 'library.yaml'), wd)
    return L.load_library(target, cwd=wd)


def cwd_variants(ctx, rng, d, path, texts, inp, neutral):
    other = [nm for nm in NAMES if nm not in inp['names']]
    dirs = sorted({os.path.dirname(r) for r in texts})
    variants = [{'other_files': decoys_for(texts, other[0] if other else 'Pt(C)')}]
    own = [{'own': '.', 'by': 'absolute'}, {'own': '.', 'by': 'relative'}] + [{'own': x, 'by': 'absolute'} for x in dirs if x] + \
          [{'own': x, 'by': 'relative'} for x in dirs if x]
    variants += own if ctx.thorough() else rng.sample(own, min(len(own), 2))
    for cwd in variants:
        got = load_in_situation(ctx, d, cwd)
        ctx.count('loads_from_another_cwd')
        ctx.count('cwd_' + ('other_files' if 'other_files' in cwd else 'own_%s_%s' % ('root' if cwd['own'] == '.' else 'subdir', cwd['by'])))
        ctx.case(None, None)
        if not same_load(neutral, got):
            if 'other_files' in cwd and len(cwd['other_files']) > 1:
                keep = common.shrink_list(sorted(cwd['other_files']), lambda rels: not same_load(neutral, load_in_situation(
                    ctx, d, {'other_files': dict((r, cwd['other_files'][r]) for r in rels)})), max_steps=40)
                cwd = {'other_files': dict((r, cwd['other_files'][r]) for r in keep)}
            ctx.violation('what a library holds after loading depends on the current directory of the process',
                          dict(inp, cwd=cwd, spec={'same_as_from_a_neutral_directory': True}),
                          expected=show_load(neutral), observed=show_load(got))
            return


def check_splits(ctx, rng, n_wholes, batch):
    for i in range(n_wholes):
        ngroups = rng.choice([1, 1, 2, 3])
        names = rng.sample(NAMES, ngroups)
        n = rng.choice([1, 2, 2, 3, 3, 3, 4])
        wholes = [gen_whole(rng) for _ in names]
        mode = rng.choice(['clean', 'clean', 'clean', 'conflict', 'duplicate', 'invalid_part', 'empty_entry'])
        splits = []
        for W in wholes:
            splits.append(split_whole(rng, W, n, allow_invalid=(mode == 'invalid_part')))
        labels = ['root'] + ['f%d' % j for j in range(1, n)]
        conflict_info = None
        if mode == 'conflict' and n >= 2:
            g = rng.randrange(ngroups)
            cands = []
            for f in ('H', 'S'):
                own = [j for j in range(n) if splits[g][j][f] is not None]
                if len(own) >= 2:
                    cands.append((f, own))
            pts = {}
            for j in range(n):
                for T, v in splits[g][j]['cp']:
                    pts.setdefault(T, []).append(j)
            for T, own in pts.items():
                if len(own) >= 2:
                    cands.append((T, own))
            if not cands:
                # force a shared datum
                splits[g][0]['H'] = wholes[g]['H']
                splits[g][1]['H'] = wholes[g]['H']
                cands = [('H', [0, 1])]
            what, own = rng.choice(cands)
            j = rng.choice(own)
            tiny = rng.random() < 0.5
            if what in ('H', 'S'):
                v = splits[g][j][what]
                splits[g][j][what] = any_nudge(rng, v, within_tolerance_too=False) if tiny else v + rng.choice([1, -1, Fraction(1, 8)])
            else:
                splits[g][j]['cp'] = [(T, any_nudge(rng, v) if tiny else v + 1) if T == what else (T, v) for T, v in splits[g][j]['cp']]
            conflict_info = (names[g], str(what), j, 'small difference' if tiny else 'large difference')
        elif mode == 'conflict':
            mode = 'clean'
        # files: label -> [(group name, property sets)]
        def build_files():
            files = dict((lab, []) for lab in labels)
            for nm, parts in zip(names, splits):
                for lab, p in zip(labels, parts):
                    empty = p['H'] is None and p['S'] is None and not p['cp'] and p['range'] is None
                    if empty and not (mode == 'empty_entry' and rng.random() < 0.5):
                        continue
                    if empty and mode == 'empty_entry' and rng.random() < 0.5:
                        files[lab].append((nm, {}))          # group mentioned with no property set at all
                    else:
                        files[lab].append((nm, {'thermochem': entry_tree(rng, p, 'nd')}))
            for lab in labels:
                rng.shuffle(files[lab])
            return files
        files = build_files()
        if mode == 'duplicate':
            cand = [(lab, nm) for lab in labels for nm, _ in files[lab] if nm in SPELLINGS]
            if cand:
                lab, nm = rng.choice(cand)
                other = rng.choice(SPELLINGS[nm])
                body = [ps for n2, ps in files[lab] if n2 == nm][0]
                files[lab].insert(rng.randrange(len(files[lab]) + 1), (other, body))
            else:
                mode = 'clean'
        # all orders and nestings
        shapes = tree_shapes(n)
        perms = list(itertools.permutations(range(n)))
        combos = [(s, p) for s in shapes for p in perms]
        if n >= 4 or (not ctx.thorough() and len(combos) > 12):
            combos = rng.sample(combos, min(len(combos), ctx.n(8, 40)))
        results = []
        for shape, perm in combos:
            # the file that is root gets the name library.yaml: relabel so that perm[0] is the root
            order = [labels[j] for j in perm]
            ren = dict(zip(order, ['root'] + ['f%d' % j for j in range(1, n)]))
            files2 = dict((ren[lab], files[lab]) for lab in labels)
            tree = label_tree(shape, ['root'] + ['f%d' % j for j in range(1, n)])
            d = L.new_dir(ctx, 'c13-')
            nested = rng.random() < 0.5
            ctx.count('layout_nested' if nested else 'layout_flat')
            path, jf = write_tree(ctx, d, tree, files2, nested)
            st, res = L.load_library(path)
            texts = L.read_texts(d)
            inp = {'mode': mode, 'names': names, 'tree': json.dumps(tree), 'texts': texts}
            # what the property says about these files (also read by replay)
            present_of = dict((nm, [p for p in parts if not (p['H'] is None and p['S'] is None and not p['cp'] and p['range'] is None)])
                              for nm, parts in zip(names, splits))
            if mode == 'duplicate':
                inp['spec'] = {'error': 'key'}
            elif mode == 'conflict':
                inp['spec'] = {'error': 'readOnly'}
            else:
                inp['spec'] = {'groups': dict((nm, show_part(union_of(ps))) for nm, ps in present_of.items()
                                              if ps and any(nm == n2 for lab in labels for n2, _ in files[lab]))}
            ctx.count('loads')
            ctx.count('mode_' + mode)
            ctx.count('files_%d' % n)
            ctx.count('load_' + (res if st == 'err' else 'ok'))
            ctx.case(json.dumps([texts, inp['tree']]) if n >= 2 else None, inp if len(ctx.samples) < 4 else None)
            batch.append(({'op': 'c13.load', 'file': jf}, (st, res if st == 'err' else obs_lib(res)), inp))
            # --- the same files loaded while the process sits in another directory: one that holds other library files under
            # the names these files include, the library's own directory, a sub-directory of it
            cwd_variants(ctx, rng, d, path, texts, inp, (st, res))
            # --- specification
            parts_invalid = [(nm, j) for nm, parts in zip(names, splits) for j, p in enumerate(parts) if not part_valid(p)
                             and not (p['H'] is None and p['S'] is None and not p['cp'] and p['range'] is None)]
            if mode == 'duplicate':
                if st != 'err' or res != 'key':
                    ctx.violation('two spellings of one group in one file are not rejected', inp, expected='key',
                                  observed=res if st == 'err' else 'loaded')
            elif mode == 'conflict':
                if st != 'err' or res != 'readOnly':
                    ctx.violation('two different values for one datum in two files are not rejected with ReadOnlyDataError',
                                  dict(inp, conflict=conflict_info), expected='readOnly', observed=res if st == 'err' else 'loaded')
            elif parts_invalid:
                if st == 'err':
                    ctx.violation('a conflict-free split fails to load because one file\'s share of a group is not a '
                                  'self-consistent correlation', dict(inp, parts=parts_invalid), expected='union',
                                  observed=res, finding='Y1' if res == 'inputData' else None)
                else:
                    results.append((inp, obs_lib(res)))
            else:
                if st == 'err':
                    ctx.violation('a conflict-free split over files fails to load', inp, expected='union', observed=res,
                                  finding='Y2' if (res == 'type' and mode == 'empty_entry') else None)
                else:
                    o = obs_lib(res)
                    results.append((inp, o))
                    for nm, parts in zip(names, splits):
                        present = [p for p in parts if not (p['H'] is None and p['S'] is None and not p['cp'] and p['range'] is None)]
                        mentioned = any(nm == n2 for lab in labels for n2, _ in files[lab])
                        if not mentioned:
                            if nm in o:
                                ctx.violation('a group no file mentions is in the library', inp, expected=None, observed=o[nm])
                            continue
                        if nm not in o:
                            ctx.violation('a group is missing from the merged library', inp, expected=nm, observed=sorted(o))
                            continue
                        if not present:
                            continue
                        want = obs_of_part(union_of(present))
                        got = dict(o[nm]) if o[nm] is not None else None
                        if got is None or not states_close({k: got[k] for k in want}, want):
                            ctx.violation('the merged library does not hold the union of the data given for a group', dict(inp, group=nm),
                                          expected=want, observed=got, finding=classify_zero_split(present, got))
        # order / nesting independence across everything that loaded
        for inp, o in results[1:]:
            same = set(o) == set(results[0][1]) and all(
                (o[nm] is None) == (results[0][1][nm] is None) and (o[nm] is None or states_close(
                    {k: v for k, v in o[nm].items() if k != 'order'}, {k: v for k, v in results[0][1][nm].items() if k != 'order'}))
                for nm in o)
            if not same:
                ctx.violation('the merged library depends on the include order or nesting', {'a': results[0][0], 'b': inp},
                              expected=results[0][1], observed=o)
        ctx.count('split_universes')


def classify_zero_split(present, got):
    return None


def obs_lib(lib):
    out = {}
    for g in lib:
        ps = lib[g]
        out[str(g)] = obs_obj(ps['thermochem']) if 'thermochem' in ps else None
    return out


# ---------------------------------------------------------------------------------------------- (c) Library.Update sequences
def check_lib_sequences(ctx, rng, n, batch):
    for i in range(n):
        ngroups = rng.randint(1, 3)
        names = rng.sample(NAMES, ngroups)
        wholes = dict((nm, gen_whole(rng)) for nm in names)
        nl = rng.randint(2, 4)
        desc = []
        for j in range(nl):
            dd = {}
            for nm in names:
                if rng.random() < 0.75:
                    p = gen_part(rng, wholes[nm])
                    if rng.random() < 0.2:
                        q = mutate_part(rng, p, wholes[nm])
                        if part_valid(q):
                            p = q
                    dd[nm] = show_part(p)
            desc.append(dd)
        ops = []
        for j in range(rng.randint(1, 8)):
            t = rng.randrange(nl)
            s = rng.randrange(nl)
            if s != t:
                ops.append([t, s, rng.random() < 0.3])
        lib_sequence_case(ctx, desc, ops, batch)


def lib_sequence_case(ctx, desc, ops, batch):
    """libraries described by `desc` (one single-file library each), then GroupLibrary.Update calls `ops` = [target, source, overwrite]"""
    import random
    rng = random.Random(len(desc) * 1000 + len(ops))       # only the order of the keys written depends on it
    libs = []
    for dd in desc:
        d = L.new_dir(ctx, 'c13u-')
        groups = [(nm, {'thermochem': entry_tree(rng, unshow_part(sp), 'nd')}) for nm, sp in dd.items()]
        L.write_file(os.path.join(d, 'library.yaml'), {'units': {}, 'groups': groups})
        st, lib = L.load_library(os.path.join(d, 'library.yaml'))
        if st != 'ok':
            raise common.MachineryError('a generated single-file library does not load: %r %r' % (lib, groups))
        libs.append(lib)
    if True:
        nl = len(libs)
        init = [lib_for_driver(l) for l in libs]
        done = []
        impl = []
        for t, s, ow in ops:
            before_t = obs_lib(libs[t])
            before_s = obs_lib(libs[s])
            s_order = [str(g) for g in libs[s]]
            inp = {'libs': desc, 'ops': done + [[t, s, ow]]}
            try:
                with L.quiet():
                    libs[t].Update(libs[s], ow)
                err = None
            except Exception as e:
                err = L.err_class(e)
            after = obs_lib(libs[t])
            done.append([t, s, ow])
            impl.append({'err': err, 'lib': after})
            # a group first seen must be a copy: the two libraries may not share a correlation object
            for g in libs[s]:
                if g in libs[t] and 'thermochem' in libs[s][g] and 'thermochem' in libs[t][g] and \
                        libs[s][g]['thermochem'] is libs[t][g]['thermochem']:
                    ctx.violation('after a library merge the two libraries share one correlation object (no copy)',
                                  dict(inp, group=str(g)), expected='distinct objects', observed='same object')
            ctx.count('libupdate_calls')
            ctx.count('libupdate_' + (err or 'ok'))
            # --- specification.  Group by group in the order of the source: a group the target lacks is copied, one it has is
            # merged (pointwise union) or refused.  The merge as a whole is all-or-nothing: when some group is refused — the first
            # such group in the source's order names the error — the target holds exactly what it held (no group added, none
            # changed: the groups BEFORE the refused one included); otherwise every group holds its union.
            plan = []
            bad = None
            for nm in s_order:
                src = before_s[nm]
                tgt = before_t.get(nm)
                if src is None:
                    continue
                if tgt is None:
                    plan.append((nm, 'copy', src))
                    continue
                verdict, merged = spec_update(tgt, src, ow)
                if verdict == 'ok':
                    plan.append((nm, 'union', merged))
                elif bad is None:
                    bad = (nm, verdict, len(plan))
            if bad is None:
                if err is not None:
                    ctx.violation('a conflict-free library merge was rejected', inp, expected='merged', observed=err)
                for nm, kind, want_state in plan:
                    got = after.get(nm)
                    if got is None or not states_close(got, want_state):
                        ctx.violation('a group first seen in the merged library is not a copy of its data' if kind == 'copy' else
                                      'a library merge is not the pointwise union for a group', dict(inp, group=nm),
                                      expected=want_state, observed=got)
            else:
                nm, verdict, n_before = bad
                if n_before:
                    ctx.count('libupdate_refused_after_mergeable_groups')
                want = 'readOnly' if verdict == 'readOnly' else None
                if verdict == 'either' and err in ('readOnly', 'value', 'assertion'):
                    want = err
                if err is None or (want and err != want):
                    ctx.violation('a conflicting library merge is not rejected with ReadOnlyDataError' if want else
                                  'an inconsistent library merge was accepted', dict(inp, group=nm), expected=want or 'rejected',
                                  observed=err or after.get(nm))
                if err is not None:
                    added = sorted(g for g in after if g not in before_t)
                    gone = sorted(g for g in before_t if g not in after)
                    changed = sorted(g for g in after if g in before_t and not same_opt(after[g], before_t[g]))
                    if added or gone or changed:
                        ctx.violation('a rejected library merge changed the target library', dict(inp, group=nm),
                                      expected='the target holds what it held before the merge was refused',
                                      observed={'raised': err, 'groups_added': added, 'groups_changed': changed, 'groups_removed': gone})
            if not all(same_opt(obs_lib(libs[s]).get(nm), before_s.get(nm)) for nm in before_s):
                ctx.violation('merging changed the source library', inp, expected=before_s, observed=obs_lib(libs[s]))
        ctx.case(json.dumps([desc, ops]), None)
        ctx.count('lib_sequences')
        if ops and batch is not None:
            batch.append(({'op': 'c13.libseq', 'libs': init, 'ops': ops}, impl, {'libs': desc, 'ops': ops}))


def same_opt(a, b):
    if a is None or b is None:
        return a is None and b is None
    return states_close(a, b, 0.0)


def lib_for_driver(lib):
    out = []
    for g in lib:
        ps = lib[g]
        out.append([str(g), jcorr_of_obs(obs_obj(ps['thermochem'])) if 'thermochem' in ps else None])
    return out


# ------------------------------------------------------------------------------------------------------------------- tie
def compare_batch(ctx, batch):
    replies = ctx.model([b[0] for b in batch])
    if replies is None:
        return
    for (req, impl, inp), rep in zip(batch, replies):
        op = req['op']
        ctx.count('corr_' + op)
        if op == 'c13.seq':
            for j, (a, m) in enumerate(zip(impl, rep)):
                if a['err'] != m['err'] or not model_state_close(a['state'], m['obj']):
                    ctx.disagree('corr:c13.seq', dict(inp, step=j), a, m)
                    break
        elif op == 'c13.libseq':
            for j, (a, m) in enumerate(zip(impl, rep)):
                ml = dict((nm, o) for nm, o in m['lib'])
                ok = a['err'] == m['err'] and set(ml) == set(a['lib'])
                if ok:
                    for nm, s in a['lib'].items():
                        if (s is None) != (ml[nm] is None) or (s is not None and not model_state_close(s, ml[nm])):
                            ok = False
                if not ok:
                    ctx.disagree('corr:c13.libseq', dict(inp, step=j), a, m)
                    break
        else:
            st, res = impl
            if 'err' in rep:
                if rep['err'] == 'unmodelled':
                    raise common.MachineryError('generator produced an input outside the model: %r' % (inp,))
                if st != 'err' or res != rep['err']:
                    ctx.disagree('corr:c13.load', inp, res if st == 'err' else 'loaded', rep)
            else:
                ml = dict((nm, o) for nm, o in rep['ok'])
                ok = st == 'ok' and set(ml) == set(res)
                if ok:
                    for nm, s in res.items():
                        if (s is None) != (ml[nm] is None) or (s is not None and not model_state_close(s, ml[nm])):
                            ok = False
                if not ok:
                    ctx.disagree('corr:c13.load', inp, res, rep)


def run(ctx):
    import pgradd.ThermoChem  # noqa
    rng = ctx.rng
    batch = []
    for fname, rec in common.load_corpus('C13'):
        ctx.count('corpus')
        replay(ctx, rec)
    check_sequences(ctx, rng, ctx.n(800, 10000), batch)
    tolerance_cases(ctx, batch)
    check_splits(ctx, rng, ctx.n(120, 900), batch)
    check_lib_sequences(ctx, rng, ctx.n(200, 2500), batch)
    compare_batch(ctx, batch)
    ctx.count('eval_check_problems', len(EVAL_PROBLEMS))
    for pr in EVAL_PROBLEMS[:3]:
        ctx.violation('a merged correlation does not evaluate to its merged data: the value at T_ref is not the stored reference value',
                      pr, expected=pr['stored'], observed=pr['evaluated_at_T_ref'])
    del EVAL_PROBLEMS[:]
    ctx.assumption('A-ref', True, '%d wholes evaluated at their reference temperature, max relative deviation %.2e' %
                   (_ref_checked[0], _ref_checked[1]))
    from .c12 import reach_floor
    reach_floor(ctx, ['update_ok', 'update_readOnly', 'update_value', 'load_ok', 'load_key', 'load_readOnly', 'load_inputData',
                      'files_2', 'files_3', 'files_4', 'mode_clean', 'mode_conflict', 'mode_duplicate', 'mode_empty_entry',
                      'mode_invalid_part', 'libupdate_ok', 'libupdate_readOnly', 'libupdate_refused_after_mergeable_groups', 'corr_c13.seq', 'corr_c13.load', 'corr_c13.libseq',
                      'loads_from_another_cwd', 'cwd_other_files'])


def replay(ctx, rec):
    inp = rec.get('input', rec)
    before = len(ctx.violations)
    kind = rec.get('kind')          # corpus records name their kind; a record written by a run carries kind='property'
    if kind not in ('seq', 'ref', 'files'):
        kind = ('seq' if 'universe' in inp else 'libseq' if 'libs' in inp else 'ref' if 'whole' in inp else
                'pair' if ('a' in inp and 'b' in inp) else 'cwd' if 'cwd' in inp else 'files')
    if kind == 'libseq':
        lib_sequence_case(ctx, inp['libs'], inp['ops'], None)
    elif kind == 'pair':
        # the same data in two include orders / nestings
        loads = []
        for side in ('a', 'b'):
            d = L.new_dir(ctx, 'c13r-')
            L.write_texts(d, inp[side]['texts'])
            loads.append(L.load_library(os.path.join(d, 'library.yaml')))
        if not same_load(loads[0], loads[1]):
            ctx.violation('the merged library depends on the include order or nesting', inp, expected=show_load(loads[0]), observed=show_load(loads[1]))
    elif kind == 'cwd':
        d = L.new_dir(ctx, 'c13r-')
        L.write_texts(d, inp['texts'])
        neutral = L.load_library(os.path.join(d, 'library.yaml'))
        got = load_in_situation(ctx, d, inp['cwd'])
        if not same_load(neutral, got):
            ctx.violation('what a library holds after loading depends on the current directory of the process', inp,
                          expected=show_load(neutral), observed=show_load(got))
    elif kind == 'seq':
        parts = [unshow_part(j) for j in inp['universe']]
        objs = [impl_obj(p) for p in parts]
        for j, (t, s, ow) in enumerate(inp['ops']):
            bt = obs_obj(objs[t])
            bs = obs_obj(objs[s])
            try:
                with L.quiet():
                    objs[t].update(objs[s], ow)
                err = None
            except Exception as e:
                err = L.err_class(e)
            after = obs_obj(objs[t])
            verdict, merged = spec_update(bt, bs, ow)
            if err is not None and not states_close(after, bt, 0.0):
                ctx.violation('a rejected merge changed the correlation', inp, expected=bt, observed=after)
            if verdict == 'readOnly' and err != 'readOnly':
                ctx.violation('two different values for one datum are not rejected with ReadOnlyDataError', inp, 'readOnly', err or after)
            if verdict == 'either' and err is None:
                ctx.violation('a conflicting and inconsistent merge is not rejected', inp, 'readOnly or value', after)
            if verdict == 'invalid' and err is None:
                ctx.violation('an inconsistent merge was accepted', inp, 'rejected', after)
            if verdict == 'ok' and (err is not None or not states_close(after, merged)):
                ctx.violation('a merge is not the pointwise union of the two correlations', inp, merged, err or after)
    elif kind == 'ref':
        check_ref_assumption(ctx, unshow_part(inp['whole']))
    else:
        d = L.new_dir(ctx, 'c13r-')
        L.write_texts(d, inp['texts'])
        st, res = L.load_library(os.path.join(d, 'library.yaml'))
        want = rec.get('spec') or inp['spec']
        if 'error' in want:
            if st != 'err' or res != want['error']:
                ctx.violation(rec.get('what', 'recorded files are not rejected as specified'), inp, expected=want['error'],
                              observed=res if st == 'err' else 'loaded')
        else:
            if st != 'ok':
                ctx.violation(rec.get('what', 'recorded files do not load'), inp, expected='loaded', observed=res,
                              finding=(rec.get('finding') or ('Y1' if inp.get('parts') else None)) if res == 'inputData' else None)
            else:
                o = obs_lib(res)
                for nm, w in want['groups'].items():
                    wantp = obs_of_part(union_of([unshow_part(w)]))
                    got = o.get(nm)
                    if got is None or not states_close({k: got[k] for k in wantp}, wantp):
                        ctx.violation(rec.get('what', 'merged library differs from the union'), inp, expected=wantp, observed=got)
    return len(ctx.violations) == before


LEVEL_TEXT = ('Lean 4 theorems over the model of ThermochemIncomplete.update / GroupLibrary.Update / _do_load: merging any list of '
              'self-consistent parts of one consistent whole (shared T_ref), in any order and any include nesting, never fails and '
              'gives the pointwise union; merging a correlation into itself changes nothing; two different values for one datum are '
              'ReadOnlyDataError unless overwrite, then the later value wins; whenever update raises, the target is unchanged (all '
              'inputs, any T_ref); two spellings of one group in one file are rejected (through the C19 theorems). Tied to the code by '
              'correspondence of the full object/library state after every call and of GroupLibrary.Load on file trees.')
LEVEL_NOTE = ('Trusted: Lean kernel, standard axioms, correspondence harness, decimal-literal abstraction, A-ref (a raw-data correlation '
              'evaluated at its own T_ref returns the reference values: C05), A-yaml. The theorems are about the repaired code (F13 presence '
              'tests, validation before commit in update, Y2 property-set assignment). Known limitation recorded as Y1: a file whose '
              'share of a group is not by itself a consistent correlation cannot be loaded.')
TECHNIQUE = 'Lean 4 proof over hand-written model + correspondence check'
