"""C15 — results do not depend on what the library object did before.

Proof: lean/PGA/Props/C15.lean (model PGA/Model/History.lean: libraries with their remembered `name`, estimates,
the property-set table, the schema repository and the data-directory cache; Load / GetDescriptors / Estimate /
evaluation with and without the elemental reference / Update).
Tie: random histories are run in this process on the real objects and, symbolically, on the compiled model; for every
operation the model answers *which fresh computation its output must equal* (its declared inputs); that computation is
run from scratch in fresh subprocesses (harness/lib_c15_worker.py) and compared with what the history produced.
Property oracle: the same comparison with the declared inputs taken from the property's wording (the elemental
reference of an estimate is that of the molecule its descriptors were obtained for), plus a digest of every live
library's data before and after every operation (nothing but a merge may change one, and only its destination), and
per-group digests before and after every REFUSED merge (it must change nothing: GroupLibrary.Update is all-or-nothing).
"""
import os, sys, json, io, contextlib, subprocess, collections, hashlib
from . import common
from . import lib_c15_worker as wk

PROPS = ['PGA.Props.C15']
GEN = []
OBLIGATIONS = ['PGA.History.' + t for t in [
    'C15_output_depends_on_declared_inputs', 'C15_history_independent', 'C15_load_first_or_later',
    'C15_frame_library', 'C15_data_changes_only_by_merge', 'C15_frame_estimate', 'C15_frame_registries',
    'C15_name_is_last_decomposed', 'C15_elemental_uses_last_decomposed', 'C15_F26_witness', 'C15_full_false',
    'C15_elemental_partial', 'C15_F1_estimate_before_decompose', 'C15_f1Safe_of_fixed',
    'C15_rejected_merge_full', 'C15_rejected_merge_frame', 'C15_refused_merge_invisible', 'C15_rejected_merge_old_fails']]
RULE = ('case = one operation of a random history (length 2..40) over 2-4 shipped libraries (loaded by name or by path, some '
        'twice), 3-6 molecules per library (decomposable, not decomposable, unparsable), descriptor mappings taken from earlier '
        'decompositions (also of other libraries), temperatures {298.15, 500, 900}, 11 quantities (4 with the elemental '
        'reference), merges between live libraries with and without overwrite. Every operation is compared with the fresh-process '
        'run of exactly its declared inputs. Non-trivial = the operation is preceded by at least one other operation on the same '
        'library object or estimate; distinct = distinct (declared inputs, kind of preceding history: merged / re-decomposed / '
        'other estimates made).')
ASSUMPTIONS = [
    'the environment (data directory, files on disk, cwd, pgradd_DATA_DIR) does not change during a run',
    'a fresh subprocess is a faithful "first in a fresh process" baseline; batched baselines (several independent requests per '
    'process, each on freshly loaded objects) are cross-checked against one-request-per-process runs on a sample',
    'floats are compared by repr (same code, same inputs, same machine: bit-identical) with a 1e-9 relative fallback reported separately',
]
TRUSTED = ['modelled, not verified: GroupLibrary.Load/_do_load (which state it reads/writes), GetDescriptors (sets name), Estimate, '
           'ThermochemGroupAdditive.__init__/get_*, Update (pgradd/GroupAdd/Library.py, pgradd/ThermoChem/group_data.py, '
           'pgradd/GroupAdd/DataDir.py, pgradd/yaml_io/yaml_io.py)',
           'parameters, not modelled: YAML reading, scheme matching, thermochemistry evaluation, the merge of two data sets — '
           'as functions of exactly what they are given (World); the symbolic driver returns the arguments, fresh subprocesses '
           'supply the values',
           'F1 (Estimate before any GetDescriptors: AttributeError) is probed in a fresh process and passed to the model as '
           'World.f1Fixed; such operations are counted, not reported (owned by C01)']

LIBS = ['BensonGA', 'XieGA2022', 'SalciccioliGA2012', 'GRWSurface2018', 'GuSolventGA2017Vac', 'PPY', 'PtSurface2023',
        'GRWAqueous2018', 'GuSolventGA2017Aq']
BOGUS_LIB = 'NoSuchLibrary'
GAS = ['CC', 'CCO', 'C1CO1', 'C1CCCCC1', 'c1ccccc1', 'C=CC', 'CC(=O)O', 'CCCCCC', 'OCC=O', 'CC(C)C',
       'CCOC', 'CC(C)CC', 'C1CCOC1',      # with groups that have no heat-capacity data (IncompleteDataWarning away from T_ref)
       'C[Si]C', 'C(C']
SURF = ['C([Pt])C[Pt]', '[Pt]C([Pt])C([Pt])([Pt])C=O', 'C(=O)([Pt])O', 'CC[Pt]', 'OC[Pt]', 'C(=O)[Pt]', 'CC', 'C[Si]C', 'C(C',
        'C([Pt])([Pt])C', 'OCC[Pt]']
RU = ['CCC', '[Ru]C([Ru])C([Ru])([Ru])C', 'CC[Ru]', 'C([Ru])C[Ru]', 'CC', 'C(C', 'CCO']
MOLS = {'BensonGA': GAS, 'PPY': GAS, 'XieGA2022': RU, 'SalciccioliGA2012': SURF, 'GRWSurface2018': SURF,
        'GuSolventGA2017Vac': SURF, 'PtSurface2023': SURF, 'GRWAqueous2018': SURF, 'GuSolventGA2017Aq': SURF}
TEMPS = [298.15, 500.0, 900.0]
QTYS = wk.QTYS
PLAIN = wk.PLAIN_QTYS          # quantities asked for with no warnings filter of the caller's in force (wk.QTYS = PLAIN + filter modes)
FILTERED = [i for i, q in enumerate(QTYS) if '!' in q]
DUMMY = 'C'          # the molecule a baseline decomposes first when the operation's declared inputs contain no molecule
PAR = 8              # parallel fresh processes


# ---------------------------------------------------------------------------------------------- fresh processes
def run_workers(ctx, batches):
    """run each batch (list of requests) in its own fresh process, PAR at a time; returns list of reply lists"""
    env = dict(os.environ)
    env['PYTHONPATH'] = common.REPO + os.pathsep + common.VERIF
    env['PYTHONDONTWRITEBYTECODE'] = '1'
    res = [None] * len(batches)
    pending = list(enumerate(batches))
    running = []
    while pending or running:
        while pending and len(running) < PAR:
            i, b = pending.pop(0)
            p = subprocess.Popen([sys.executable, '-m', 'harness.lib_c15_worker'], cwd=common.VERIF, env=env,
                                 stdin=subprocess.PIPE, stdout=subprocess.PIPE, stderr=subprocess.PIPE, text=True)
            p.stdin.write(json.dumps(b))
            p.stdin.close()
            running.append((i, p))
        i, p = running.pop(0)
        try:
            out = p.stdout.read()
            err = p.stderr.read()
            p.wait(timeout=max(30, ctx.time_left()))
        except subprocess.TimeoutExpired:
            p.kill()
            raise common.MachineryError('fresh-process runner timed out')
        if p.returncode != 0:
            raise common.MachineryError('fresh-process runner failed: ' + err[-600:])
        try:
            res[i] = json.loads(out[out.index('['):])
        except ValueError:
            raise common.MachineryError('fresh-process runner wrote no JSON: ' + (out + err)[-600:])
        for r in res[i]:
            if 'worker_error' in r:
                raise common.MachineryError('fresh-process runner: ' + r['worker_error'])
        ctx.count('fresh_processes')
    return res


class Fresh(object):
    """memo of fresh-process results keyed by the canonical JSON of the request"""

    def __init__(self, ctx):
        self.ctx = ctx
        self.memo = {}
        self.todo = collections.OrderedDict()

    @staticmethod
    def k(req):
        return json.dumps(req, sort_keys=True)

    def want(self, req):
        k = self.k(req)
        if k not in self.memo and k not in self.todo:
            self.todo[k] = req

    def flush(self, per_batch=14):
        import time
        t0 = time.time()
        try:
            return self._flush(per_batch)
        finally:
            self.ctx.stats['time_fresh_s'] += round(time.time() - t0)

    def _flush(self, per_batch=14):
        reqs = list(self.todo.values())
        self.todo.clear()
        if not reqs:
            return
        # requests that build the same libraries go to the same process (cheaper); order is otherwise arbitrary
        reqs.sort(key=lambda r: json.dumps(r.get('snap') or r.get('prov') or r.get('dst') or r.get('L') or ''))
        batches = [reqs[i:i + per_batch] for i in range(0, len(reqs), per_batch)]
        for b, out in zip(batches, run_workers(self.ctx, batches)):
            for r, o in zip(b, out):
                self.memo[self.k(r)] = o
        self.ctx.count('fresh_requests', len(reqs))
        for r in reqs:
            self.ctx.count('fresh_' + r['kind'])

    def get(self, req):
        return self.memo[self.k(req)]


# ---------------------------------------------------------------------------------------------- histories
class Universe(object):
    """ids for libraries, molecules, descriptor mappings, temperatures, quantities (the model works on numbers)"""

    def __init__(self):
        self.lib_ids = {n: i for i, n in enumerate(LIBS + [BOGUS_LIB])}
        self.lib_names = {i: n for n, i in self.lib_ids.items()}
        self.mols = []
        self.mol_ids = {}
        self.descrs = []          # canonical rows
        self.descr_ids = {}

    def mol(self, smiles):
        if smiles not in self.mol_ids:
            self.mol_ids[smiles] = len(self.mols)
            self.mols.append(smiles)
        return self.mol_ids[smiles]

    def descr(self, rows):
        k = json.dumps(rows)
        if k not in self.descr_ids:
            self.descr_ids[k] = len(self.descrs)
            self.descrs.append(rows)
        return self.descr_ids[k]

    def prov(self, P):
        """model provenance (library ids) -> worker provenance (library names)"""
        if P[0] == 'L':
            return ['L', self.lib_names[P[1]]]
        return ['M', self.prov(P[1]), self.prov(P[2]), bool(P[3])]


def gen_history(rng, U, length, f1_fixed, lib_pool=None, mol_pool=None):
    """a random history as a list of op dicts in the driver's format (+ the data the implementation run needs)"""
    lib_pool = lib_pool or LIBS
    mol_pool = mol_pool or MOLS
    names = rng.sample(lib_pool, min(len(lib_pool), rng.choice([1, 2, 2, 3])))
    ops = []
    libs = []        # origin name per live library handle
    ests = []        # (lib handle) per estimate handle
    decomposed = collections.defaultdict(int)    # lib handle -> number of decompositions so far
    known = []       # (descr id, mol id, lib handle) of successful decompositions — only known after running; filled lazily
    # the generator cannot know decomposition results in advance; it emits 'estimate-from' references to earlier decompose ops
    decomp_ops = []  # indices of decompose ops
    for step in range(length):
        r = rng.random()
        if len(libs) < min(len(names), 2) or (r < 0.04 and len(libs) < 5):
            n = rng.choice(names) if rng.random() > 0.04 else BOGUS_LIB
            ops.append({'k': 'load', 'L': U.lib_ids[n], 'byPath': n != BOGUS_LIB and rng.random() < 0.3})
            if n != BOGUS_LIB:
                libs.append(n)
            continue
        if r < 0.40 or not decomp_ops:
            i = rng.randrange(len(libs))
            pool = mol_pool[libs[i]]
            m = rng.choice(pool) if rng.random() > 0.05 else rng.choice(sum(mol_pool.values(), []))
            ops.append({'k': 'decompose', 'lib': i, 'm': U.mol(m)})
            decomp_ops.append(len(ops) - 1)
            decomposed[i] += 1
            continue
        if r < 0.60 or not ests:
            # the mapping comes from an earlier decomposition: the latest one, or (half of the time) an older one, so that
            # the library's remembered molecule differs from the estimate's own
            last = decomp_ops[-1]
            older = [j for j in decomp_ops if ops[j]['m'] != ops[last]['m']]
            src = rng.choice(older) if older and rng.random() < 0.5 else (last if rng.random() < 0.6 else rng.choice(decomp_ops))
            same = rng.random() < 0.85
            i = ops[src]['lib'] if same else rng.randrange(len(libs))
            if decomposed[i] == 0 and not f1_fixed and rng.random() > 0.25:
                i = ops[src]['lib']          # mostly avoid F1; a quarter of these stay in to exercise it
            ops.append({'k': 'estimate', 'lib': i, 'from': src, 'forMol': ops[src]['m']})
            ests.append(i)                   # may fail; handles are fixed up while running
            continue
        if r < 0.93:
            ops.append({'k': 'evaluate', 'est': rng.randrange(len(ests)), 'T': rng.randrange(len(TEMPS)),
                        'q': (QTYS.index(rng.choice(sorted(q for q in wk.ELEMENTAL if '!' not in q))) if rng.random() < 0.4
                              else rng.choice(FILTERED) if rng.random() < 0.2 else rng.randrange(len(PLAIN))),
                        'el': None})
            continue
        i, j = rng.randrange(len(libs)), rng.randrange(len(libs))
        ops.append({'k': 'merge', 'dst': i, 'src': j, 'ow': rng.random() < 0.4})
    return ops


def scripted_histories(U):
    """fixed histories that every run includes: evaluate an estimate, merge a revision of the library that changes its
    groups (two libraries that share group names with different data, overwrite allowed), estimate the same molecule again
    and evaluate at the same temperature — what was remembered while evaluating before the merge must not answer afterwards"""
    out = []
    for a, b, m in (('GuSolventGA2017Aq', 'GuSolventGA2017Vac', 'CC[Pt]'), ('GRWSurface2018', 'GRWAqueous2018', 'OC[Pt]'),
                    ('GuSolventGA2017Vac', 'GuSolventGA2017Aq', 'C([Pt])C[Pt]')):
        ops = [{'k': 'load', 'L': U.lib_ids[a], 'byPath': False}, {'k': 'load', 'L': U.lib_ids[b], 'byPath': False},
               {'k': 'decompose', 'lib': 0, 'm': U.mol(m)},
               {'k': 'estimate', 'lib': 0, 'from': 2, 'forMol': U.mol(m)}]
        ops += [{'k': 'evaluate', 'est': 0, 'T': t, 'q': q, 'el': None} for t in range(len(TEMPS)) for q in range(len(PLAIN))]
        ops += [{'k': 'merge', 'dst': 0, 'src': 1, 'ow': True},
                {'k': 'decompose', 'lib': 0, 'm': U.mol(m)},
                {'k': 'estimate', 'lib': 0, 'from': len(ops) + 1, 'forMol': U.mol(m)}]
        ops += [{'k': 'evaluate', 'est': 1, 'T': t, 'q': q, 'el': None} for t in range(len(TEMPS)) for q in range(len(PLAIN))]
        ops += [{'k': 'evaluate', 'est': 0, 'T': t, 'q': q, 'el': None} for t in range(len(TEMPS)) for q in range(len(PLAIN))]
        out.append(ops)
    # two merges into one target, both with overwrite (without it nearly every merge between shipped libraries is refused, and a
    # refused merge takes nothing over since the repair of FA1): a library that only ever was a SOURCE must keep its data
    ev = lambda e: [{'k': 'evaluate', 'est': e, 'T': t, 'q': q, 'el': None} for t in range(len(TEMPS)) for q in (0, 1, 3)]
    ops = [{'k': 'load', 'L': U.lib_ids['XieGA2022'], 'byPath': False}, {'k': 'load', 'L': U.lib_ids['SalciccioliGA2012'], 'byPath': False},
           {'k': 'load', 'L': U.lib_ids['GRWSurface2018'], 'byPath': False},
           {'k': 'decompose', 'lib': 1, 'm': U.mol('CC[Pt]')}, {'k': 'estimate', 'lib': 1, 'from': 3, 'forMol': U.mol('CC[Pt]')}]
    ops += ev(0)
    ops += [{'k': 'merge', 'dst': 0, 'src': 1, 'ow': True}, {'k': 'merge', 'dst': 0, 'src': 2, 'ow': True},
            {'k': 'decompose', 'lib': 1, 'm': U.mol('CC[Pt]')}, {'k': 'estimate', 'lib': 1, 'from': len(ops) + 2, 'forMol': U.mol('CC[Pt]')}]
    ops += ev(1) + ev(0)
    out.append(ops)
    # an estimate that fails for missing data (the molecule decomposes, a group has no data) must leave the library as it was
    for lib, bad, good in (('BensonGA', 'C=C=O', 'CC'), ('BensonGA', 'C=C=C', 'CCO')):
        ops = [{'k': 'load', 'L': U.lib_ids[lib], 'byPath': False}, {'k': 'load', 'L': U.lib_ids['PPY'], 'byPath': False},
               {'k': 'decompose', 'lib': 0, 'm': U.mol(bad)}, {'k': 'estimate', 'lib': 0, 'from': 2, 'forMol': U.mol(bad)},
               {'k': 'decompose', 'lib': 0, 'm': U.mol(good)}, {'k': 'estimate', 'lib': 0, 'from': 4, 'forMol': U.mol(good)}]
        ops += ev(1)
        ops += [{'k': 'merge', 'dst': 1, 'src': 0, 'ow': False}]
        out.append(ops)
    # (fourth round) the same evaluation asked for repeatedly, after other evaluations and through another estimate of the same
    # library, while the caller has a warnings filter in force; molecules with one and with two groups that lack heat-capacity
    # data (each warns away from T_ref; under `error` the sum stops at the first)
    def E(e, T, q):
        return {'k': 'evaluate', 'est': e, 'T': T, 'q': QTYS.index(q), 'el': False}
    for lib, m1, m2 in (('BensonGA', 'CCOCC(C)CC', 'CCOC'), ('PPY', 'CC(C)CC', 'CCOCC(C)CC')):
        ops = [{'k': 'load', 'L': U.lib_ids[lib], 'byPath': False},
               {'k': 'decompose', 'lib': 0, 'm': U.mol(m1)}, {'k': 'estimate', 'lib': 0, 'from': 1, 'forMol': U.mol(m1)},
               E(0, 1, 'HoRT!error'), E(0, 1, 'HoRT!error'), E(0, 1, 'HoRT!error'), E(0, 1, 'HoRT!record'), E(0, 1, 'HoRT'),
               E(0, 1, 'HoRT!record'), E(0, 1, 'HoRT!error'), E(0, 2, 'HoRT'), E(0, 2, 'HoRT!error'), E(0, 2, 'H:kcal/mol!error'),
               E(0, 0, 'HoRT!record'), E(0, 0, 'HoRT!record'), E(0, 1, 'GoRT!error'), E(0, 1, 'CpoR!error'),
               {'k': 'decompose', 'lib': 0, 'm': U.mol(m2)}]
        ops += [{'k': 'estimate', 'lib': 0, 'from': len(ops) - 1, 'forMol': U.mol(m2)},
                E(1, 1, 'HoRT!error'), E(1, 1, 'HoRT!record'), E(1, 2, 'HoRT!record'), E(1, 2, 'HoRT!error'), E(0, 1, 'HoRT!error')]
        out.append(ops)
    # (fourth round) a merge that is REFUSED, between a library without and one with uncertainty data (and between two that
    # both have them, refused after the group data were merged): what the destination holds afterwards, and what it answers
    evs = lambda e: [{'k': 'evaluate', 'est': e, 'T': t, 'q': q, 'el': None} for t in (0, 2) for q in (0, 1, 3, 8)]
    for dst, src, m, ow in (('PtSurface2023', 'GRWSurface2018', 'CC[Pt]', False), ('BensonGA', 'GuSolventGA2017Vac', 'CCO', False),
                            ('XieGA2022', 'GRWAqueous2018', 'CC[Ru]', False), ('GRWSurface2018', 'GuSolventGA2017Vac', 'OC[Pt]', True)):
        ops = [{'k': 'load', 'L': U.lib_ids[dst], 'byPath': False}, {'k': 'load', 'L': U.lib_ids[src], 'byPath': False},
               {'k': 'decompose', 'lib': 0, 'm': U.mol(m)}, {'k': 'estimate', 'lib': 0, 'from': 2, 'forMol': U.mol(m)}]
        ops += evs(0) + [{'k': 'merge', 'dst': 0, 'src': 1, 'ow': ow}, {'k': 'decompose', 'lib': 0, 'm': U.mol(m)}]
        ops += [{'k': 'estimate', 'lib': 0, 'from': len(ops) - 1, 'forMol': U.mol(m)}] + evs(1) + evs(0)
        out.append(ops)
    # (sixth round) the elemental reference belongs to the molecule, hydrogens included: two molecules with the same heavy atoms
    # and different hydrogen counts, each decomposed and estimated afresh, asked relative to the elements one after the other
    def EL(e, q):
        return [{'k': 'evaluate', 'est': e, 'T': t, 'q': QTYS.index(q), 'el': True} for t in (0, 2)]
    for lib, m1, m2 in (('BensonGA', 'CCO', 'C1CO1'), ('PPY', 'C=CC', 'CCC'), ('BensonGA', 'CCC', 'C=CC')):
        ops = [{'k': 'load', 'L': U.lib_ids[lib], 'byPath': False},
               {'k': 'decompose', 'lib': 0, 'm': U.mol(m1)}, {'k': 'estimate', 'lib': 0, 'from': 1, 'forMol': U.mol(m1)}]
        ops += EL(0, 'SoR') + EL(0, 'GoRT')
        ops += [{'k': 'decompose', 'lib': 0, 'm': U.mol(m2)}]
        ops += [{'k': 'estimate', 'lib': 0, 'from': len(ops) - 1, 'forMol': U.mol(m2)}]
        ops += EL(1, 'SoR') + EL(1, 'GoRT') + EL(1, 'S:J/mol/K') + EL(0, 'SoR')
        out.append(ops)
    return out


class ImplRun(object):
    """runs a history on the real objects in this process, recording canonical outputs and data digests.

    Ops come either from the generator (estimate refers to an earlier decompose op by 'from'; evaluate numbers estimates
    by estimate *op*) or from a replay file (concrete: estimate carries the mapping id 'd', evaluate the real handle)."""

    def __init__(self, U):
        self.U = U
        self.libs = []
        self.ests = []

    def run(self, ctx, ops, rng):
        U = self.U
        outs = []
        concrete = []            # the ops as the driver sees them
        est_handle = {}          # n-th estimate op -> real handle (or None)
        n_est_ops = 0
        decomp_result = {}       # op index -> descr id or None
        buf = io.StringIO()
        digests = []
        for idx, op in enumerate(ops):
            k = op['k']
            o = None
            c = {kk: vv for kk, vv in op.items() if kk != 'from'}
            refs = [op.get(x) for x in ('lib', 'dst', 'src') if x in op]
            if any(r >= len(self.libs) for r in refs):
                # an earlier operation (a load) did not do here what the generator assumed; the history ends here and
                # that earlier operation is reported by the comparison
                ctx.count('histories_cut_at_dangling_reference')
                break
            with contextlib.redirect_stdout(buf):
                if k == 'load':
                    name = U.lib_names[op['L']]
                    try:
                        lib = wk.load(name, op['byPath'])
                        self.libs.append(lib)
                        o = {'loaded': len(self.libs) - 1, 'fp': wk.fingerprint(lib)}
                    except Exception as e:
                        o = {'err': wk.exc_name(e)}
                elif k == 'decompose':
                    lib = self.libs[op['lib']]
                    try:
                        rows = wk.canon_descr(lib.GetDescriptors(U.mols[op['m']]))
                        o = {'descr': rows}
                        decomp_result[idx] = U.descr(rows)
                    except Exception as e:
                        o = {'err': wk.exc_name(e)}
                        decomp_result[idx] = None
                elif k == 'estimate':
                    if 'from' in op:
                        d = decomp_result.get(op['from'])
                        if d is None:
                            # the referenced decomposition failed: a hand-made mapping instead (one group of that library, twice)
                            g = sorted(map(str, self.libs[ops[op['from']]['lib']].contents))[0]
                            d = U.descr(wk.canon_descr({g: 2}))
                            c['handmade'] = True
                        c['d'] = d
                    d = c['d']
                    lib = self.libs[op['lib']]
                    try:
                        est = lib.Estimate(wk.descr_dict(U.descrs[d]), 'thermochem')
                        self.ests.append(est)
                        est_handle[n_est_ops] = len(self.ests) - 1
                        o = {'estimated': len(self.ests) - 1}
                    except Exception as e:
                        est_handle[n_est_ops] = None
                        o = {'err': wk.exc_name(e)}
                    n_est_ops += 1
                elif k == 'evaluate':
                    if op.get('concrete'):
                        h = op['est'] if op['est'] < len(self.ests) else None
                    else:
                        h = est_handle.get(op['est'])
                        if h is None and self.ests:
                            h = op['est'] % len(self.ests)
                    if h is None:
                        outs.append(None)
                        concrete.append(None)
                        continue
                    q = QTYS[op['q']]
                    el = (q in wk.ELEMENTAL) and (op['el'] if op.get('el') is not None else rng.random() < 0.6)
                    c = {'k': 'evaluate', 'est': h, 'T': op['T'], 'q': op['q'], 'el': bool(el), 'concrete': True}
                    o = {'val': wk.evaluate(self.ests[h], TEMPS[op['T']], q, bool(el))}
                elif k == 'merge':
                    a, b = self.libs[op['dst']], self.libs[op['src']]
                    err = None
                    held = wk.parts(a)
                    offered = set(map(str, b.contents))
                    try:
                        a.Update(b, overwrite=op['ow'])
                    except Exception as e:
                        err = wk.exc_name(e)
                    o = {'merge_err': err, 'fp': wk.fingerprint(a)}
                    if err is not None:
                        rejected_merge(ctx, U, concrete + [c], op['dst'], err, held, wk.parts(a), offered)
            after = [wk.fingerprint(l) for l in self.libs]
            # ---- frame, directly on the implementation: only a merge may change a library's data, and only its destination
            for i, (x, y) in enumerate(zip(digests, after)):
                if x != y and not (k == 'merge' and i == op['dst']):
                    ctx.violation('an operation other than a merge into it altered a library\'s data',
                                  replay_input(U, concrete + [c], extra={'library': i}),
                                  expected='data unchanged', observed='digest changed by ' + k)
            ctx.count('frame_checks', len(digests))
            digests = after
            outs.append(o)
            concrete.append(c)
        return concrete, outs


def rejected_merge(ctx, U, conc, dst, err, held, holds, offered):
    """A merge that was refused must leave the destination as it was: a library that merely attempted a merge is a library
    that did nothing (otherwise every later result depends on that attempt).  `GroupLibrary.Update` is all-or-nothing since the
    repair of finding FA1 (before it, the groups of the source that preceded the conflict stayed merged): ANY difference —
    a group added, changed or gone, the uncertainty block — is a violation.  A difference of exactly the old class (uncertainty
    block as before, no group gone, every new or changed group one the source offers) is labelled FA1 (a `fixed` finding
    matches nothing: the label only says which repair regressed)."""
    ctx.count('rejected_merges')
    if held == holds:
        ctx.count('rejected_merges_that_left_nothing')
        return
    gone = sorted(g for g in held['groups'] if g not in holds['groups'])
    new = sorted(g for g in holds['groups'] if g not in held['groups'])
    changed = sorted(g for g in holds['groups'] if g in held['groups'] and held['groups'][g] != holds['groups'][g])
    uq = 'as before' if held['uq'] == holds['uq'] else ('adopted from the source' if held['uq'] is None else 'changed')
    foreign = [g for g in new + changed if g not in offered]
    fa1 = uq == 'as before' and not gone and not foreign
    observed = {'raised': err, 'groups_added': len(new), 'groups_changed': len(changed), 'groups_removed': len(gone),
                'uncertainty_data': uq, 'examples': (new + changed + gone)[:4]}
    ctx.count('rejected_merges_that_changed_the_destination')
    what = ('a rejected merge left group data of the source in the destination library' if fa1 else
            'a rejected merge changed the destination library beyond taking over group data of the source: uncertainty data %s'
            '%s%s' % (uq, ', groups removed' if gone else '', ', groups changed that the source does not hold' if foreign else ''))
    ctx.violation(what, replay_input(U, conc, extra={'library': dst}), expected='the destination holds what it held before the merge was refused',
                  observed=observed, finding='FA1' if fa1 else None)


def replay_input(U, conc, extra=None):
    """a self-contained record of a history: what `replay` needs to run it again"""
    d = {'history': [strip(x) for x in conc if x is not None], 'libraries': [U.lib_names[i] for i in sorted(U.lib_names)],
         'molecules': list(U.mols), 'descrs': list(U.descrs), 'quantities': QTYS, 'temperatures': TEMPS}
    d.update(extra or {})
    return d


def floats_close(a, b):
    try:
        x, y = float(a), float(b)
    except ValueError:
        return False
    return abs(x - y) <= 1e-9 * (abs(x) + abs(y)) + 1e-300


def check_histories(ctx, histories, fresh, f1_fixed, U):
    """histories: list of (concrete ops, impl outs). Runs the model, fetches the fresh baselines, compares."""
    # ---- round(s) with the driver.  Control-relevant facts the symbolic model cannot know are tables: Estimate outcomes per
    # (data, mapping) come from fresh runs; whether a merge is refused per (destination data, source data, overwrite) is taken
    # from what the history observed at the operation the driver names — and verified below against the fresh-process run of
    # exactly that merge (`compare`: error class, digest, and "refused" as the model has it).  The driver reports the first
    # merge of unknown outcome of a history only (what follows it may name wrong provenances), so this takes as many (cheap,
    # driver-only) rounds as the longest chain of merges.
    est_table = {}
    merge_table = {}
    load_err = [[U.lib_ids[BOGUS_LIB], 1]]
    for _ in range(80):
        reqs = []
        for conc, _o in histories:
            ops = [c for c in conc if c is not None]
            reqs.append({'op': 'c15.run', 'f1Fixed': f1_fixed, 'loadErr': load_err,
                         'est': [[k[0], k[1], v] for k, v in est_table.items()],
                         'mergeErr': [[k[0], k[1], k[2], v] for k, v in merge_table.items()], 'ops': ops})
        replies = ctx.model(reqs)
        if replies is None:
            return
        unknown = {}
        learned = False
        for (conc, outs), rep in zip(histories, replies):
            live = [o for c, o in zip(conc, outs) if c is not None]
            for ka, kb, ow, i in rep['unknownMerge']:
                if (ka, kb, ow) not in merge_table:
                    merge_table[(ka, kb, ow)] = 3 if live[i]['merge_err'] else -1
                    learned = True
            for P, d, key in rep['unknownEst']:
                unknown[(key, d)] = P
        if not unknown and not learned:
            break
        ctx.count('driver_rounds')
        for (key, d), P in unknown.items():
            fresh.want({'kind': 'est', 'prov': U.prov(P), 'd': U.descrs[d], 'name': DUMMY})
        fresh.flush()
        for (key, d), P in unknown.items():
            r = fresh.get({'kind': 'est', 'prov': U.prov(P), 'd': U.descrs[d], 'name': DUMMY})
            est_table[(key, d)] = -1 if 'ok' in r else 2
            est_err[(key, d)] = r.get('err')
    else:
        raise common.MachineryError('Estimate / merge outcome tables did not converge')
    # ---- what must each output equal? collect the fresh requests
    plan = []
    for (conc, outs), rep in zip(histories, replies):
        mo = iter(rep['outs'])
        for idx, (c, o) in enumerate(zip(conc, outs)):
            if c is None:
                continue
            m = next(mo)
            plan.append((conc, idx, c, o, m))
    for conc, idx, c, o, m in plan:
        for req in baseline_requests(U, c, m, conc, idx):
            fresh.want(req)
    fresh.flush()
    # ---- compare, history by history; once model and implementation have parted ways in a history (already reported), the
    # rest of that history is not comparable (handles differ) and is skipped
    diverged = set()
    for conc, idx, c, o, m in plan:
        if id(conc) in diverged:
            ctx.count('ops_skipped_after_divergence')
            continue
        n0 = len(ctx.disagreements)
        if 'badRef' in m:
            raise common.MachineryError('generated history has a dangling reference: %r' % c)
        compare(ctx, U, fresh, conc, idx, c, o, m, f1_fixed)
        if len(ctx.disagreements) > n0 and c['k'] in ('load', 'estimate', 'merge'):
            diverged.add(id(conc))


est_err = {}


def eval_req(U, v, name, c=None):
    """the fresh computation an evaluation must equal.  Plain quantities: one request per (data, mapping, molecule) that
    evaluates every temperature x quantity (shared between operations; the evaluations do not influence each other — that is
    what the singleton cross-check and the histories establish).  A quantity asked for under a warnings filter (`c` given):
    a request of its own, so that the baseline is the FIRST evaluation on freshly loaded objects."""
    r = {'kind': 'eval', 'snap': U.prov(v['snap']), 'now': U.prov(v['now']), 'd': U.descrs[v['d']], 'name': name}
    if c is not None and '!' in QTYS[c['q']]:
        r['evals'] = [[TEMPS[c['T']], QTYS[c['q']], bool(c['el'])]]
    else:
        r['evals'] = [[T, q, el] for T in TEMPS for q in PLAIN for el in ((False, True) if q in wk.ELEMENTAL else (False,))]
    return r


def eval_index(T, q, el):
    if '!' in q:
        return 0
    i = 0
    for T2 in range(len(TEMPS)):
        for q2 in PLAIN:
            for el2 in ((False, True) if q2 in wk.ELEMENTAL else (False,)):
                if T2 == T and q2 == q and el2 == el:
                    return i
                i += 1
    raise KeyError((T, q, el))


def model_name(U, v):
    """the molecule name the model says the evaluation uses (None: no elemental reference -> baseline decomposes DUMMY)"""
    if v['el'] is None:
        return DUMMY
    return None if v['el']['name'] is None else U.mols[v['el']['name']]


def baseline_requests(U, c, m, conc, idx):
    k = c['k']
    if k == 'load' and 'loaded' in m:
        return [{'kind': 'data', 'prov': U.prov(m['data'])}]
    if k == 'load':
        return [{'kind': 'data', 'prov': ['L', U.lib_names[c['L']]]}]
    if k == 'decompose' and 'descr' in m:
        return [{'kind': 'decomp', 'L': U.lib_names[m['descr']['origin']], 'm': U.mols[m['descr']['m']]}]
    if k == 'evaluate' and 'value' in m:
        v = m['value']
        reqs = [eval_req(U, v, model_name(U, v), c)]
        if v['el'] is not None and c.get('_forMol') is not None:
            reqs.append(eval_req(U, v, U.mols[c['_forMol']], c))
        return reqs
    if k == 'merge' and 'merged' in m:
        reqs = [{'kind': 'merge', 'dst': U.prov(m['dst']), 'src': U.prov(m['src']), 'ow': bool(m['ow'])}]
        if m['refused']:
            reqs.append({'kind': 'data', 'prov': U.prov(m['merged'])})
        return reqs
    return []


def compare(ctx, U, fresh, conc, idx, c, o, m, f1_fixed):
    k = c['k']
    hist = replay_input(U, conc[:idx + 1])
    prior_same = any(x is not None and x is not c and touches(x, c) for x in conc[:idx])
    key = None

    def case(decl):
        ctx.case((json.dumps(decl, sort_keys=True), kind_of_prefix(conc, idx, c)) if prior_same else None,
                 {'op': c, 'declared': decl, 'impl': o if k != 'load' else {kk: vv for kk, vv in o.items()}})
    ctx.count('ops_' + k)
    if k == 'load':
        if 'loaded' in m:
            b = fresh.get({'kind': 'data', 'prov': U.prov(m['data'])})
            case({'load': U.lib_names[c['L']]})
            if o.get('fp') != b.get('fp'):
                ctx.violation('the contents of a loaded library depend on the history', hist, expected=b, observed=o)
                ctx.disagree('corr:c15.load', hist, o, m)
            if o.get('loaded') != m['loaded']:
                ctx.disagree('corr:c15.load(handle)', hist, o, m)
        else:
            case({'load': U.lib_names[c['L']]})
            ctx.count('load_failures')
            if 'err' not in o:
                ctx.disagree('corr:c15.load', hist, o, m)
        return
    if k == 'decompose':
        req = {'kind': 'decomp', 'L': U.lib_names[m['descr']['origin']], 'm': U.mols[m['descr']['m']]}
        b = fresh.get(req)
        case(req)
        ctx.count('decompose_' + ('ok' if 'descr' in o else 'err_' + o['err']))
        if o != b:
            ctx.violation('the descriptors of a molecule depend on the history', hist, expected=b, observed=o)
            ctx.disagree('corr:c15.decompose', hist, o, m)
        return
    if k == 'estimate':
        if 'estimated' in m:
            case({'estimate': c})
            ctx.count('estimate_ok')
            if o.get('estimated') != m['estimated']:
                ctx.violation('Estimate fails after this history although it succeeds in a fresh process on the same data and mapping',
                              hist, expected='an estimate', observed=o)
                ctx.disagree('corr:c15.estimate', hist, o, m)
        elif m.get('failed') == 'attribute':
            # F1 exactly: the library never decomposed anything and `name` is not initialised (owned by C01: counted only)
            ctx.case(None)
            ctx.count('F1_estimate_before_any_decomposition')
            if o.get('err') != 'AttributeError':
                ctx.disagree('corr:c15.estimate(F1)', hist, o, m)
        else:
            case({'estimate': c})
            ctx.count('estimate_rejected')
            if 'err' not in o or o['err'] == 'AttributeError':
                ctx.violation('Estimate behaves differently after this history than in a fresh process on the same data and mapping',
                              hist, expected='rejected (missing group data)', observed=o)
                ctx.disagree('corr:c15.estimate', hist, o, m)
        return
    if k == 'evaluate':
        v = m['value']
        i = eval_index(c['T'], QTYS[c['q']], c['el'])
        bm = fresh.get(eval_req(U, v, model_name(U, v), c))
        model_val = bm['vals'][i] if 'vals' in bm else 'err:' + bm['err']
        decl = {'evaluate': {'snap': v['snap'], 'now': v['now'], 'd': v['d'], 'T': c['T'], 'q': QTYS[c['q']], 'el': c['el']}}
        case(decl)
        ctx.count('evaluate_' + ('elemental' if c['el'] else 'plain'))
        if o['val'].startswith('err:'):
            ctx.count('evaluate_' + o['val'])
            if o['val'] == 'err:UnitsError':
                ctx.count('F12_cases(same error in the fresh process)' if model_val == o['val'] else 'UnitsError_only_in_history')
        tie_ok = o['val'] == model_val or floats_close(o['val'], model_val)
        if o['val'] != model_val and tie_ok:
            ctx.count('floats_equal_only_within_1e-9')
        if not tie_ok:
            ctx.disagree('corr:c15.evaluate', hist, o, {'declared': m, 'fresh': model_val})
        # the property's wording: the estimate "made for a molecule" -> its own molecule's elemental reference
        if c['el'] and c.get('_forMol') is not None:
            bs = fresh.get(eval_req(U, v, U.mols[c['_forMol']], c))
            spec_val = bs['vals'][i] if 'vals' in bs else 'err:' + bs['err']
            if not (o['val'] == spec_val or floats_close(o['val'], spec_val)):
                remembered = v['el']['name']
                # F26: the estimate remembers the library's last decomposed molecule — another molecule, or none at all
                # (then the elemental evaluation raises, since the F1 repair initialises the name to None)
                explained = tie_ok and remembered != c['_forMol']
                ctx.count('F26_seen' if explained else 'elemental_mismatch_unexplained')
                ctx.violation('the elemental reference of an estimate is not that of the molecule its descriptors were obtained for',
                              dict(hist, estimate_for=U.mols[c['_forMol']],
                                   last_decomposed=None if remembered is None else U.mols[remembered]),
                              expected=spec_val, observed=o['val'], finding='F26' if explained else None)
        elif not tie_ok:
            q = QTYS[c['q']]
            ctx.violation('a property of an estimate depends on the history' if '!' not in q else
                          'the outcome of an evaluation while the caller has a warnings filter in force (the package\'s warnings %s) '
                          'depends on the history' % ('raised as errors' if q.endswith('!error') else 'recorded'),
                          hist, expected=model_val, observed=o['val'])
        return
    if k == 'merge':
        b = fresh.get({'kind': 'merge', 'dst': U.prov(m['dst']), 'src': U.prov(m['src']), 'ow': bool(m['ow'])})
        case({'merge': [m['dst'], m['src'], m['ow']]})
        ctx.count('merge_' + (o['merge_err'] or 'ok'))
        if o['merge_err'] != b['err'] or o['fp'] != b['fp']:
            ctx.violation('the result of a merge depends on the history', hist, expected=b, observed=o)
            ctx.disagree('corr:c15.merge', hist, o, m)
        elif m['refused'] != (b['err'] is not None):
            # the table the model was given (from this or another history of the block) says otherwise than the fresh run
            ctx.disagree('corr:c15.merge(refused)', hist, o, {'model': m, 'fresh': b})
        elif m['refused']:
            # the model: a refused merge leaves the destination with the data it had (and every later operation on it is compared
            # with fresh runs on THAT provenance)
            d = fresh.get({'kind': 'data', 'prov': U.prov(m['merged'])})
            ctx.count('refused_merges_compared_with_the_unmerged_library')
            if o['fp'] != d.get('fp'):
                ctx.violation('after a refused merge the destination does not hold the data it held before', hist,
                              expected=d, observed=o)
                ctx.disagree('corr:c15.merge(refused leaves data)', hist, o, m)
        return


def touches(x, c):
    """x concerns the same library object / estimate as c"""
    def libs_of(op):
        k = op['k']
        if k == 'decompose' or k == 'estimate':
            return {op['lib']}
        if k == 'merge':
            return {op['dst'], op['src']}
        if k == 'evaluate':
            return {('est', op['est'])} | ({op['_lib']} if '_lib' in op else set())
        return set()
    return bool(libs_of(x) & libs_of(c))


def kind_of_prefix(conc, idx, c):
    ks = sorted({x['k'] for x in conc[:idx] if x is not None and touches(x, c)})
    return ','.join(ks)


# ---------------------------------------------------------------------------------------------- shrinking
class isolated(object):
    """run checks without leaving a trace in ctx; the violations found inside are available as `.found`"""
    FIELDS = ('violations', 'known_seen', 'disagreements', 'broken', 'stats', 'evaluations', 'nontrivial', 'samples')

    def __init__(self, ctx):
        self.ctx = ctx

    def __enter__(self):
        import copy
        self.saved = {f: copy.copy(getattr(self.ctx, f)) for f in self.FIELDS}
        self.n0 = len(self.ctx.violations)
        self.k0 = {k: v['count'] for k, v in self.ctx.known_seen.items()}
        return self

    def __exit__(self, *a):
        self.found = list(self.ctx.violations[self.n0:])
        self.known = {k: v['count'] - self.k0.get(k, 0) for k, v in self.ctx.known_seen.items() if v['count'] > self.k0.get(k, 0)}
        for f, v in self.saved.items():
            setattr(self.ctx, f, v)
        for k, n in self.k0.items():
            self.ctx.known_seen[k]['count'] = n
        return False


def materialize(ops, keep):
    """the sub-history `keep` (indices into the concrete history `ops`), with handles renumbered; operations whose
    library / estimate is no longer created are dropped"""
    lib_map, est_map, out = {}, {}, []
    nlib = nest = 0
    for i, c in enumerate(ops):
        made_lib = c['k'] == 'load' and c.get('_made') is not None
        made_est = c['k'] == 'estimate' and c.get('_made') is not None
        if i not in keep:
            continue
        c2 = strip(c)
        try:
            if c['k'] in ('decompose', 'estimate'):
                c2['lib'] = lib_map[c['lib']]
            elif c['k'] == 'merge':
                c2['dst'], c2['src'] = lib_map[c['dst']], lib_map[c['src']]
            elif c['k'] == 'evaluate':
                c2['est'] = est_map[c['est']]
        except KeyError:
            continue
        if made_lib:
            lib_map[c['_made']] = nlib
            nlib += 1
        if made_est:
            est_map[c['_made']] = nest
            nest += 1
        out.append(c2)
    return out


def shrink_violation(ctx, U, fresh, f1_fixed, v):
    """delta-debugging on the operations of the history of violation `v` (same `what` must still be reported)"""
    hist = v['input'].get('history')
    if not hist or len(hist) < 3:
        return
    # learn which operations created which handles
    with isolated(ctx):
        conc, outs = ImplRun(U).run(ctx, [dict(c) for c in hist], ctx.rng)
    ops = []
    for c, o in zip(conc, outs):
        if c is None:
            continue
        c = dict(c)
        if o and 'loaded' in o:
            c['_made'] = o['loaded']
        if o and 'estimated' in o:
            c['_made'] = o['estimated']
        ops.append(c)

    def fails(keep):
        sub = materialize(ops, set(keep))
        if not sub:
            return False
        if ctx.time_left() < 200:
            return False
        with isolated(ctx) as iso:
            conc2, outs2 = ImplRun(U).run(ctx, sub, ctx.rng)
            link_estimates(conc2, outs2)
            check_histories(ctx, [(conc2, outs2)], fresh, f1_fixed, U)
        ctx.count('shrink_trials')
        return any(x['what'] == v['what'] and x.get('finding') == v.get('finding') for x in iso.found)
    idx = list(range(len(ops)))
    if not fails(idx):
        return
    small = common.shrink_list(idx, fails, max_steps=45)
    sub = materialize(ops, set(small))
    with isolated(ctx) as iso:
        conc2, outs2 = ImplRun(U).run(ctx, sub, ctx.rng)
        link_estimates(conc2, outs2)
        check_histories(ctx, [(conc2, outs2)], fresh, f1_fixed, U)
    hit = [x for x in iso.found if x['what'] == v['what'] and x.get('finding') == v.get('finding')]
    if hit:
        v['input'] = dict(hit[0]['input'], shrunk_from=len(hist))
        v['expected'], v['observed'] = hit[0]['expected'], hit[0]['observed']


def object_reuse_checks(ctx):
    """State that could travel between OBJECTS rather than through one library's history: the constructors' default
    arguments, and a caller's molecule object handed in more than once."""
    import warnings
    from rdkit import Chem
    warnings.filterwarnings('ignore')
    import pgradd.ThermoChem  # noqa
    from pgradd.GroupAdd.Library import GroupLibrary
    from pgradd.GroupAdd.Scheme import GroupAdditivityScheme
    # (1) a directly constructed library merged with data-bearing libraries; libraries and schemes constructed afterwards
    #     with default arguments must be empty
    src = GroupLibrary.Load('GRWSurface2018')
    a = GroupLibrary(src.scheme)
    a.Update(src)
    b = GroupLibrary(src.scheme)
    s2 = GroupAdditivityScheme()
    ctx.case(('defaults',), None)
    ctx.count('default_argument_checks')
    leaked = {'uq_keys': sorted(b.uq_contents), 'groups': len(b.contents), 'patterns': len(s2.patterns), 'remaps': len(s2.remaps),
              'other_descriptors': len(s2.other_descriptors)}
    if any(leaked.values()):
        ctx.violation('an object constructed with default arguments holds data put into ANOTHER object earlier',
                      {'steps': ['a = GroupLibrary(scheme)', "a.Update(Load('GRWSurface2018'))", 'b = GroupLibrary(scheme)', 'GroupAdditivityScheme()']},
                      expected='empty', observed=leaked)
    # (2) the same molecule object decomposed twice, by one library and then by another: each result equals the result for
    #     the SMILES; the caller's object is not altered by a decomposition
    libs = [src, GroupLibrary.Load('BensonGA')]
    for smi in ['O=C=O', 'CC', 'C=C', 'O=C([Pt])[Pt]', '[H][H]', 'CC(=O)O']:
        for explicit in (False, True):
            m = Chem.MolFromSmiles(smi)
            if m is None:
                continue
            if explicit:
                m = Chem.AddHs(m)
            before = Chem.MolToSmiles(m), m.GetNumAtoms(), [sorted(list(a_.GetPropNames())) for a_ in m.GetAtoms()]
            for lib in libs + libs[:1]:
                def run_one(x):
                    try:
                        return {'ok': {str(k): v for k, v in lib.GetDescriptors(x).items()}}
                    except Exception as e:
                        return {'err': type(e).__name__}
                want = run_one(smi)
                got = run_one(m)
                ctx.case(('molobj', smi, explicit, id(lib)), None)
                ctx.count('molecule_object_reuse')
                if got != want:
                    ctx.violation('the descriptors of a molecule object depend on what was done with that object before',
                                  {'smiles': smi, 'explicit_hydrogens': explicit, 'library_path': lib.path}, expected=want, observed=got)
                    break
            after = Chem.MolToSmiles(m), m.GetNumAtoms(), [sorted(list(a_.GetPropNames())) for a_ in m.GetAtoms()]
            if after != before:
                ctx.violation("a decomposition altered the caller's molecule object", {'smiles': smi, 'explicit_hydrogens': explicit},
                              expected=str(before)[:200], observed=str(after)[:200])


def load_own_findings(ctx):
    """known_findings.json is assembled by the integrator (harness.mkknown) from findings/*.json; for this property's own
    findings the source file is read directly and wins (a stale assembled list must not keep a repaired finding `known`)"""
    p = os.path.join(common.VERIF, 'findings', 'C15.json')
    if os.path.exists(p):
        for e in json.load(open(p)):
            ctx.known[e['id']] = e


def run(ctx):
    rng = ctx.rng
    wk.quiet()
    load_own_findings(ctx)
    fresh = Fresh(ctx)
    U = Universe()
    # F1 probe and a first sample of true singletons (one request per fresh process)
    probe = run_workers(ctx, [[{'kind': 'probe_f1'}]])[0][0]
    f1_fixed = bool(probe['f1Fixed'])
    ctx.count('f1_fixed', 1 if f1_fixed else 0)
    # corpus first
    for fname, rec in common.load_corpus('C15'):
        ctx.count('corpus')
        replay(ctx, rec, fresh=fresh, U=U, f1_fixed=f1_fixed)
    object_reuse_checks(ctx)
    n_hist = ctx.n(int(os.environ.get('C15_N', 36)), 400)
    block = 40
    # per run (seed) a sub-universe, so that fresh results are shared between histories; the thorough tier uses everything
    if ctx.thorough():
        lib_pool, mol_pool = LIBS, MOLS
    else:
        lib_pool = rng.sample(LIBS, 4)
        mol_pool = {n: rng.sample(MOLS[n][:-2], 3) + MOLS[n][-2:-1] + ([MOLS[n][-1]] if rng.random() < 0.5 else []) for n in LIBS}
    ctx.extra.setdefault('coverage', {})['libraries_in_this_run'] = lib_pool
    done = 0
    scripted = scripted_histories(U)
    while done < n_hist and ctx.time_left() > 150:
        histories = []
        for _ in range(min(block, n_hist - done)):
            length = rng.choice([2, 3, 5, 8, 8, 12, 12, 20, 30, 40])
            gen = scripted.pop() if scripted else gen_history(rng, U, length, f1_fixed, lib_pool, mol_pool)
            import time
            t0 = time.time()
            impl = ImplRun(U)
            conc, outs = impl.run(ctx, gen, rng)
            ctx.stats['time_impl_ms'] += int(1000 * (time.time() - t0))
            link_estimates(conc, outs)
            histories.append((conc, outs))
            ctx.count('histories')
            ctx.count('history_len_%s' % ('2-5' if length <= 5 else '8-20' if length <= 20 else '30-40'))
        check_histories(ctx, histories, fresh, f1_fixed, U)
        done += len(histories)
    singleton_crosscheck(ctx, fresh)
    seen = set()
    for v in ctx.violations:
        if v['what'] not in seen and isinstance(v.get('input'), dict) and ctx.time_left() > 300:
            seen.add(v['what'])
            shrink_violation(ctx, U, fresh, f1_fixed, v)
    if not ctx.searching and not ctx.violations and not ctx.disagreements and ctx.driver_ok:
        floor = {'F26_seen': 1, 'evaluate_elemental': 6, 'evaluate_plain': 6, 'decompose_ok': 10, 'estimate_ok': 10,
                 'rejected_merges_that_left_nothing': 3, 'refused_merges_compared_with_the_unmerged_library': 3}
        for k, v in floor.items():
            if ctx.stats.get(k, 0) < v:
                raise common.MachineryError('generator reach below floor: %s = %d' % (k, ctx.stats.get(k, 0)))


def link_estimates(conc, outs):
    """record on every evaluate op which library its estimate belongs to and for which molecule it was made"""
    made = []
    for c, o in zip(conc, outs):
        if c is None:
            continue
        if c['k'] == 'estimate' and o and 'estimated' in o:
            made.append((c['lib'], None if c.get('handmade') else c['forMol']))
        if c['k'] == 'evaluate':
            c['_lib'], c['_forMol'] = made[c['est']]
    return conc


def singleton_crosscheck(ctx, fresh):
    """a sample of the batched baselines re-run one request per fresh process: batching must not matter"""
    keys = list(fresh.memo)
    ctx.rng.shuffle(keys)
    sample = keys[:ctx.n(18, 120)]
    outs = run_workers(ctx, [[json.loads(k)] for k in sample])
    bad = [(k, o[0], fresh.memo[k]) for k, o in zip(sample, outs) if o[0] != fresh.memo[k]]
    ctx.count('singleton_crosschecks', len(sample))
    if bad:
        k, single, batched = bad[0]
        ctx.violation('a result computed alone in a fresh process differs from the same request after other requests in one process',
                      {'request': json.loads(k)}, expected=single, observed=batched)
    # a difference is itself a history dependence (reported above as a violation), not a failure of the harness
    ctx.assumption_checks['batched-baselines'] = {'ok': not bad, 'detail': '%d batched fresh results re-run one per process' % len(sample)}


def strip(c):
    return {k: v for k, v in c.items() if not k.startswith('_')}


def replay(ctx, rec, fresh=None, U=None, f1_fixed=None):
    """re-run a recorded history (see `replay_input`) on the implementation against the specification"""
    inp = rec.get('input', rec)
    load_own_findings(ctx)
    # a record of a KNOWN finding (corpus) fails when the finding shows; any other record fails on a violation that is not one
    known_counts = bool(rec.get('finding') or rec.get('id'))
    tally = lambda: len(ctx.violations) + (sum(v['count'] for v in ctx.known_seen.values()) if known_counts else 0)
    before = tally()
    wk.quiet()
    if not ctx.driver_ok:
        # `--replay` does not build; the comparison needs the compiled model driver to name each operation's declared inputs
        if not os.path.exists(common.DRIVER):
            raise common.MachineryError('replaying a C15 history needs the compiled model driver: run ./check --setup first')
        ctx.driver_ok = True
    fresh = fresh or Fresh(ctx)
    if f1_fixed is None:
        f1_fixed = bool(run_workers(ctx, [[{'kind': 'probe_f1'}]])[0][0]['f1Fixed'])
    U2 = Universe()
    U2.lib_names = dict(enumerate(inp['libraries']))
    U2.lib_ids = {v: k for k, v in U2.lib_names.items()}
    for sm in inp.get('molecules', []):
        U2.mol(sm)
    for rows in inp.get('descrs', []):
        U2.descr(rows)
    impl = ImplRun(U2)
    conc, outs = impl.run(ctx, [dict(c) for c in inp['history']], ctx.rng)
    link_estimates(conc, outs)
    check_histories(ctx, [(conc, outs)], fresh, f1_fixed, U2)
    return tally() == before


LEVEL_TEXT = ('Lean 4 theorems, for every behaviour of the external components and every history of any length: the output of the '
              'last operation is the function `outOf` of its declared inputs (files; scheme and molecule; library data and mapping; '
              'data, mapping, temperature, quantity); no operation but a merge into it changes a library\'s data, and a merge that is refused '
              'changes nothing at all (it can be deleted from any history); the elemental '
              'reference uses the last molecule decomposed with the library before the estimate was made and nothing else; the '
              'statement "for the estimate\'s molecule" is refuted on the model (F26) and proved under the guard that makes it true. '
              'The model is tied to the code by running random histories on the real objects and comparing every output with a '
              'fresh-process run of the declared inputs the model names. Right level: the quantifier is over all histories.')
LEVEL_NOTE = ('Trusted: Lean kernel; standard axioms; the harness and its fresh-process runner; that the files and environment do '
              'not change during a run. Modelled, not verified: which state Load, GetDescriptors, Estimate, get_*, Update read and write '
              '(Update: refused and nothing stored, or merged — the shape the C13 model of the method is proved to have). '
              'External behaviour (YAML, RDKit, thermochemistry, merge) is a parameter of every theorem. F26 is a recorded finding '
              '(known); F1 and F12 cases are counted and not reported here.')
TECHNIQUE = 'Lean 4 proof over a hand-written state-machine model + symbolic model execution compared with fresh-process runs of the declared inputs'
