"""Histories of the public API of ThermochemIncomplete / ThermochemGroup (called from c05.py).

Theorems: lean/PGA/Props/CorrHistory.lean (HIST_*), model lean/PGA/Model/CorrHistory.lean, driver op `hist.run`.

A *history* is a plain dict {'cls': 'inc'|'grp', 'init': corr, 'ops': [op...], 'probes': [T...]} with
corr = {'H': float|None, 'S': float|None, 'cp': [[T, v]...] (dictionary order), 'Tref': float, 'range': None|[lo, hi]} and
op = {'k': 'update', 'd': corr, 'ow': bool} | {'k': 'delCp', 'T': float|None} | {'k': 'delH'} | {'k': 'delS'}
   | {'k': 'setRange', 'r': None|[lo, hi]} | {'k': 'copy'} | {'k': 'eval', 'q': 'cp'|'h'|'s'|'g', 'T': float}.

Two comparisons per history:
 (1) property oracle on the implementation alone, after every call:
     * fresh      — a new object constructed from the data the object holds gives, at the probe temperatures (and at every
                    temperature an earlier call asked about), the same outcome for every getter, the same YAML text and
                    the same presence tests                                               (HIST_invariant)
     * atomic     — a call that raised left the held data, `_correlation` and every probed outcome as they were
                    (HIST_failed_op_state)
     * pure       — a getter left everything as it was; the history with its getters deleted, and the history with every
                    getter (and YAML formatting, copying) called before every mutation, end in objects with identical
                    outcomes                                                              (HIST_eval_pure)
     * aliasing   — the object a copy was taken from and the operands of update() are not changed by later calls
     * data       — what the non-merging calls are documented to do to the held data
 (2) the same history through the model (`hist.run`): outcome class of every call, held data, presence of the table
     correlation and the four getters at the probe temperatures after every call; the interpolant enters the model as
     oracle values taken from a spline the harness builds itself from the *table* (ThermochemRawData on the sorted points),
     never from the object under test, so an interpolant that outlived its table cannot vouch for itself.
"""
import math, warnings, json, copy as _copy
from . import common
from . import lib_thermo as L

POOL = [200.0, 250.0, 298.15, 300.0, 350.0, 400.0, 450.0, 500.0, 600.0, 800.0, 1000.0, 1200.0, 1500.0]
GETTERS = ('cp', 'h', 's', 'g')


# ----------------------------------------------------------------------------- implementation side
def klass(name):
    from pgradd.ThermoChem import ThermochemIncomplete, ThermochemGroup
    return ThermochemGroup if name == 'grp' else ThermochemIncomplete


def exc_of(e):
    from pgradd.Error import OutsideCorrelationError, IncompleteDataError, ReadOnlyDataError
    for t, n in ((ReadOnlyDataError, 'readOnly'), (OutsideCorrelationError, 'outside'), (IncompleteDataError, 'incomplete'),
                 (ZeroDivisionError, 'zeroDiv'), (AssertionError, 'assertion'), (KeyError, 'key'), (ValueError, 'value'),
                 (AttributeError, 'internal')):
        if isinstance(e, t):
            return n
    return 'other:' + type(e).__name__


def build(cls, c):
    return cls(c['H'], c['S'], dict((p[0], p[1]) for p in c['cp']), c['Tref'], None if c['range'] is None else tuple(c['range']))


def held(obj):
    """the data the object holds, as a corr dict (None for a field that is not what the constructor would store)"""
    tab = getattr(obj, 'ND_Cp_data', None)
    r = obj.get_range()
    return {'H': None if obj.ND_H_ref is None else float(obj.ND_H_ref), 'S': None if obj.ND_S_ref is None else float(obj.ND_S_ref),
            'cp': None if tab is None else [[float(t), float(v)] for t, v in tab.items()],
            'Tref': float(obj.T_ref), 'range': None if r is None else [float(r[0]), float(r[1])]}


def norm_out(o):
    o = dict(o)
    if str(o.get('err', '')).startswith('internal'):
        o['err'] = 'internal'
    return o


def outcomes(obj, temps):
    return {T: {w: norm_out(L.eval_impl(obj, w, T)) for w in GETTERS} for T in temps}


def texts(obj):
    out = []
    for f in (lambda: obj.yaml_format(), lambda: obj.has_ND_Cp(), lambda: obj.has_ND_H(), lambda: obj.has_ND_S(),
              lambda: sorted(t for t in POOL if obj.has_ND_Cp(t))):
        try:
            out.append(repr(f()))
        except Exception as e:
            out.append('raises ' + exc_of(e))
    return out


def snapshot(obj, temps):
    return {'held': held(obj), 'built': hasattr(obj, '_correlation'), 'outs': outcomes(obj, temps), 'texts': texts(obj)}


def apply(cls, obj, op):
    """-> (object the history goes on with, 'done' | 'value' | 'raised:<class>', outcome of a getter or None, operand or None)"""
    k = op['k']
    operand = None
    with warnings.catch_warnings():
        warnings.simplefilter('ignore')
        try:
            if k == 'eval':
                return obj, 'value', norm_out(L.eval_impl(obj, op['q'], op['T'])), None
            if k == 'update':
                operand = build(cls, op['d'])
                obj.update(operand, overwrite=op['ow'])
            elif k == 'delCp':
                if op['T'] is None:
                    obj.del_ND_Cp()
                else:
                    obj.del_ND_Cp(op['T'])
            elif k == 'delH':
                obj.del_ND_H_ref()
            elif k == 'delS':
                obj.del_ND_S_ref()
            elif k == 'setRange':
                obj.set_range(None if op['r'] is None else tuple(op['r']))
            elif k == 'copy':
                return obj.copy(), 'done', None, None
            else:
                raise common.MachineryError('unknown op %r' % (op,))
        except common.MachineryError:
            raise
        except Exception as e:
            return obj, 'raised:' + exc_of(e), None, operand
    return obj, 'done', None, operand


def same_outs(a, b):
    """two outcome tables of the SAME computation on the same data: identical up to the last bits"""
    for T in a:
        for w in GETTERS:
            x, y = a[T][w], b[T][w]
            if x.get('warn') != y.get('warn') or x.get('err') != y.get('err'):
                return (T, w, x, y)
            if 'ok' in x and not (x['ok'] == y['ok'] or abs(x['ok'] - y['ok']) <= 1e-13 * (abs(x['ok']) + abs(y['ok']))):
                return (T, w, x, y)
    return None


def held_same(a, b):
    return a['H'] == b['H'] and a['S'] == b['S'] and a['cp'] == b['cp'] and a['Tref'] == b['Tref'] and a['range'] == b['range']


class Bad(Exception):
    def __init__(self, what, step, expected, observed):
        self.what, self.step, self.expected, self.observed = what, step, expected, observed


def temps_of(hist):
    ts = list(hist['probes'])
    for op in hist['ops']:
        if op['k'] == 'eval' and op['T'] not in ts:
            ts.append(op['T'])
    return ts


def run_impl(hist, check=True, pre_eval=False, drop_evals=False):
    """run the history on the real class; with `check`, apply the property oracle after every call (raises Bad).
    -> (records per step [{'res', 'out', 'held', 'built', 'outs'}], final object)"""
    cls = klass(hist.get('cls', 'inc'))
    temps = temps_of(hist)
    obj = build(cls, hist['init'])
    snap = snapshot(obj, temps)
    recs = [dict(snap, res='done', out=None)]
    watched = []           # (object, snapshot, why): must not change any more
    for i, op in enumerate(hist['ops']):
        if drop_evals and op['k'] == 'eval':
            continue
        if pre_eval and op['k'] != 'eval':
            L.pre_evaluate(obj, temps)
        before = snap
        obj2, res, out, operand = apply(cls, obj, op)
        if op['k'] == 'copy' and res == 'done':
            watched.append((obj, before, 'the object a copy was taken from'))
        if operand is not None:
            watched.append((operand, {'held': op_held(op['d']), 'built': None, 'outs': None, 'texts': None}, 'the operand of update()'))
        obj = obj2
        snap = snapshot(obj, temps)
        recs.append(dict(snap, res=res, out=out))
        if not check:
            continue
        step = i + 1
        h = snap['held']
        # --- data the object holds are of the kinds the constructor stores
        if h['cp'] is None:
            raise Bad('after the call the object holds no table at all (not even an empty one): copy()/update() of it raise',
                      step, 'a (possibly empty) table', 'ND_Cp_data is None')
        # --- atomic / pure
        if res.startswith('raised') or res == 'value':
            if not held_same(before['held'], h) or before['built'] != snap['built']:
                raise Bad('a call that %s changed the data the object holds' % ('raised' if res != 'value' else 'only reads'), step,
                          before['held'], h)
            d = same_outs(before['outs'], snap['outs'])
            if d or before['texts'] != snap['texts']:
                raise Bad('a call that %s changed what the object answers' % ('raised' if res != 'value' else 'only reads'), step,
                          d and d[2], d and d[3])
        # --- documented effect of the non-merging calls on the held data
        if res == 'done':
            exp = _copy.deepcopy(before['held'])
            if op['k'] == 'delH':
                exp['H'] = None
            elif op['k'] == 'delS':
                exp['S'] = None
            elif op['k'] == 'delCp':
                exp['cp'] = [] if op['T'] is None else [p for p in exp['cp'] if p[0] != op['T']]
            elif op['k'] == 'setRange':
                exp['range'] = op['r']
            if op['k'] != 'update' and not held_same(exp, h):
                raise Bad('the call did not do to the held data what it is documented to do', step, exp, h)
            if op['k'] == 'update':
                prob = update_data_problem(before['held'], op, h)
                if prob:
                    raise Bad('update() stored something else than the union it is documented to store: ' + prob, step, None, h)
            if op['k'] == 'copy' and (obj is watched[-1][0] or obj.ND_Cp_data is watched[-1][0].ND_Cp_data):
                raise Bad('copy() shares state with the object it was taken from', step, 'an independent object', 'shared')
        # --- fresh
        try:
            fresh = build(cls, h)
        except Exception as e:
            raise Bad('the constructor refuses the data the object holds after the call', step, 'constructible', exc_of(e))
        fs = snapshot(fresh, temps)
        if fs['built'] != snap['built']:
            raise Bad('presence of the table correlation differs from a freshly constructed object', step, fs['built'], snap['built'])
        d = same_outs(fs['outs'], snap['outs'])
        if d:
            raise Bad('after the history the object answers %s(%r) differently from an object freshly constructed from the data it holds'
                      % (L.GETTER[d[1]], d[0]), step, d[2], d[3])
        if fs['texts'] != snap['texts']:
            raise Bad('after the history yaml_format()/has_ND_* differ from those of an object freshly constructed from the data it holds',
                      step, fs['texts'], snap['texts'])
        # --- aliasing
        for w_obj, w_snap, why in watched:
            if w_obj is obj:
                continue
            hh = held(w_obj)
            if not held_same(w_snap['held'], hh):
                raise Bad('%s was changed by a later call on another object' % why, step, w_snap['held'], hh)
            if w_snap['outs'] is not None:
                d = same_outs(w_snap['outs'], outcomes(w_obj, temps))
                if d:
                    raise Bad('%s answers differently after a later call on another object' % why, step, d[2], d[3])
    return recs, obj


def op_held(c):
    return {'H': c['H'], 'S': c['S'], 'cp': [list(p) for p in c['cp']], 'Tref': c['Tref'], 'range': c['range']}


def update_data_problem(b, op, h):
    """what update() is documented to store (table = union, the operand's values winning; range = hull; T_ref kept;
    reference values of the operand taken over when the reference temperatures agree, kept when it has none)"""
    d = op['d']
    tab = dict((p[0], p[1]) for p in b['cp'])
    tab.update((p[0], p[1]) for p in d['cp'])
    if dict((p[0], p[1]) for p in h['cp']) != tab:
        return 'table'
    if h['Tref'] != b['Tref']:
        return 'T_ref changed'
    rs = [r for r in (b['range'], d['range']) if r is not None]
    exp_r = None if not rs else [min(r[0] for r in rs), max(r[1] for r in rs)]
    if h['range'] != exp_r:
        return 'range is %r, the hull is %r' % (h['range'], exp_r)
    for k in ('H', 'S'):
        if d[k] is None:
            if h[k] != b[k]:
                return '%s changed although the operand has none' % k
        elif d['Tref'] == b['Tref'] and not (h[k] is not None and abs(h[k] - d[k]) <= 1e-12 * max(1.0, abs(d[k]))):
            return '%s is %r, the operand has %r at the same T_ref' % (k, h[k], d[k])
        elif h[k] is None:
            return '%s missing' % k
    return None


def global_purity_problem(hist, final):
    """the history without its getters, and with everything read before every mutation, ends with the same data and answers"""
    for kw, what in (({'drop_evals': True}, 'with its getter calls deleted'),
                     ({'pre_eval': True}, 'with every getter, yaml_format() and copy() called before every mutating call')):
        recs, _ = run_impl(hist, check=False, **kw)
        if not held_same(recs[-1]['held'], final['held']):
            return Bad('the history %s ends with other held data' % what, len(hist['ops']), final['held'], recs[-1]['held'])
        d = same_outs(final['outs'], recs[-1]['outs'])
        if d:
            return Bad('the history %s ends with an object that answers %s(%r) differently' % (what, L.GETTER[d[1]], d[0]),
                       len(hist['ops']), d[2], d[3])
    return None


def problem(hist, with_global=True):
    """-> (Bad | None, records | None)"""
    try:
        recs, _ = run_impl(hist)
    except Bad as b:
        return b, None
    if with_global:
        g = global_purity_problem(hist, recs[-1])
        if g:
            return g, recs
    return None, recs


# ----------------------------------------------------------------------------- oracle values for the model
_ref = {}


def ref_rd(sorted_pts):
    """a table correlation built by the harness from exactly this (sorted) table: the source of the interpolant's values"""
    from pgradd.ThermoChem import ThermochemRawData
    key = tuple((p[0], p[1]) for p in sorted_pts)
    if key not in _ref:
        if len(_ref) > 20000:
            _ref.clear()
        _ref[key] = ThermochemRawData(0.0, 0.0, [p[0] for p in sorted_pts], [p[1] for p in sorted_pts], T_ref=sorted_pts[0][0], range=None)
    return _ref[key]


class OracleAcc:
    def __init__(self):
        self.tables = {}
        self.lg = {}

    def need(self, c, tref, T):
        """values the model may consult when a correlation with the data `c` (reference temperature `tref`) is evaluated at T"""
        if not c['cp']:
            return
        pts = sorted([list(p) for p in c['cp']], key=lambda p: p[0])
        if len(set(p[0] for p in pts)) < len(pts):
            return
        spec = {'kind': 'inc', 'href': 0.0, 'sref': 0.0, 'pts': pts, 'tref': tref, 'range': c['range']}
        try:
            orc = L.oracle_for(spec, ref_rd(pts), T, L.WHICH)
        except Exception as e:
            raise common.MachineryError('oracle values for %r: %r' % (spec, e))
        key = tuple((p[0], p[1]) for p in pts)
        t = self.tables.setdefault(key, {'val': {}, 'I': {}, 'J': {}})
        for row in orc['val']:
            t['val'][json.dumps(row[0])] = row
        for name in ('I', 'J'):
            for row in orc[name]:
                t[name][json.dumps(row[:2])] = row
        for row in orc['lg']:
            self.lg[json.dumps(row[:2])] = row

    def json(self):
        return {'tables': [{'pts': [[L.J(a), L.J(b)] for a, b in key], 'val': list(t['val'].values()), 'I': list(t['I'].values()),
                            'J': list(t['J'].values())} for key, t in self.tables.items()],
                'lg': list(self.lg.values())}


def jcorr(c):
    return {'H': None if c['H'] is None else L.J(c['H']), 'S': None if c['S'] is None else L.J(c['S']),
            'cp': [[L.J(p[0]), L.J(p[1])] for p in c['cp']], 'Tref': L.J(c['Tref']),
            'range': None if c['range'] is None else [L.J(c['range'][0]), L.J(c['range'][1])]}


def jop(op):
    k = op['k']
    if k == 'update':
        return {'k': k, 'd': jcorr(op['d']), 'ow': bool(op['ow'])}
    if k == 'delCp':
        return {'k': k, 'T': None if op['T'] is None else L.J(op['T'])}
    if k == 'setRange':
        return {'k': k, 'r': None if op['r'] is None else [L.J(op['r'][0]), L.J(op['r'][1])]}
    if k == 'eval':
        return {'k': k, 'q': op['q'], 'T': L.J(op['T'])}
    return {'k': k}


def model_request(hist, recs):
    """the request for `hist.run`; the oracle points follow the data the implementation held at each step"""
    acc = OracleAcc()
    for i, rec in enumerate(recs):
        h = rec['held']
        if h['cp'] is None:
            continue
        for T in hist['probes']:
            acc.need(h, h['Tref'], T)
        if i < len(hist['ops']):
            op = hist['ops'][i]
            if op['k'] == 'eval':
                acc.need(h, h['Tref'], op['T'])
            elif op['k'] == 'update' and (op['d']['H'] is not None or op['d']['S'] is not None):
                d = op['d']
                tab = dict((p[0], p[1]) for p in h['cp'])
                tab.update((p[0], p[1]) for p in d['cp'])
                rs = [r for r in (h['range'], d['range']) if r is not None]
                merged = {'cp': [[t, v] for t, v in tab.items()],
                          'range': None if not rs else [min(r[0] for r in rs), max(r[1] for r in rs)]}
                acc.need(merged, d['Tref'], h['Tref'])
    return {'op': 'hist.run', 'init': jcorr(hist['init']), 'ops': [jop(o) for o in hist['ops']],
            'probes': [L.J(T) for T in hist['probes']], 'oracle': acc.json()}


def spec_of_held(h):
    return {'kind': 'inc', 'href': h['H'], 'sref': h['S'], 'pts': h['cp'] or [], 'tref': h['Tref'], 'range': h['range']}


def model_held(m):
    u = lambda x: None if x is None else float(common.unjrat(x))
    return {'H': u(m['H']), 'S': u(m['S']), 'cp': [[u(p[0]), u(p[1])] for p in m['cp']], 'Tref': u(m['Tref']),
            'range': None if m['range'] is None else [u(m['range'][0]), u(m['range'][1])]}


def held_close(a, b):
    for k in ('H', 'S'):
        if (a[k] is None) != (b[k] is None) or (a[k] is not None and not common.close(a[k], b[k], 1.0)):
            return False
    return a['cp'] == b['cp'] and a['Tref'] == b['Tref'] and a['range'] == b['range']


def compare_model(ctx, hist, recs, rep):
    """first difference between the implementation's records and the model's steps (ctx.disagree), if any"""
    inp = {'history': public(hist)}
    if rep.get('mk') != 'ok':
        ctx.disagree('corr:hist.run:constructor', inp, 'ok', rep.get('mk'))
        return False
    steps = rep['steps']
    if len(steps) != len(recs):
        raise common.MachineryError('hist.run returned %d steps for %d records' % (len(steps), len(recs)))
    for i, (r, m) in enumerate(zip(recs, steps)):
        where = dict(inp, step=i)
        ctx.count('hist_model_steps')
        if r['res'] != m['res']:
            if i > 0 and isclose_boundary(hist['ops'][i - 1], recs[i - 1], r, steps[i - 1], m):
                ctx.count('hist_isclose_boundary')      # float noise decided math.isclose(rel_tol=1e-15): the histories part ways
                return True
            ctx.disagree('corr:hist.run:outcome', where, r['res'], m['res'])
            return False
        mh = model_held(m['held'])
        if r['held']['cp'] is None or not held_close(r['held'], mh):
            ctx.disagree('corr:hist.run:held', where, r['held'], mh)
            return False
        if bool(r['built']) != bool(m['built']):
            ctx.disagree('corr:hist.run:built', where, r['built'], m['built'])
            return False
        if m.get('missing'):
            raise common.MachineryError('hist.run: an oracle value the model consults is missing (step %d of %r)' % (i, public(hist)))
        spec = spec_of_held(r['held'])
        if r['res'] == 'value':
            op = hist['ops'][i - 1]
            if not L.same_outcome(r['out'], m['out'], L.scale_of(spec, op['q'], op['T'])):
                ctx.disagree('corr:hist.run:getter', where, r['out'], show(m['out']))
                return False
        for p in m['probes']:
            T = float(common.unjrat(p['T']))
            for w in GETTERS:
                ctx.count('hist_model_' + w + '_' + ('ok' if 'ok' in p[w] else p[w]['err']))
                if not L.same_outcome(r['outs'][T][w], p[w], L.scale_of(spec, w, T)):
                    ctx.disagree('corr:hist.run:' + w, dict(where, T=T), r['outs'][T][w], show(p[w]))
                    return False
    return True


def isclose_boundary(op, r0, r1, m0, m1):
    """an update accepted on one side and refused with ReadOnlyDataError on the other because the (translated) reference value
    the operand brings is within float noise (1e-9) of the one already held: update() compares them with rel_tol=1e-15, which
    the exact model and the floating-point implementation may decide differently"""
    if op['k'] != 'update' or op['ow'] or set((r1['res'], m1['res'])) != set(('done', 'raised:readOnly')):
        return False
    if r1['res'] == 'done':
        before, after = r0['held'], r1['held']
    else:
        before, after = model_held(m0['held']), model_held(m1['held'])
    ks = [k for k in ('H', 'S') if op['d'][k] is not None and before[k] is not None]
    return bool(ks) and all(after[k] is not None and common.close(after[k], before[k], 1.0) for k in ks)


def show(m):
    m = dict(m)
    if 'ok' in m:
        m['ok'] = float(common.unjrat(m['ok']))
    return m


def public(hist):
    return {k: v for k, v in hist.items() if not k.startswith('_')}


# ----------------------------------------------------------------------------- generator
def rnd_val(rng):
    return float(rng.choice([rng.randint(-6, 24) / 2.0, round(rng.uniform(-3, 12), rng.choice([1, 2, 3]))]))


def rnd_corr(rng, like=None, tref=None):
    """a constructible correlation; with `like` (held data of the target) it shares temperatures / values / T_ref with it often
    enough for the merge to meet equal and conflicting data"""
    cls = klass('inc')
    for _ in range(40):
        n = rng.choice([0, 1, 2, 2, 3, 3, 4, 5, 6]) if like is None else rng.choice([0, 0, 1, 1, 2, 3])
        ts = sorted(rng.sample(POOL, n))
        mine = dict((p[0], p[1]) for p in like['cp']) if like else {}
        cp = []
        for t in ts:
            if t in mine and rng.random() < 0.65:
                cp.append([t, mine[t]])
            else:
                cp.append([t, rnd_val(rng)])
        rng.shuffle(cp)
        if tref is not None:
            T0 = tref
        elif like is not None and rng.random() < 0.75:
            T0 = like['Tref']
        else:
            T0 = rng.choice(POOL)
        span = ts + [T0]
        kind = rng.random()
        if kind < 0.35:
            r = None
        elif kind < 0.8:
            r = [min(span) - rng.choice([0.0, 10.0, 50.0, 100.0]), max(span) + rng.choice([0.0, 10.0, 100.0, 500.0])]
        else:
            r = sorted(rng.sample(POOL, 2))
        H = None if rng.random() < (0.5 if like else 0.2) else (like['H'] if like and like['H'] is not None and rng.random() < 0.5 else round(rng.uniform(-60, 60), 2))
        S = None if rng.random() < (0.5 if like else 0.2) else (like['S'] if like and like['S'] is not None and rng.random() < 0.5 else round(rng.uniform(-10, 40), 2))
        c = {'H': H, 'S': S, 'cp': cp, 'Tref': T0, 'range': r}
        try:
            build(cls, c)
        except Exception:
            continue
        return c
    return {'H': 1.0, 'S': None, 'cp': [], 'Tref': 298.15, 'range': None}


def rnd_op(rng, h, temps):
    """one call, drawn against the data `h` the object holds now: most calls succeed, some are refused"""
    x = rng.random()
    tab = [p[0] for p in (h['cp'] or [])]
    if x < 0.30:
        return {'k': 'update', 'd': rnd_corr(rng, like=h), 'ow': rng.random() < 0.35}
    if x < 0.42:
        T = rng.choice(tab) if tab and rng.random() < 0.8 else rng.choice(POOL)
        return {'k': 'delCp', 'T': T}
    if x < 0.45:
        return {'k': 'delCp', 'T': None}
    if x < 0.50:
        return {'k': 'delH'}
    if x < 0.55:
        return {'k': 'delS'}
    if x < 0.70:
        y = rng.random()
        span = tab + [h['Tref']]
        if y < 0.15:
            r = None
        elif y < 0.6:
            r = [min(span) - rng.choice([0.0, 25.0, 100.0]), max(span) + rng.choice([0.0, 50.0, 700.0])]
        elif y < 0.9:
            r = sorted(rng.sample(POOL, 2))
        else:
            r = sorted(rng.sample(POOL, 2), reverse=True)
        return {'k': 'setRange', 'r': r}
    if x < 0.76:
        return {'k': 'copy'}
    return {'k': 'eval', 'q': rng.choice(GETTERS), 'T': rng.choice(temps + POOL[:1] + [L.between(rng, 200.0, 1500.0)])}


def gen_history(rng, length, cls='inc'):
    """ops are drawn one after the other against the data the real object holds at that point"""
    init = rnd_corr(rng)
    probes = sorted(set([init['Tref']] + rng.sample(POOL, 2) + [rng.choice([150.0, 1600.0, 325.0, 475.0, 900.0])]))
    hist = {'cls': cls, 'init': init, 'ops': [], 'probes': probes}
    k = klass(cls)
    obj = build(k, init)
    for _ in range(length):
        h = held(obj)
        if h['cp'] is None:
            h = dict(h, cp=[])
        op = rnd_op(rng, h, probes)
        hist['ops'].append(op)
        try:
            obj = apply(k, obj, op)[0]
        except Exception:
            break
    return hist


# ----------------------------------------------------------------------------- entry points
def check_history(ctx, hist, batch=None, shrink=True):
    """property oracle (+ model request into `batch`); True when nothing is wrong on the implementation side"""
    ctx.count('hist_histories')
    ctx.count('hist_len_%02d' % len(hist['ops']))
    with_global = hist.get('_global', True)
    bad, recs = problem(hist, with_global)
    if bad is not None:
        small = shrink_history(hist, with_global) if shrink else hist
        bad = problem(small, with_global)[0] or bad
        ctx.violation(bad.what, {'history': public(small), 'step': bad.step}, expected=bad.expected, observed=bad.observed,
                      finding=None)
        return False
    for r in recs[1:]:
        ctx.count('hist_res_' + r['res'])
    for op, before, after in zip(hist['ops'], recs, recs[1:]):
        ctx.count('hist_op_' + op['k'])
        if op['k'] == 'update' and (op['d']['H'] is not None or op['d']['S'] is not None) and op['d']['Tref'] != before['held']['Tref']:
            ctx.count('hist_update_other_Tref_' + after['res'])
    nontrivial = any(r['res'].startswith('raised') for r in recs) or any(op['k'] in ('update', 'delCp', 'setRange') for op in hist['ops'])
    ctx.case(('hist', len(hist['ops']), tuple(sorted(set(op['k'] for op in hist['ops']))),
              tuple(sorted(set(r['res'] for r in recs)))) if nontrivial else None,
             {'history': public(hist)} if len(ctx.samples) < 14 else None)
    if batch is not None:
        batch.append((model_request(hist, recs), recs, hist))
    return True


def shrink_history(hist, with_global=True):
    fails = lambda h: problem(h, with_global)[0] is not None
    small = hist
    if len(hist['ops']) >= 2:
        small = dict(hist, ops=common.shrink_list(hist['ops'], lambda sub: fails(dict(hist, ops=sub)), max_steps=150))
    if len(hist['probes']) >= 2:
        small = dict(small, probes=common.shrink_list(small['probes'], lambda sub: fails(dict(small, probes=sub)), max_steps=30))
    return small


def compare_batch(ctx, batch):
    if not batch:
        return
    replies = ctx.model([b[0] for b in batch])
    if replies is None:
        return
    for (req, recs, hist), rep in zip(batch, replies):
        ctx.count('hist_model_requests')
        compare_model(ctx, hist, recs, rep)


def scripted(rng):
    """histories every run makes: one per way a remembered thing could outlive its data"""
    A = {'H': -12.5, 'S': 30.25, 'cp': [[300.0, 3.0], [500.0, 5.5], [400.0, 4.25], [800.0, 7.0]], 'Tref': 298.15, 'range': [200.0, 1500.0]}
    B = {'H': 4.0, 'S': None, 'cp': [[400.0, 6.0], [600.0, 6.5]], 'Tref': 298.15, 'range': [250.0, 1600.0]}
    C = {'H': None, 'S': 11.0, 'cp': [[1000.0, 9.0]], 'Tref': 400.0, 'range': [300.0, 1200.0]}
    probes = [298.15, 350.0, 450.0, 700.0, 1550.0]
    ev = [{'k': 'eval', 'q': q, 'T': T} for T in (350.0, 450.0) for q in GETTERS]
    out = []
    for name, ops in (
            ('update-overwrite', ev + [{'k': 'update', 'd': B, 'ow': True}] + ev),
            ('update-other-Tref', ev + [{'k': 'update', 'd': C, 'ow': True}] + ev),
            ('refused-update', ev + [{'k': 'update', 'd': B, 'ow': False}] + ev),
            ('del-point', ev + [{'k': 'delCp', 'T': 400.0}] + ev + [{'k': 'delCp', 'T': 401.0}] + ev),
            ('del-all', ev + [{'k': 'delCp', 'T': None}] + ev + [{'k': 'copy'}, {'k': 'update', 'd': B, 'ow': False}] + ev),
            ('set-range', ev + [{'k': 'setRange', 'r': [290.0, 900.0]}] + ev + [{'k': 'setRange', 'r': [350.0, 900.0]}] + ev
             + [{'k': 'setRange', 'r': [900.0, 290.0]}] + ev + [{'k': 'setRange', 'r': None}] + ev),
            ('del-refs', ev + [{'k': 'delH'}, {'k': 'setRange', 'r': [100.0, 2000.0]}] + ev + [{'k': 'delS'}] + ev
             + [{'k': 'update', 'd': B, 'ow': True}] + ev),
            ('copy-then-change', ev + [{'k': 'copy'}, {'k': 'delCp', 'T': 500.0}, {'k': 'delH'}] + ev)):
        out.append({'cls': rng.choice(['inc', 'grp']), 'init': A, 'ops': ops, 'probes': probes, 'name': name})
    # a withdrawal that must be refused: the remaining table no longer contains T_ref (no declared range)
    out.append({'cls': 'inc', 'init': {'H': 1.0, 'S': 2.0, 'cp': [[300.0, 1.0], [400.0, 2.0], [500.0, 3.0]], 'Tref': 450.0, 'range': None},
                'ops': ev + [{'k': 'delCp', 'T': 500.0}] + ev + [{'k': 'delCp', 'T': 300.0}] + ev, 'probes': [350.0, 450.0, 480.0], 'name': 'refused-del-point'})
    # a reversed range on a correlation without a table
    out.append({'cls': 'inc', 'init': {'H': 1.0, 'S': 2.0, 'cp': [], 'Tref': 350.0, 'range': [200.0, 600.0]},
                'ops': [{'k': 'setRange', 'r': [600.0, 200.0]}, {'k': 'copy'}, {'k': 'eval', 'q': 'h', 'T': 350.0}], 'probes': [350.0, 700.0], 'name': 'reversed-range'})
    return out


def run(ctx, n_random, max_len):
    batch = []
    rng = ctx.rng
    for hist in scripted(rng):
        ctx.count('hist_scripted')
        check_history(ctx, hist, batch)
    for i in range(n_random):
        length = rng.randint(1, max_len)
        hist = gen_history(rng, length, cls=rng.choice(['inc', 'grp']))
        hist['_global'] = (i % 3 == 0)
        check_history(ctx, hist, batch)
        if ctx.time_left() < 120:
            raise common.MachineryError('time budget exhausted in the history check')
    compare_batch(ctx, batch)


def replay(ctx, inp):
    """re-run a recorded history on the implementation against the property oracle"""
    hist = dict(inp['history'])
    before = len(ctx.violations)
    check_history(ctx, hist, None, shrink=False)
    return len(ctx.violations) == before
