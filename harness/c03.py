"""C03 — descriptors do not depend on how the molecule is written.

Proof: lean/PGA/Props/C03.lean — (above the matcher) the decomposition is invariant under any renumbering of the atoms
(match lists transported as *sets*, neighbour lists as multisets), for every size; (perception) the Benson model
`aromatizeBenson` is invariant under rotation/reflection of every ring's atom list, under the ORDER of the ring list when
no two eligible rings share a bond (`_partial`; the full statement is refuted in Lean on 1-methylnaphthalene = finding F3),
and commutes with a renumbering; (end to end) every predicate of `Spec.Embeds` is transported by a renumbering of the graph
and `decompose S` gives the same result on a renumbered graph (`C03_decompose_relabel`).
Oracle (relational): the implementation compared with itself on equivalent inputs.  Tie: the model run on each
spelling's own graph against the implementation on that spelling.
"""
import itertools, json, collections
from rdkit import Chem
from . import common, lib_scheme as S, lib_molgen as G, lib_pipeline as P

PROPS = ['PGA.Props.C03', 'PGA.Props.Pipeline']
GEN = ['Chars', 'MolQuery']
OBLIGATIONS = ['PGA.Scheme.' + t for t in [
    'C03_cnt_relabel', 'C03_centres_relabel', 'C03_groupName_relabel', 'C03_groupCount_relabel',
    'C03_distinctSets_relabel', 'C03_remap_depends_on_counts_only', 'C03_descriptors_relabel']] + ['PGA.C03.' + t for t in [
    'C03_aromatize_ring_equiv', 'C03_aromatize_rings_equiv', 'C03_aromatize_rotation_reflection',
    'C03_aromatize_order_partial', 'C03_aromatize_order_full_fails', 'C03_aromatize_update_literal', 'C03_aromatize_relabel', 'C03_relabel_wf', 'C03_embeds_relabel',
    'C03_decompose_relabel', 'C03_embeds_ring_presentation', 'C03_decompose_ring_presentation_partial',
    'C03_decompose_ring_presentation_full_fails']] + ['PGA.Pipeline.' + t for t in P.OBLIGATIONS_C03]
RULE = ('cases = (scheme, molecule, spelling): every molecule of the fixed pools and grown molecules, each written in several '
        'ways (random atom order incl. branch order and ring-closure choices, explicit vs implicit H, Kekule vs aromatic, '
        'molecule object vs SMILES; all atom permutations for <= 5 heavy atoms in the thorough tier), for the nine shipped '
        'schemes. distinct = distinct (scheme, spelling); non-trivial = spelling differs from the canonical one. '
        'Pipeline step (C03 ∘ C01, C19 ∘ C14/C01): for a bounded number of (molecule, spelling) pairs per library with equal descriptors the whole call '
        'chain lib.Estimate(lib.GetDescriptors(x), "thermochem") is compared at three temperatures; the mapping is re-keyed (Group objects parsed from '
        'other spellings, library key objects, reversed order, zero-count paddings); every entry of every library file is looked up under other '
        'spellings; each library is reloaded from files whose group names are respelled.')
ASSUMPTIONS = ['A-graph: isomorphic inputs give isomorphic RDKit graphs with the same ring set (ring ORDER may differ: see F3)']
TRUSTED = ['RDKit writes/reads the alternative spellings (RenumberAtoms, MolToSmiles canonical=False)']


def fused_c6(smi):
    """two all-carbon six-membered rings that share a bond, both aromatic to RDKit (class of inputs of finding F3)"""
    m = Chem.MolFromSmiles(smi)
    if m is None:
        return False
    rings = [set(r) for r in Chem.GetSymmSSSR(m) if len(r) == 6 and all(m.GetAtomWithIdx(i).GetSymbol() == 'C' for i in r)]
    for a, b in itertools.combinations(rings, 2):
        if len(a & b) >= 2:
            return True
    return False


def explained_by_own_ring_order(lib, spelling, impl):
    """the implementation's answer for this spelling equals the declared decomposition of this spelling's own graph
    (with RDKit's ring order for it)"""
    mol = S.prepare(spelling)
    if mol is None:
        return False
    spec = S.declared(S.scheme_input(lib.scheme, mol))
    if 'err' in spec or 'err' in impl:
        return spec.get('err') == impl.get('err')
    return S.same_counts(impl['ok'], spec['ok'])


def compare(ctx, name, lib, base_smi, base, other, other_res, form):
    same = (base == other_res) if ('err' in base or 'err' in other_res) else S.same_counts(base['ok'], other_res['ok'])
    if same:
        return
    ka, kb = S.graph_key(base_smi), S.graph_key(other)
    if ka is None or kb is None or ka != kb:
        ctx.count('not_equivalent_for_rdkit')
        ctx.extra.setdefault('coverage', {}).setdefault('not_equivalent_examples', [])
        if len(ctx.extra['coverage']['not_equivalent_examples']) < 8:
            ctx.extra['coverage']['not_equivalent_examples'].append([base_smi, other if isinstance(other, str) else 'mol:' + Chem.MolToSmiles(other)])
        # A-graph does not hold for this pair: not two spellings of one molecule
        return
    inp = {'scheme': name, 'smiles': base_smi, 'other': other if isinstance(other, str) else Chem.MolToSmiles(other), 'form': form}
    finding = None
    if fused_c6(base_smi) and explained_by_own_ring_order(lib, base_smi, base) \
            and explained_by_own_ring_order(lib, other, other_res):
        finding = 'F3'
    ctx.violation('equivalent inputs give different descriptors', inp, base, other_res, finding=finding)


AROM_POOL = ['c1ccccc1', 'Cc1ccccc1', 'c1ccc2ccccc2c1', 'Cc1cccc2ccccc12', 'c1ccc2c(C)cccc2c1', 'c1ccc2cc3ccccc3cc2c1',
             'c1ccc2c(c1)ccc1ccccc12', 'c1ccc(cc1)c1ccccc1', 'C1=CC=CC=C1C1=CC=CC=C1', 'c1ccc2c(c1)CCC2', 'c1ccc2c(c1)CCCC2',
             'C1=CC=CCC1', 'C1=CCC=CC1', 'c1ccncc1', 'c1ccc2ncccc2c1', 'Oc1ccccc1', 'C1CCCCC1', 'c1cc2cccc3ccc4cccc1c4c32',
             'C1=CC2=CC=CC=C2C=C1', 'C1=CC=C2C=CC=CC2=C1', 'c1ccc2[nH]ccc2c1', 'O=C1C=CC(=O)C=C1', 'C1=CC=C[CH]C1', '[CH2]c1ccccc1',
             'c1ccc2c(c1)oc1ccccc12', 'C1=CC=C(C=C1)[Pt]', 'c1ccccc1O~[Pt]',
             'C1=CC=CC=CC1', 'C1=CC=CC=CC=C1', 'c1ccc2cccc2cc1', 'C1=CC=CCC=C1', 'C1=CC=CC=CC=CC=C1']


def aromatize_tie(ctx, spellings):
    """The implementation's `_aromatization_Benson` called directly on the raw graph of each spelling vs the Lean model
    `aromatizeBenson` (`c03.aromatize`): aromatic flags and bond kinds, plus which rings the model finds eligible."""
    from pgradd.GroupAdd import Scheme as M
    from . import lib_mol
    reqs, meta = [], []
    for sp in spellings:
        mol = S.prepare(sp, aromatize=False)
        if mol is None:
            continue
        try:
            g = lib_mol.mol_to_json(mol)
            M._aromatization_Benson(mol)
            g2 = lib_mol.mol_to_json(mol)
        except lib_mol.UnsupportedGraph:
            continue
        except Exception as e:
            ctx.violation('the aromatic perception escapes with an exception', {'smiles': sp}, None, type(e).__name__)
            continue
        if g2['rings'] != g['rings']:
            raise common.MachineryError('A-graph: ring list changes during the perception for %r' % sp)
        reqs.append({'op': 'c03.aromatize', 'mol': g})
        meta.append((sp, {'arom': [a[3] for a in g2['atoms']], 'kinds': [b[2] for b in g2['bonds']]}))
    replies = ctx.model(reqs)
    if replies is None:
        return
    for (sp, impl), rep in zip(meta, replies):
        ctx.count('corr_c03.aromatize')
        ctx.count('aromatize_eligible_rings_%d' % sum(rep['eligible']))
        if sum(rep['eligible']) >= 2:
            # guard of C03_aromatize_order_partial on graphs where the ring order could matter
            ctx.count('aromatize_order_guard_%s' % ('holds' if rep['disjoint'] else 'fails(F3 class)'))
        if not (rep['wf'] and rep['bonded']):
            raise common.MachineryError('A-graph: ill-formed graph for %r' % sp)
        if impl['arom'] != rep['arom'] or impl['kinds'] != rep['kinds']:
            ctx.disagree('corr:c03.aromatize', {'smiles': sp}, impl, {'arom': rep['arom'], 'kinds': rep['kinds']})


def high_index_spellings(ctx, libs_):
    """the same molecule written with its distinguishing part first and last in a chain of more than 256 heavy atoms: atom
    indices beyond the interpreter's small-integer cache (an identity comparison of indices shows there).  Implementation
    only (the relational oracle); the compiled model is not run on these sizes in the quick tier."""
    n = 262
    pairs = [('C' * n + 'C1CC1', 'C1CC1' + 'C' * n), ('C' * n + '/C=C\\C', 'C/C=C\\' + 'C' * (n + 1)),
             ('C' * n + 'C(C)(C)C(C)(C)C', 'CC(C)(C)C(C)(C)' + 'C' * (n + 1)), ('C' * n + 'OCOC', 'COCO' + 'C' * (n + 1))]
    for name, lib in libs_:
        if name not in ('BensonGA', 'GRWSurface2018', 'XieGA2022'):
            continue
        for a, b in pairs:
            ra, rb = S.impl_descriptors(lib, a), S.impl_descriptors(lib, b)
            ctx.count('high_index_spellings')
            ctx.case((name, 'high-index', a[-8:]), None)
            compare(ctx, name, lib, a, ra, b, rb, 'feature beyond atom index 256')


def run(ctx):
    rng = ctx.rng
    libs_ = S.load_schemes()
    arom = []
    for smi in AROM_POOL + G.FIXED_GAS[:60] + [G.gen_smiles(rng, 'gas', 12) for _ in range(ctx.n(40, 600))]:
        arom.append(smi)
        arom.extend(G.spellings(rng, smi, ctx.n(4, 12)))
    aromatize_tie(ctx, arom)
    for fname, rec in common.load_corpus('C03'):
        ctx.count('corpus')
        replay(ctx, rec)
    batch = []
    high_index_spellings(ctx, libs_)

    def chain_witness(name, lib, k, t, ab, ba, a, b):
        compare(ctx, name, lib, ab, S.impl_descriptors(lib, ab), ba, S.impl_descriptors(lib, ba), 'components in the other order')
        for x in (a, b, ab):       # and every spelling of the parts and of the mixture
            base = S.impl_descriptors(lib, x)
            for sp in G.spellings(rng, x, 6):
                compare(ctx, name, lib, x, base, sp, S.impl_descriptors(lib, sp), 'spelling')
    S.chain_free_hypothesis(ctx, libs_, chain_witness)
    full = S.FullTie(ctx, max_cases=ctx.n(250, 3000))      # per library
    pipe = P.PipeTie(ctx, max_cases=ctx.n(40, 500))        # per library: the composed pipeline (decompose, then estimate)
    pipe.steps = collections.Counter()
    P.load_keys_tie(ctx, rng, ctx.n(60, 600))
    for name, lib in libs_:
        kind = 'gas' if name in ('BensonGA', 'PPY') else 'surface'
        mols = list(G.FIXED_GAS if kind == 'gas' else G.FIXED_SURFACE + G.FIXED_GAS[:20])
        for _ in range(ctx.n(25, 400)):
            mols.append(G.gen_smiles(rng, kind, rng.choice([3, 5, 8, 12])))
        for smi in mols:
            if ctx.time_left() < 60:
                break
            base = S.impl_descriptors(lib, smi)
            ctx.case(None)
            ctx.count('molecules')
            if base.get('err', '').startswith('internal'):
                ctx.violation('decomposition escapes with an unrelated exception', {'scheme': name, 'smiles': smi}, None, base)
                continue
            # (a) other spellings
            n_pipe = 0
            for sp in G.spellings(rng, smi, ctx.n(5, 20)):
                if sp == smi:
                    continue
                r = S.impl_descriptors(lib, sp)
                ctx.case((name, sp), {'scheme': name, 'smiles': smi, 'spelling': sp})
                ctx.count('spellings')
                compare(ctx, name, lib, smi, base, sp, r, 'spelling')
                # tie: model on this spelling's own graph
                mol = S.prepare(sp)
                if mol is not None and len(batch) < ctx.n(600, 6000):
                    batch.append((S.scheme_input(lib.scheme, mol), r, {'scheme': name, 'smiles': sp}))
                # second tie: the end-to-end model on this spelling's own raw graph (its own atom numbering and ring order)
                if not r.get('err', '').startswith('internal'):
                    full.add(lib, sp, r, {'scheme': name, 'smiles': sp}, S.impl_atoms(lib) if 'ok' in r else None,
                             S.hook_graph(lib) if 'ok' in r else None)
                # third tie and the composition oracles (after the hook of this spelling's decomposition was read)
                if n_pipe < 2 and 'ok' in base and 'ok' in r and S.same_counts(base['ok'], r['ok']):
                    n_pipe += pipeline_step(ctx, name, lib, smi, sp, pipe, first=(n_pipe == 0))
            # (b) molecule object vs SMILES
            m = Chem.MolFromSmiles(smi)
            if m is not None:
                r = S.impl_descriptors(lib, m)
                ctx.case((name, smi, 'mol'), None)
                ctx.count('mol_objects')
                compare(ctx, name, lib, smi, base, m, r, 'mol')
                # the same molecule OBJECT again (the first call must not have altered the caller's object), and an object
                # that already carries its hydrogens explicitly (nothing left for AddHs to add), twice
                r_again = S.impl_descriptors(lib, m)
                ctx.case((name, smi, 'mol-again'), None)
                compare(ctx, name, lib, smi, base, m, r_again, 'mol-second-call')
                try:
                    mh = Chem.AddHs(Chem.MolFromSmiles(smi))
                except Exception:
                    mh = None
                if mh is not None:
                    for tag in ('mol-explicit-H', 'mol-explicit-H-second-call'):
                        rh = S.impl_descriptors(lib, mh)
                        ctx.case((name, smi, tag), None)
                        ctx.count('mol_explicit_h')
                        compare(ctx, name, lib, smi, base, mh, rh, tag)
                # where do the relabelling theorems literally apply?  (measurement, reported in the evidence)
                rel = S.renumbering_relation(rng, smi)
                if rel is not None:
                    ctx.count('renumbered_graph_is_' + rel)
                # (c) renumbered molecule objects
                m2, s2 = G.renumbered(rng, smi)
                r2 = S.impl_descriptors(lib, m2)
                ctx.case((name, s2, 'mol-renumbered'), None)
                compare(ctx, name, lib, smi, base, m2, r2, 'mol-renumbered')
                if not r2.get('err', '').startswith('internal'):
                    full.add(lib, m2, r2, {'scheme': name, 'smiles': s2, 'form': 'mol-renumbered'},
                             S.impl_atoms(lib) if 'ok' in r2 else None, S.hook_graph(lib) if 'ok' in r2 else None)
                # (d) all permutations for small molecules
                nh = m.GetNumAtoms()
                if ctx.thorough() and 2 <= nh <= 5:
                    for perm in itertools.permutations(range(nh)):
                        mp = Chem.RenumberAtoms(m, list(perm))
                        sp = Chem.MolToSmiles(mp, canonical=False)
                        r = S.impl_descriptors(lib, sp)
                        ctx.case((name, sp), None)
                        ctx.count('permutations')
                        compare(ctx, name, lib, smi, base, sp, r, 'permutation')
        full.run()
        pipe.run()
        # C19 ∘ C14: the spelling of group names in the library's files
        if ctx.time_left() > 90:
            P.entry_lookup_oracle(ctx, name, lib, rng.randrange(2 ** 32))
            P.scheme_names_oracle(ctx, name, lib)
            sample = [x for (n_, x), o in pipe.memo.items() if n_ == name and 'ok' in o]
            rng.shuffle(sample)
            P.library_spelling_oracle(ctx, name, lib, rng.randrange(2 ** 32), sample[:ctx.n(4, 40)], pipe.open(name, lib)[1])
    full.run()
    pipe.run()
    replies = ctx.model([b[0] for b in batch])
    if replies is not None:
        for (req, impl, where), rep in zip(batch, replies):
            ctx.count('corr_c02.descriptors')
            if 'err' in rep or 'err' in impl:
                if rep.get('err') != impl.get('err'):
                    ctx.disagree('corr:c02.descriptors', where, impl, rep)
                continue
            model = {k: common.unjrat(v) for k, v in rep['ok']}
            if not S.same_counts(impl['ok'], model):
                ctx.disagree('corr:c02.descriptors', where, impl['ok'], {k: float(v) for k, v in model.items()})


def pipeline_step(ctx, name, lib, smi, sp, pipe, first=True):
    """C03 ∘ C01 and C19 ∘ C01: the user's call chain `lib.Estimate(lib.GetDescriptors(x), 'thermochem')` on two spellings of one
    molecule whose descriptors agree (the dicts may list them in different orders) gives the same outcome — error class, missing
    descriptors, range, H/RT, Cp/R, S/R, G/RT at the library's temperatures, x'Mx; the same with the mapping re-keyed by `Group`
    objects parsed from other spellings of the group names; each spelling also goes to the composed Lean model."""
    if ctx.time_left() < 90 or not isinstance(sp, str) or pipe.steps[name] >= ctx.n(45, 600):
        return 0
    pipe.steps[name] += 1
    info, Ts, _ = pipe.open(name, lib)
    base = pipe.add(name, lib, smi)
    other = pipe.add(name, lib, sp)
    P.equiv_oracle(ctx, name, info, smi, base, sp, other, Ts)
    P.sum_oracle(ctx, name, info, smi, base, Ts)
    if first and pipe.steps[name] % 2 == 1:
        P.respell_oracle(ctx, name, info, smi, base, Ts, ctx.rng.randrange(2 ** 32))
    return 1


def replay(ctx, rec):
    r = P.replay_record(ctx, rec)
    if r is not None:
        return r
    inp = rec.get('input', rec)
    before = len(ctx.violations) + sum(k['count'] for k in ctx.known_seen.values())
    libs_ = dict(S.load_schemes())
    lib = libs_[inp['scheme']]
    base = S.impl_descriptors(lib, inp['smiles'])
    if inp.get('form') == 'mol':
        other = Chem.MolFromSmiles(inp['smiles'])
    else:
        other = inp.get('other', inp['smiles'])
    r = S.impl_descriptors(lib, other)
    if r.get('err', '').startswith('internal'):
        ctx.violation('decomposition escapes with an unrelated exception', inp, None, r)
    compare(ctx, inp['scheme'], lib, inp['smiles'], base, other, r, inp.get('form', 'spelling'))
    return len(ctx.violations) + sum(k['count'] for k in ctx.known_seen.values()) == before


LEVEL_TEXT = ('Lean 4 theorems: for every renumbering of the atoms of a graph (any bijection, any size; bonds listed in any order, rings in the same order) '
              'the end-to-end model decompose (Benson perception, reader, matcher, decomposition) returns the same count for every name and fails in the same '
              'cases (C03_decompose_relabel) — through: every atom/bond/constraint/stereo/molecule predicate of the embedding relation is invariant '
              '(C03_embeds_relabel), the perception commutes with the renumbering (C03_aromatize_relabel), the decomposition above the matcher depends on '
              'match sets and neighbour multisets only (C03_descriptors_relabel, C19). The perception is invariant under rotation/reflection of ring atom lists '
              'and under the order of the ring list when no two eligible rings share a bond (C03_aromatize_order_partial). The implementation is compared with '
              'itself on equivalent spellings (relational oracle), with the end-to-end model on every spelling\'s own graph, and its perception with the model directly. '
              'Composition (Props/Pipeline.lean): the composed model pipeline = estimate ∘ decompose has the same outcome — failure stage, missing descriptors, range, '
              'Cp/R, H/RT, S/R at every temperature, x\'Mx, and H, G, S, Cp in every unit — on a renumbered graph (PIPE_relabel_invariant, PIPE_relabel_quadratic, '
              'PIPE_dimensional_relabel) and under another presentation of bond-disjoint eligible rings (PIPE_ring_presentation_invariant_partial); the spelling of a group '
              'name in a library file does not matter (PIPE_spelling_independent, PIPE_spelling_lookup), the spelling of a string key does (PIPE_spelling_raw_string_full_fails).')
LEVEL_NOTE = ('Trusted: Lean kernel, standard axioms, RDKit for producing equivalent spellings and graphs (A-graph). Partial: invariance of the '
              'Benson aromatic perception under ring ORDER is false of the code for fused rings (F3, recorded; refuted in Lean at the 1-methylnaphthalene graph); '
              'rotation/reflection of a ring, ring order for bond-disjoint eligible rings, and renumbering are proved. Hypotheses of the end-to-end theorem: well-formed '
              'graph, no `*` (FM1), candidate counts below the cap (F30), chain-free remaps.')
TECHNIQUE = 'Lean 4 proof (relabelling invariance of the decomposition model) + relational differential run of the implementation on equivalent inputs'
