"""Molecule generators for the matcher-level checks (C08; reusable by C02-C04, C16).

`small_molecules(max_heavy)`: every sanitizable molecule with up to `max_heavy` heavy atoms over C/O/N, every
connected skeleton (paths, star, triangle, square, triangle with a pendant atom), bond orders 1-3, and at most one
atom carrying a charge or radical electrons (+, -, one or two radical electrons); hydrogens fill the valences.
`special_molecules()`: aromatic, metal (Pt/Ru), zero-order / dative / quadruple bonds, stereo double bonds, ions,
polycycles.  `prepare(mol, how)`: the ways the package hands a molecule to the matcher ('smiles': as parsed;
'lib': Scheme.GetDescriptors' route: AddHs, Kekulize, UNSPECIFIED->ZERO, Benson C6 aromatisation)."""
import itertools
from rdkit import Chem

BASE_VALENCE = {6: 4, 7: 3, 8: 2}
STATES = [(0, 0), (1, 0), (-1, 0), (0, 1), (0, 2)]


def eff_valence(z, charge, rad):
    v = BASE_VALENCE[z]
    if z == 6:
        v -= abs(charge)
    elif charge == 1:
        v += 1
    elif charge == -1:
        v -= 1
    return v - rad


def skeletons(n):
    """connected simple graphs on n <= 4 nodes used as heavy-atom skeletons"""
    if n == 1:
        return [[]]
    if n == 2:
        return [[(0, 1)]]
    if n == 3:
        return [[(0, 1), (1, 2)], [(0, 1), (1, 2), (0, 2)]]
    return [[(0, 1), (1, 2), (2, 3)], [(0, 1), (0, 2), (0, 3)], [(0, 1), (1, 2), (2, 3), (0, 3)],
            [(0, 1), (1, 2), (0, 2), (2, 3)]]


def build(zs, edges, orders, states):
    rw = Chem.RWMol(Chem.Mol())
    deg = [0] * len(zs)
    for (a, b), o in zip(edges, orders):
        deg[a] += o
        deg[b] += o
    for z, (c, r), d in zip(zs, states, deg):
        h = eff_valence(z, c, r) - d
        if h < 0:
            return None
        at = Chem.Atom(z)
        at.SetFormalCharge(c)
        at.SetNumRadicalElectrons(r)
        at.SetNumExplicitHs(h)
        at.SetNoImplicit(True)
        rw.AddAtom(at)
    bt = {1: Chem.BondType.SINGLE, 2: Chem.BondType.DOUBLE, 3: Chem.BondType.TRIPLE}
    for (a, b), o in zip(edges, orders):
        rw.AddBond(a, b, bt[o])
    m = rw.GetMol()
    try:
        Chem.SanitizeMol(m)
    except Exception:
        return None
    return m


def small_molecules(max_heavy=3, two_states=False):
    seen, out = set(), []
    for n in range(1, max_heavy + 1):
        for edges in skeletons(n):
            cyc = len(edges) >= n
            for zs in itertools.product((6, 8, 7), repeat=n):
                for orders in itertools.product((1, 2, 3), repeat=len(edges)):
                    if cyc and max(orders, default=1) > 2:
                        continue
                    state_sets = [[(0, 0)] * n]
                    for i in range(n):
                        for st in STATES[1:]:
                            s = [(0, 0)] * n
                            s[i] = st
                            state_sets.append(s)
                    if two_states and n >= 2:
                        s = [(0, 0)] * n
                        s[0], s[-1] = (1, 0), (-1, 0)
                        state_sets.append(s)
                        s = [(0, 0)] * n
                        s[0], s[-1] = (0, 1), (0, 1)
                        state_sets.append(s)
                    for states in state_sets:
                        m = build(zs, edges, orders, states)
                        if m is None:
                            continue
                        smi = Chem.MolToSmiles(m)
                        if smi in seen:
                            continue
                        seen.add(smi)
                        out.append((smi, m))
    return out


SPECIAL = [
    # aromatic and partly aromatic
    'c1ccccc1', 'Cc1ccccc1', 'c1ccncc1', 'c1ccoc1', 'Oc1ccccc1', 'c1ccc2ccccc2c1', 'C1=CC=CC=C1', 'c1ccc(cc1)C=C',
    '[O-]c1ccccc1', 'c1cc[nH]c1', 'C1=CCC=CC1', 'c1ccc2c(c1)CCC2', '[CH2]c1ccccc1',
    # metals / adsorbates
    '[Pt]', '[H][Pt]', 'C[Pt]', 'O[Pt]', 'N[Pt]', 'C([Pt])[Pt]', 'C=C[Pt]', '[Pt]CC[Pt]', 'O=C[Pt]', '[Pt][Pt]',
    'C([Pt])([Pt])[Pt]', 'OC(=O)C[Pt]', '[Pt]C(=O)O[Pt]', 'C[Ru]', '[Ru]=C', 'C#[Pt]', '[Pt]C1CC1', 'C1C([Pt])C1[Pt]',
    '[Ru]$[Ru]', 'C(=O)([Pt])[Pt]', '[Pt]OO[Pt]',
    # ions, radicals, zwitterions
    '[NH4+]', '[OH-]', '[H+]', '[CH3+]', '[CH3-]', '[CH3]', '[CH2]', '[CH]', '[OH]', '[O]', '[NH2]', 'C[NH3+]', 'CC(=O)[O-]',
    '[NH3+]CC(=O)[O-]', '[O-][N+](=O)C', 'C[N+](C)(C)C', '[CH2+][CH2]', '[O-][O+]=O', 'C[O+](C)C', '[H][H]', '[H]',
    '[OH2+]', 'C[OH+]', '[NH3+]', 'C[NH2+]', '[O-]', '[CH2-]', 'C[CH-]', 'C[N-]', 'C=C[CH-]', '[CH2+]C[O]',
    'C=[O+][CH2-]', '[CH2-]C=C', 'C[C+](C)C', '[C-]#[O+]', '[Mg+2]', '[O-]CC[O-]', '[NH3+]CC[NH3+]', '[CH2]C[CH2]',
    # rings: fused, spiro, bridged, small
    'C1CC1', 'C1CCC1', 'C1CCCC1', 'C1CCCCC1', 'C1CC2CC12', 'C1CC2CCC1C2', 'C1CC11CC1', 'C1CCC2CCCCC2C1', 'C1=CC1', 'C1OC1',
    'C1CO1', 'C1CN1', 'O=C1CCC1', 'C1CC2C1C2', 'C12C3C1C23', 'C1CCC2(CC1)CC2', 'C1CC1C1CC1', 'CC1CCC1C', 'C1COCCO1',
    'C1=CCCC=C1', 'C1CC=CC1', 'C1C2CC3CC1CC(C2)C3',
    # stereo double bonds
    'C/C=C/C', 'C/C=C\\C', 'CC=CC', 'F/C=C/F', 'F/C=C\\F', 'C/C=C/C=C/C', 'C/C(O)=C/C', 'OC/C=C\\CO', 'C/C=C(/C)O', 'C/C=N/O',
    # functional groups, multiple bonds, heteroatoms, halogens, out of vocabulary
    'CC', 'CCC', 'C=C', 'C#C', 'C=C=C', 'C=CC=C', 'CC#N', 'CO', 'C=O', 'CC(=O)O', 'CC(=O)OC', 'COC', 'CCN', 'CS', 'CSC', 'CP',
    'CCl', 'C[Si](C)(C)C', 'FC(F)F', 'OO', 'NN', 'N#N', 'O=C=O', 'CC(C)(C)C', 'CC(C)C(C)C', 'OCC(O)CO', 'O=CC=O', 'CC(=O)C',
    # boundaries of the element classes: Z = 0 (dummy), 2, 18, 19, 20, 21
    '*C', '[He]', '[Ar]', '[K]', 'O[K]', '[Ca]', 'C[Ca]C', '[Sc]', '[Li]C', '[Na+]', '[Br-]', '[F-]',
    'C=CC#C', 'CC=C', 'OS(=O)(=O)O', 'OP(O)(O)=O', 'CC(N)C(=O)O', 'C(=O)N', 'CBr', 'CI', 'CB(O)O', 'O', 'N', 'C', 'S', 'P',
]


def special_molecules():
    out = []
    for s in SPECIAL:
        m = Chem.MolFromSmiles(s)
        if m is not None:
            out.append((s, m))
    # bond types SMILES cannot write: zero-order, dative and OTHER bonds between an adsorbate and the metal
    for s, (i, j), bt in [('C[Pt]', (0, 1), Chem.BondType.ZERO), ('O[Pt]', (0, 1), Chem.BondType.DATIVE),
                          ('C=C[Pt]', (1, 2), Chem.BondType.ZERO), ('N[Pt]', (0, 1), Chem.BondType.OTHER),
                          ('C1CC1[Pt]', (2, 3), Chem.BondType.ZERO), ('CC[Pt]', (0, 1), Chem.BondType.ONEANDAHALF)]:
        m = Chem.RWMol(Chem.MolFromSmiles(s))
        m.GetBondBetweenAtoms(i, j).SetBondType(bt)
        m = m.GetMol()
        try:
            Chem.SanitizeMol(m)
        except Exception:
            pass
        out.append((s + '|' + str(bt), m))
    return out


def renumbered(mol, rng):
    """the same molecule with its atoms in a random order"""
    order = list(range(mol.GetNumAtoms()))
    rng.shuffle(order)
    m = Chem.RenumberAtoms(mol, order)
    # RenumberAtoms leaves ring info that RDKit does not regard as an SSSR: the first atom.IsInRing() call would then
    # silently re-perceive the rings (3 instead of 4 rings for tetrahedrane). Perceive them the way sanitization does.
    m.GetRingInfo().Reset() if hasattr(m.GetRingInfo(), 'Reset') else None
    Chem.GetSymmSSSR(m)
    return m


def prepare(mol, how):
    """'smiles': as is; 'lib': the preparation of GroupAdditivityScheme.GetDescriptors before it matches patterns"""
    if how == 'smiles':
        return mol
    try:
        m = Chem.AddHs(mol)
        Chem.Kekulize(m)
    except Exception:
        return None
    for b in m.GetBonds():
        if str(b.GetBondType()) == 'UNSPECIFIED':
            b.SetBondType(Chem.BondType.ZERO)
    if how == 'lib':
        try:
            from pgradd.GroupAdd.Scheme import _aromatization_Benson
            _aromatization_Benson(m)
        except Exception:
            return None
    return m
