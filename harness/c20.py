"""C20 — standard errors are the scaled quadratic form of the descriptors.

Proof: lean/PGA/Props/C20.lean over the model PGA/Model/Estimate.lean of the uncertainty block of
ThermochemGroupAdditive.__init__ and get_CpoR_SE/get_HoRT_SE/get_SoR_SE (pgradd/ThermoChem/group_data.py), reached through
GroupLibrary.Estimate (Library.py); the shipped uncertainty blocks (basis, matrix, DOF) are dumped by harness/gen/uq.py.
Tie: x'Mx, DOF and the three standard errors against the model driver (q exactly on dyadic synthetic libraries).
Oracle: SE^2 = RMSE_X(T)^2 * x'Mx with x in basis order computed in exact rationals; plain non-negative float; scaling by |c|;
independence of the mapping order; out-of-basis descriptor -> error.
"""
import math
from fractions import Fraction
from . import common
from . import lib_estimate as L

PROPS = ['PGA.Props.C20']
GEN = ['Pmutt', 'Uq']
OBLIGATIONS = ['PGA.Estimate.' + t for t in [
    'C20_q', 'C20_SE2', 'C20_SE2_H', 'C20_SE2_Cp', 'C20_SE2_S', 'C20_no_uq', 'C20_order', 'C20_scale_q', 'C20_out_of_basis',
    'C20_all_in_basis', 'C20_nonneg', 'C20_SE_abs', 'C20_SE_scale', 'C20_SE_real', 'C20_SE_real_scale', 'C20_tab_shipped', 'C20_diag_dominant_psd'
    ]]
RULE = ('case = (library with uncertainty data, ordered mapping, T).  Libraries: the three shipped ones that carry uq data, copies of them '
        'extended (through the real constructor) by one group that has data but is outside the basis, and synthetic ones with small '
        'dyadic matrices (PSD and indefinite), incl. a library without uq data.  Mappings: the unit vector of EVERY basis descriptor, '
        'random sparse/dense mappings with integer, fractional, zero, negative counts, each also scaled by a common factor (an ordinary '
        'one, a tiny one down to 1e-100 and a huge one up to 1e100) and permuted, a fifth of the mappings themselves with all counts '
        'tiny or huge, mappings with an out-of-basis descriptor.  T inside and outside the RMSE table.  Non-trivial = >= 2 descriptors or a '
        'non-unit count or an out-of-basis descriptor; distinct = distinct (library, sorted names+counts, T).')
ASSUMPTIONS = ['np.dot on float64 is modelled by exact rational arithmetic on the decimal value of each matrix literal; comparison '
               '|impl - model| <= 1e-9*(|model| + sum_ij |x_i M_ij x_j|); exact equality on dyadic synthetic matrices',
               'np.sqrt is not modelled numerically: the model returns the radicand SE^2 and the harness compares SE with its square root',
               'positive semi-definiteness of the shipped matrices is a hypothesis here (certificate under C14); the run observes q >= 0']
TRUSTED = ['modelled, not verified: the uq block of ThermochemGroupAdditive.__init__, get_CpoR_SE/get_HoRT_SE/get_SoR_SE (group_data.py)',
           'translator harness/gen/uq.py (dumps basis, matrix, DOF of the loaded libraries)']

SE_GET = (('cp', 'get_CpoR'), ('h', 'get_HoRT'), ('s', 'get_SoR'))


def exact_q(info, names, counts):
    """(x'Mx exactly over the stored doubles, sum of |terms|) with x in basis order; None if a name is outside the basis"""
    basis = info.uq['basis']
    x = [Fraction(0)] * len(basis)
    for nm, n in zip(names, counts):
        if nm not in basis:
            return None
        x[basis.index(nm)] = L.exact(float(n))         # xp[i] = count stores a double
    M = info.uq['mat']
    q = Fraction(0)
    s = 0.0
    nz = [i for i, v in enumerate(x) if v != 0]
    for i in nz:
        for j in nz:
            t = x[i] * Fraction(float(M[i][j])) * x[j]
            q += t
            s += abs(float(t))
    return q, s


def oracle(ctx, c, psd=True):
    info, impl = c.info, c.impl
    names = c.names
    counts = [n for _, n in c.mapping]
    missing = [nm for nm in names if L.SET not in info.sets.get(nm, [])]
    if missing:
        if 'err' not in impl or impl['err']['class'] != 'GroupMissingDataError':
            ctx.violation('missing data is not reported', c.input, 'GroupMissingDataError', impl.get('err', 'estimate'))
        return
    outside = [nm for nm in names if info.uq is not None and nm not in info.uq['basis']]
    if outside:
        ctx.count('expect_out_of_basis')
        if 'err' not in impl:
            ctx.violation('a descriptor outside the uncertainty basis is ignored instead of causing an error', c.input,
                          {'class': 'ValueError', 'descriptor': outside[0]}, 'estimate returned')
        elif impl['err']['class'] != 'ValueError':
            ctx.violation('a descriptor outside the uncertainty basis causes the wrong exception', c.input, 'ValueError', impl['err'])
        return
    if 'err' in impl:
        if impl['err']['class'] == 'AssertionError':
            ctx.count('empty_range')
            return
        ctx.violation('Estimate fails although every descriptor has data and is in the basis', c.input, 'an estimate', impl['err'])
        return
    io = impl['ok']
    if info.uq is None:
        ctx.count('expect_noUQ')
        for p, _ in SE_GET:
            if io['se'][p] != ('err', 'noUQ'):
                ctx.violation('a library without uncertainty data yields a standard error', c.input, 'AttributeError', io['se'][p])
        return
    q, s = exact_q(info, names, counts)
    c.q_scale = s
    if io['uq'] is None or io['uq']['q'] is None:
        ctx.violation('the estimate does not hold a scalar quadratic form', c.input, '1x1', io['uq'])
        return
    qi = io['uq']['q']
    if (Fraction(qi) != q) if info.exact_mode else not common.close(qi, q, s):
        ctx.violation("the stored quadratic form is not x'Mx with x in basis order", c.input, float(q), qi)
    if io['uq']['dof'] != info.uq['dof']:
        ctx.violation('degrees of freedom differ from the library\'s', c.input, info.uq['dof'], io['uq']['dof'])
    rm = info.uq['rmse']
    for p, meth in SE_GET:
        r_out, r = L.corr_val(rm, p, c.T)
        got = io['se'][p]
        ctx.count('se_%s_%s' % (p, 'ok' if 'ok' in r_out else r_out['err']))
        if 'err' in r_out:
            if got[0] != 'err' or (r_out['err'] == 'incomplete' and got[1] != 'incomplete'):
                ctx.violation('SE returns a value although the RMSE correlation has none at this temperature', dict(c.input, property=p), r_out, got)
            continue
        if got[0] != 'ok':
            ctx.violation('get_%s_SE raises although RMSE and the quadratic form exist' % {'cp': 'CpoR', 'h': 'HoRT', 's': 'SoR'}[p],
                          dict(c.input, property=p), 'a number', got)
            continue
        v = got[1]
        if type(v) is not float:
            ctx.violation('the standard error is not a plain float', dict(c.input, property=p), 'float', type(v).__name__)
        r2q = L.exact(r) ** 2 * q
        if r2q < 0:
            if not psd and math.isnan(v):
                ctx.count('nan_on_indefinite')
                continue
            if psd:
                ctx.violation("x'Mx is negative for a library whose matrix should be positive semi-definite", c.input, '>= 0', float(q))
                continue
        if math.isnan(v) or v < 0:
            ctx.violation('the standard error is not a non-negative number', dict(c.input, property=p), '>= 0', v)
            continue
        if not common.close(v * v, r2q, float(r) ** 2 * s):
            ctx.violation("SE is not |RMSE(T)| * sqrt(x'Mx)", dict(c.input, property=p), math.sqrt(max(float(r2q), 0.0)), v)
    c.se_scale = 0.0


def relational(ctx, c):
    """scaled and permuted copies (implementation vs implementation)"""
    info, T = c.info, c.T
    if 'ok' not in c.impl or info.uq is None:
        return
    rng = ctx.rng
    lib = info.lib

    def ses(mapping, **how):
        try:
            e = lib.Estimate(dict(mapping), c.set)
        except Exception as ex:
            ctx.violation('Estimate raises on a permuted / scaled copy of a mapping it accepts', dict(c.input, **how),
                          expected='an estimate', observed=type(ex).__name__)
            return None, None
        return {p: L.value_out(lambda m=m: getattr(e, m + '_SE')(T), 'se', info, [], ()) for p, m in SE_GET}, e
    ctx.count('relational')
    base = c.impl['ok']['se']
    m2 = list(c.mapping)
    rng.shuffle(m2)
    s2, e2 = ses(m2, permuted=[str(g) for g, _ in m2])
    # a common factor on all counts: an ordinary one, a tiny one and a huge one (an absolute threshold, a rounding to a fixed
    # number of decimals or a clip anywhere between x'Mx and the returned number shows only far from the scale of ordinary counts);
    # powers of two where the library is compared exactly
    mags = [abs(float(n)) for _, n in c.mapping if n != 0]
    factors = [rng.choice(ORDINARY_FACTORS)]
    if not mags or max(mags) > 1e-6:         # counts that are tiny (huge) already are not scaled down (up) once more:
        factors.append(rng.choice(TINY_POW2 if info.exact_mode else TINY_FACTORS))      # the squares would leave the doubles
    if not mags or max(mags) < 1e6:
        factors.append(rng.choice(HUGE_POW2 if info.exact_mode else HUGE_FACTORS))
    if c.input.get('factor') is not None:
        factors.insert(0, float(c.input['factor']))
    for k in factors:
        ctx.count('relational_factor_' + ('zero' if k == 0 else 'tiny' if abs(k) < 1e-2 else 'huge' if abs(k) > 1e2 else 'ordinary'))
        s3, e3 = ses([(g, n * k) for g, n in c.mapping], factor=k)
        if s3 is None:
            continue
        for p, _ in SE_GET:
            a = base[p]
            if a[0] != 'ok' or math.isnan(float(a[1])):
                continue
            if s3[p][0] != 'ok' or not common.close(s3[p][1], abs(k) * float(a[1]), 0.0, rel=1e-7):
                # sqrt near zero amplifies rounding of a cancelling q: compare squares with the scale of the terms
                if s3[p][0] != 'ok' or not common.close(float(s3[p][1]) ** 2, (k * float(a[1])) ** 2,
                                                         (k ** 2) * getattr(c, 'q_scale', 0.0) * float(L.corr_val(info.uq['rmse'], p, T)[1] or 0) ** 2, rel=1e-7):
                    ctx.violation('SE does not scale with the absolute value of a common factor on all counts',
                                  dict(c.input, factor=k, property=p), abs(k) * float(a[1]), s3[p])
    for p, _ in SE_GET:
        a = base[p]
        if s2 is None or a[0] != 'ok' or math.isnan(float(a[1])):
            continue        # nan only arises from a negative radicand (indefinite synthetic matrix); the oracle has judged it
        if s2[p][0] != 'ok' or float(s2[p][1]) != float(a[1]):
            ctx.violation('SE depends on the order of the mapping', dict(c.input, permuted=[str(g) for g, _ in m2], property=p), a, s2[p])


ORDINARY_FACTORS = [2, -1, -3, 0.5, 0, 4]
TINY_FACTORS = [1e-3, 1e-5, 1e-6, -1e-7, 1e-9, 1e-12, -1e-20, 1e-50, 1e-100]
HUGE_FACTORS = [1e3, 1e6, -1e9, 1e12, 1e20, -1e50, 1e100]
TINY_POW2 = [2.0 ** -10, 2.0 ** -20, -2.0 ** -24, 2.0 ** -30, 2.0 ** -40, 2.0 ** -70, -2.0 ** -160, 2.0 ** -330]
HUGE_POW2 = [2.0 ** 10, 2.0 ** 20, -2.0 ** 30, 2.0 ** 40, 2.0 ** 70, -2.0 ** 160, 2.0 ** 330]


def scaled(rng, mapping, exact_mode):
    """the mapping with every count multiplied by one tiny or huge factor (coverage- or mole-fraction-weighted make-ups, totals
    over a large amount): the property is stated for all counts, and SE = |RMSE| sqrt(x'Mx) has no preferred scale"""
    tiny = rng.random() < 0.6
    k = rng.choice((TINY_POW2 if tiny else HUGE_POW2) if exact_mode else (TINY_FACTORS if tiny else HUGE_FACTORS))
    return [(g, float(n) * k) for g, n in mapping], ('tiny' if tiny else 'huge')


def one(ctx, batch, info, mapping, T, rel=False, psd=True, full_lib=False):
    c = L.run_case(info, mapping, T, want_se=True, full_lib=full_lib)
    names = c.names
    nontrivial = len(mapping) >= 2 or any(n != 1 for _, n in mapping) or (info.uq is not None and any(nm not in info.uq['basis'] for nm in names))
    key = (info.label, tuple(sorted((nm, L.enc_num(n)) for (k, n), nm in zip(mapping, names))), L.enc_num(T))
    sample = None
    if 'ok' in c.impl and c.impl['ok'].get('uq') and len(mapping) in (2, 3) and ctx.rng.random() < 0.06:
        sample = {'input': c.input, 'q': c.impl['ok']['uq']['q'],
                  'se': {p: (float(v[1]) if v[0] == 'ok' else v[1]) for p, v in c.impl['ok']['se'].items()}}
    ctx.case(key if nontrivial else None, sample)
    ctx.count('size_%s' % ('1' if len(mapping) == 1 else '2-4' if len(mapping) <= 4 else '5-15' if len(mapping) <= 15 else '16+'))
    ctx.count('impl_' + ('ok' if 'ok' in c.impl else c.impl['err']['class']))
    oracle(ctx, c, psd=psd)
    if rel:
        relational(ctx, c)
    batch.append(c)
    return c


def rmse_temperatures(info, rng, k):
    ts = sorted(float(t) for t in (getattr(info.uq['rmse'], 'ND_Cp_data', None) or {})) if info.uq else []
    lo, hi = (ts[0], ts[-1]) if ts else (200.0, 1500.0)
    out = []
    for _ in range(k):
        r = rng.random()
        if r < 0.2 and ts:
            out.append(rng.choice(ts))
        elif r < 0.3:
            out.append(rng.choice([lo, hi]))
        elif r < 0.9:
            out.append(rng.uniform(lo, hi))
        else:
            out.append(rng.choice([lo - 1.0, hi + 1.0, hi * 2]))
    return out


def extended(info):
    """the shipped library plus one group that has data but is outside the uncertainty basis (real constructor)"""
    GroupLibrary = L._imports()[0]
    lib = info.lib
    donor = info.corr[info.names[0]]
    contents = list(lib.contents.items()) + [('C(C)(H)2(Zz)', {L.SET: donor})]
    new = GroupLibrary(lib.scheme, contents, lib.uq_contents)
    return L.LibInfo(info.label + '+extra', new, matlib=info.matlib)


def shipped_cases(ctx, batch):
    rng = ctx.rng
    from .gen import uq as genuq
    libs = genuq.uq_libraries()
    if not libs:
        raise common.MachineryError('no shipped library carries uncertainty data')
    ctx.count('uq_libraries', len(libs))
    per_lib = ctx.n(100, 3300)
    for name in libs:
        info = L.shipped(name)
        basis = info.uq['basis']
        for i, nm in enumerate(basis):      # exhaustive unit vectors
            T = rmse_temperatures(info, rng, 1)[0]
            one(ctx, batch, info, [(nm if i % 2 else info.keyobj.get(nm, nm), 1)], T)
            ctx.count('unit_vectors')
        for j in range(per_lib):
            r = rng.random()
            size = rng.randint(1, 4) if r < 0.5 else rng.randint(5, min(40, len(basis))) if r < 0.95 else len(basis)
            mapping = L.random_mapping(info, rng, size, with_missing=0.03)
            if j % 5 == 4:
                mapping, tag = scaled(rng, mapping, False)
                ctx.count('scaled_mapping_' + tag)
            one(ctx, batch, info, mapping, rmse_temperatures(info, rng, 1)[0], rel=(j % 3 == 0), full_lib=(j % 10 == 0))
        ext = extended(info)
        for j in range(ctx.n(6, 60)):
            mapping = L.random_mapping(ext, rng, rng.randint(0, 4), pool=[n for n in info.names if n in info.corr])
            mapping.insert(rng.randint(0, len(mapping)), ('C(C)(H)2(Zz)', L.random_count(rng)))
            c = one(ctx, batch, ext, mapping, rmse_temperatures(info, rng, 1)[0])
            c.input['extended'] = True
            ctx.count('out_of_basis_shipped')
    # a shipped library without uq data
    others = [n for n in L.shipped_names() if n not in libs]
    if others:
        info = L.shipped(rng.choice(others))
        pool = [n for n in info.names if n in info.corr]
        one(ctx, batch, info, [(pool[0], 1), (pool[1], 2)], 300.0)


def synthetic_cases(ctx, batch):
    rng = ctx.rng
    for i in range(ctx.n(60, 1500)):
        seed = rng.randrange(1 << 30)
        kind = rng.choice([True, True, 'partial', 'partial', 'indefinite', False])
        kw = {'n_groups': rng.choice([1, 2, 3, 5, 8]), 'exact_mode': False, 'with_uq': kind, 'ranges': 'none', 'extra_sets': True}
        info = L.synthetic_seeded(seed, 'synthetic-uq-%d' % i, **kw)
        info.exact_mode = True          # dyadic matrices, counts and references: the float computation of q is exact
        pool = [n for n in info.names if n in info.corr]
        for j in range(4):
            m = []
            for nm in rng.sample(pool, rng.randint(1, len(pool))):
                m.append((nm if rng.random() < 0.6 else info.keyobj[nm], rng.choice([1, 2, 3, -1, -2, 0, 0.5, 1.5, -0.25, Fraction(3, 4), Fraction(-5, 2), 4.0])))
            if j == 3 and kind:
                m, tag = scaled(rng, m, True)
                ctx.count('scaled_mapping_' + tag)
            one(ctx, batch, info, m, rng.choice([298.15, 300.0, 1000.0]), rel=(j == 0), psd=(kind != 'indefinite'), full_lib=True)
            ctx.count('synthetic_%s' % kind)


def file_uq_blocks(name):
    """the UQ mapping as written in the library's files (independent PyYAML parse of library.yaml and its includes)"""
    import os, yaml, pgradd
    root = os.path.join(os.path.dirname(pgradd.__file__), 'data', name)
    found = []

    def visit(path):
        doc = yaml.safe_load(open(path)) or {}
        if doc.get('UQ'):
            found.append(doc['UQ'])
        for inc in doc.get('include') or []:
            visit(os.path.join(os.path.dirname(path), inc))
    visit(os.path.join(root, 'library.yaml'))
    return found


def loader_checks(ctx, batch):
    """the uncertainty block is read from the library file as written: order of the basis, matrix, DOF (Library.py, _do_load)"""
    import numpy as np
    from .gen import uq as genuq
    for name in genuq.uq_libraries():
        info = L.shipped(name)
        blocks = file_uq_blocks(name)
        ctx.case(None)
        ctx.count('loader_checks')
        inp = {'library': name, 'check': 'uq block as loaded vs as written in the file'}
        if len(blocks) != 1:
            ctx.violation('library loads uncertainty data although its files hold %d UQ blocks' % len(blocks), inp, 1, len(blocks))
            continue
        b = blocks[0]
        if [str(x) for x in b['InvCovMat']['groups']] != info.uq['basis']:
            ctx.violation('the uncertainty basis is not in the order of the file', inp, b['InvCovMat']['groups'][:5], info.uq['basis'][:5])
        if not np.array_equal(np.array(b['InvCovMat']['mat'], dtype=float), np.asarray(info.uq['mat'], dtype=float)):
            ctx.violation('the stored matrix is not the matrix of the file', inp, 'equal', 'different')
        if b['DOF'] != info.uq['dof']:
            ctx.violation('degrees of freedom are not those of the file', inp, b['DOF'], info.uq['dof'])
    # a library written to scratch files and read by the real loader: unsorted basis, non-symmetric dyadic matrix
    rng = ctx.rng
    for k in range(ctx.n(3, 30)):
        names = rng.sample(['C(C)(H)3', 'C(C)2(H)2', 'C(C)(H)2(Pt)', 'C(H)3(Pt)', 'O(C)(H)', 'C(C)(H)2(O)', 'CO(C)(H)', 'C(C)3(H)'], rng.randint(2, 6))
        basis = list(names)
        rng.shuffle(basis)
        while len(basis) > 1 and basis == sorted(basis):
            rng.shuffle(basis)
        n = len(basis)
        spec = {'k': k, 'names': names, 'basis': basis,
                'mat': [[rng.randint(-8, 8) / 4.0 for _ in range(n)] for _ in range(n)], 'dof': rng.randint(1, 300),
                'refs': {nm: [rng.randint(-80, 80) / 4.0, rng.randint(0, 80) / 8.0] for nm in names},
                'rm': [rng.choice([0.75, 1.5, 2.0, 3.25]), rng.choice([0.5, 1.25])]}
        info = scratch_library(ctx, spec)
        if info is None:
            continue
        for j in range(4):
            m = [(nm, rng.choice([1, 2, -1, 0.5, 3, -2.5])) for nm in rng.sample(names, rng.randint(1, len(names)))]
            c = scratch_case(ctx, info, spec, m)
            ctx.case((info.label, j), None)
            batch.append(c)


def scratch_library(ctx, spec):
    """write the library described by `spec` to scratch files, read it with the real GroupLibrary.Load, compare the uq block"""
    import os, shutil, pgradd
    import numpy as np
    GroupLibrary = L._imports()[0]
    d = os.path.join(ctx.scratch, 'uqlib%d' % spec['k'])
    os.makedirs(d, exist_ok=True)
    shutil.copy(os.path.join(os.path.dirname(pgradd.__file__), 'data', 'GRWSurface2018', 'scheme.yaml'), os.path.join(d, 'scheme.yaml'))
    lines = ['groups:']
    for nm in spec['names']:
        lines += ["    '%s':" % nm, "        'thermochem':", '            T_ref: 298.15 K', '            ND_H_ref: %r' % spec['refs'][nm][0],
                  '            ND_S_ref: %r' % spec['refs'][nm][1]]
    lines += ['UQ:', '    RMSE:', "        'thermochem':", '            T_ref: 298.15 K', '            ND_H_ref: %r' % spec['rm'][0],
              '            ND_S_ref: %r' % spec['rm'][1], '    DOF:', '        %d' % spec['dof'], '    InvCovMat:',
              "        'groups': [%s]" % ', '.join("'%s'" % b for b in spec['basis']),
              "        'mat': [%s]" % ', '.join('[%s]' % ','.join(repr(v) for v in row) for row in spec['mat'])]
    with open(os.path.join(d, 'library.yaml'), 'w') as f:
        f.write('\n'.join(lines) + '\n')
    try:
        with L.quiet():
            lib = GroupLibrary.Load(os.path.join(d, 'library.yaml'))
    except Exception as e:
        raise common.MachineryError('scratch library with uncertainty data does not load: %r' % (e,))
    info = L.LibInfo('loaded-uq-%d' % spec['k'], lib, exact_mode=True)
    ctx.count('loaded_scratch_libraries')
    if (info.uq is None or info.uq['basis'] != spec['basis'] or info.uq['dof'] != spec['dof']
            or np.asarray(info.uq['mat']).tolist() != spec['mat']):
        ctx.violation('the uncertainty block is not loaded as written (basis order, matrix, DOF)', {'library': info.label, 'written': spec},
                      {'basis': spec['basis'], 'dof': spec['dof']},
                      None if info.uq is None else {'basis': info.uq['basis'], 'dof': info.uq['dof']})
        return None
    return info


def scratch_case(ctx, info, spec, mapping):
    import numpy as np
    c = L.run_case(info, mapping, 298.15, want_se=True, full_lib=True)
    # the oracle uses the basis and matrix AS WRITTEN, not as loaded
    loaded = info.uq
    info.uq = dict(loaded, basis=spec['basis'], mat=np.array(spec['mat']))
    try:
        oracle(ctx, c, psd=False)
    finally:
        info.uq = loaded
    c.input['written'] = spec
    return c


def run(ctx):
    batch = []
    loader_checks(ctx, batch)
    for fname, rec in common.load_corpus('C20'):
        ctx.count('corpus')
        replay(ctx, rec, batch)
    shipped_cases(ctx, batch)
    synthetic_cases(ctx, batch)
    replies = ctx.model([dict(c.request, op='c20.estimate') for c in batch])
    if replies is not None:
        for c, rep in zip(batch, replies):
            ctx.count('corr_cases')
            ctx.count('model_' + ('ok' if 'ok' in rep else rep['err']['kind']))
            if 'ok' in rep:
                ctx.count('model_se2_h_' + ('ok' if 'ok' in rep['ok']['se2']['h'] else rep['ok']['se2']['h']['err']))
            if 'ok' in c.impl and c.info.uq is not None and not hasattr(c, 'q_scale'):
                r = exact_q(c.info, c.names, [n for _, n in c.mapping])
                c.q_scale = r[1] if r else 0.0
            L.compare(ctx, c, rep, 'c20.estimate', parts=('uq', 'se'))
    L.floors(ctx, {'uq_libraries': 3, 'unit_vectors': 200, 'corr_cases': 600, 'model_notInBasis': 20, 'out_of_basis_shipped': 15,
                   'se_h_ok': 400, 'se_cp_incomplete': 50, 'expect_noUQ': 20, 'relational': 80, 'nan_on_indefinite': 5,
                   'relational_factor_tiny': 80, 'relational_factor_huge': 80, 'scaled_mapping_tiny': 30, 'scaled_mapping_huge': 20,
                   'loader_checks': 3, 'loaded_scratch_libraries': 3, 'corpus': 1})


def replay(ctx, rec, batch=None):
    inp = rec.get('input', rec)
    before = len(ctx.violations)
    if inp.get('check'):
        loader_checks(ctx, [])
        return len(ctx.violations) == before
    if inp.get('written'):
        info = scratch_library(ctx, inp['written'])
        if info is not None and inp.get('mapping'):
            scratch_case(ctx, info, inp['written'], [(nm, L.dec_num(n)) for nm, _, n in inp['mapping']])
        return len(ctx.violations) == before
    info, mapping, T = L.rebuild(inp)
    if inp.get('extended'):
        info = extended(info) if not info.label.endswith('+extra') else info
        mapping = [((info.keyobj[str(k)] if str(k) in info.keyobj and not isinstance(k, str) else k), n) for k, n in mapping]
    c = L.run_case(info, mapping, T, want_se=True, full_lib=True)
    oracle(ctx, c, psd=not (inp.get('synth') or {}).get('kwargs', {}).get('with_uq') == 'indefinite')
    if inp.get('factor') is not None:
        c.input['factor'] = inp['factor']       # the recorded common factor is tried first
    relational(ctx, c)
    if batch is not None:
        batch.append(c)
    return len(ctx.violations) == before


LEVEL_TEXT = ('Lean 4 theorems, for every library with uncertainty data, every mapping (distinct keys, rational counts) and every T: the '
              "estimate stores q = x'Mx with x the counts in basis order and M the stored n x n matrix; each standard error squared is "
              'RMSE_X(T)^2 * q and SE = |RMSE_X(T)| * sqrt(q) (abstract root and Mathlib real root), a non-negative number given PSD(M); '
              'q and SE do not depend on the order of the mapping; scaling all counts by c scales q by c^2 and SE by |c|; a descriptor '
              'outside the basis makes Estimate fail (first such descriptor named) and is never ignored; a library without uncertainty '
              'data gives no standard error.  General lemma: symmetric diagonally dominant matrices with non-negative diagonal are PSD. '
              'Table obligation: the shipped bases are duplicate-free and the matrices n x n.  Tied to group_data.py by a correspondence '
              'run (exact on dyadic synthetic libraries).  Right level: the quantifier is over all mappings.')
LEVEL_NOTE = ('Trusted: Lean kernel; standard axioms; translator of the uncertainty blocks; correspondence harness; rational abstraction of '
              'np.dot; np.sqrt not modelled (its radicand is). PSD of the shipped matrices is a hypothesis (certificate built under C14). '
              'Modelled not verified: the uq block of __init__ and the three get_*_SE.')
TECHNIQUE = 'Lean 4 proof over hand-written model + table translator + correspondence check'
