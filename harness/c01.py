"""C01 — the estimate is the exact count-weighted sum of the group contributions.

Proof: lean/PGA/Props/C01.lean over the model PGA/Model/Estimate.lean of GroupLibrary.Estimate / __getitem__
(pgradd/GroupAdd/Library.py) and ThermochemGroupAdditive (pgradd/ThermoChem/group_data.py), get_GoRT (base.py).
Tie: correspondence of Estimate + get_CpoR/get_HoRT/get_SoR/get_GoRT/get_range and of GroupMissingDataError.groups with
the model driver, the constituents' own values taken from the real per-group correlation objects.
Oracle: implementation vs the sum written out in exact rational arithmetic; relational checks (order, scaling, splitting).
"""
import json, math, random
from fractions import Fraction
from . import common
from . import lib_estimate as L

PROPS = ['PGA.Props.C01']
GEN = ['Pmutt', 'Uq']
OBLIGATIONS = ['PGA.Estimate.' + t for t in [
    'C01_terms', 'C01_value_iff', 'C01_sum_H', 'C01_sum_Cp', 'C01_sum_S', 'C01_sum_G', 'C01_error_iff', 'C01_first_error',
    'C01_incomplete_iff', 'C01_missing_iff', 'C01_invalid_set_iff', 'C01_missing_no_value', 'C01_no_keyError', 'C01_lookup_unknown',
    'C01_perm_outcome', 'C01_perm_Cp', 'C01_perm_H', 'C01_perm_S', 'C01_perm_G', 'C01_append', 'C01_scale',
    'C01_merge_counts', 'C01_zero_count', 'C01_range_inter']]
RULE = ('case = (library, ordered mapping descriptor->count, T).  Libraries: the nine shipped ones and synthetic ones built through '
        'the real constructors (Fraction reference values, no Cp table: exact comparison).  Mappings: the unit vector of EVERY group of '
        'every shipped library, random sparse (1-4) and dense (5-40 / all groups) mappings with integer, fractional, zero and negative '
        'counts, keys given as str or as Group/Descriptor objects, mappings with descriptors that have no data (unknown names, entries '
        'without the property set), the empty mapping, an unregistered property-set name; small libraries (built by the constructors and '
        'loaded from YAML) in which reference values are NaN or +-inf, against the IEEE sum in mapping order.  T: ends of the common range, heat-capacity '
        'knots, random interior points, points just outside.  A case is non-trivial when the mapping has >= 2 descriptors, a '
        'non-unit count or a descriptor without data; distinct = distinct (library, sorted names+counts, T).')
ASSUMPTIONS = ['the values a constituent correlation returns at T (get_CpoR/get_HoRT/get_SoR of the per-group objects) are data of the '
               'model: exact dyadic rationals of the doubles the real objects return in the same process',
               'float arithmetic of the weighted sum is modelled in exact rationals; comparison |impl-model| <= 1e-9*(|model| + sum|n*h_d|)',
               'dict iteration order is insertion order (CPython >= 3.7)']
TRUSTED = ['modelled, not verified: GroupLibrary.Estimate/__getitem__ (Library.py), ThermochemGroupAdditive.__init__/get_CpoR/get_HoRT/'
           'get_SoR (group_data.py), ThermochemBase.get_GoRT (base.py), GroupMissingDataError (Error.py)']

UNKNOWN = ['C(C)(H)2(Zz)', 'Zz(H)4', 'no such descriptor', 'C(C)(H)3x', 'Q', 'C(Zz)2(H)2']


# ---------------------------------------------------------------------- the property oracle (implementation vs the statement)
def expected_outcome(c):
    """what the statement (and the constructor's documented checks) allow for Estimate on this input"""
    GroupLibrary = L._imports()[0]
    info = c.info
    if c.set not in GroupLibrary._property_set_estimator_types:
        return ('KeyError', None)
    missing = [nm for nm in c.names if c.set not in info.sets.get(nm, [])]
    if missing:
        return ('GroupMissingDataError', missing)
    if info.uq is not None and any(nm not in info.uq['basis'] for nm in c.names):
        return ('ValueError', None)
    los = [float(info.corr[nm].get_range()[0]) for nm in c.names if info.corr[nm].get_range() is not None]
    his = [float(info.corr[nm].get_range()[1]) for nm in c.names if info.corr[nm].get_range() is not None]
    if los and min(his) < max(los):
        return ('AssertionError', None)
    return ('ok', (max(los), min(his)) if los else None)


def own_g_check(ctx, c, io, scale):
    """G/RT of the estimate against Σ count × the constituent's OWN get_GoRT (asked of the constituent itself, not recomputed
    from its H/RT and S/R): the property names G/RT among the additive quantities"""
    import warnings
    tot = 0.0
    for (k, n) in c.mapping:
        corr = c.info.corr.get(str(k))
        if corr is None:
            return
        try:
            with warnings.catch_warnings(), L.quiet():
                warnings.simplefilter('ignore')
                v = float(corr.get_GoRT(c.T))
        except Exception:
            return
        tot += float(n) * v
    got = io['g'][0]
    if got[0] != 'ok':
        return
    ctx.count('own_g_sums')
    if not common.close(float(got[1]), tot, scale):
        ctx.violation('G/RT of the estimate is not the count-weighted sum of the constituents\' own G/RT', c.input, tot, float(got[1]))


def oracle(ctx, c, relational=False):
    info, impl = c.info, c.impl
    exp, detail = expected_outcome(c)
    ctx.count('expect_' + exp)
    if exp != 'ok':
        if 'err' not in impl:
            ctx.violation('Estimate returns an estimate (a partial sum) although %s is due' % exp, c.input,
                          expected={'class': exp, 'groups': detail}, observed='estimate returned')
        elif impl['err']['class'] != exp:
            ctx.violation('Estimate fails with the wrong exception', c.input, expected={'class': exp, 'groups': detail}, observed=impl['err'])
        elif exp == 'GroupMissingDataError' and (impl['err']['groups'] != detail or impl['err']['set'] != c.set):
            ctx.violation('GroupMissingDataError does not name exactly the descriptors without data, in mapping order', c.input,
                          expected=detail, observed=impl['err'])
        return
    if 'err' in impl:
        ctx.violation('Estimate fails although every descriptor has data', c.input, expected='an estimate', observed=impl['err'])
        return
    io = impl['ok']
    if io['n'] != len(c.mapping):
        ctx.violation('the estimator does not hold one term per descriptor', c.input, len(c.mapping), io['n'])
    r = io['range']
    if (r is None) != (detail is None) or (r is not None and (float(r[0]), float(r[1])) != detail):
        ctx.violation('range of the estimate is not the intersection of the constituents\' ranges', c.input, detail, r)
    spec = {p: L.spec_sum(c, p) for p in ('cp', 'h', 's')}
    if spec['h'][0] == 'err':
        spec['g'] = spec['h']
    elif spec['s'][0] == 'err':
        spec['g'] = spec['s']
    else:
        spec['g'] = ('ok', spec['h'][1] - spec['s'][1])
    scale = {p: L.abs_sum(c, p) for p in ('cp', 'h', 's')}
    scale['g'] = scale['h'] + scale['s']
    own_g_check(ctx, c, io, scale['g'])
    got = {'cp': io['cp'], 'h': io['h'], 's': io['s'][0], 'g': io['g'][0]}
    for p in ('cp', 'h', 's', 'g'):
        sp, im = spec[p], got[p]
        ctx.count('spec_%s_%s' % (p, sp[0] if sp[0] == 'ok' else sp[1]))
        if sp[0] == 'err' and sp[1] == 'unitsF12':
            # exactly the class of defect F12: a constituent whose zero reference value is a unit-carrying Quantity
            uses = ('h',) if p == 'h' else ('s',) if p == 's' else ('h', 's')
            culprit = [nm for nm in c.names if any(u in info.f12.get(nm, ()) for u in uses)]
            if culprit:
                ctx.violation(L.F12_WHAT, dict(c.input, property=p, group=culprit[0]), expected='the count-weighted sum',
                              observed=im, finding='F12')
                continue
        if sp[0] == 'err':
            if im[0] != 'err':
                ctx.violation('%s: a value is returned although a constituent has no such datum' % p, c.input, expected=sp, observed=im)
            elif sp[1] == 'incomplete' and im[1] != 'incomplete':
                ctx.violation('%s: a constituent lacks the datum but the error is not the incomplete-data error' % p, c.input, sp, im)
            continue
        if im[0] != 'ok':
            ctx.violation('%s: error although every constituent has the datum at this temperature' % p, c.input, expected=str(sp[1]), observed=im)
            continue
        if info.exact_mode and isinstance(im[1], (Fraction, int)):
            okv = Fraction(im[1]) == sp[1]
            ctx.count('exact_comparisons')
        else:
            okv = common.close(im[1], sp[1], scale[p])
        if not okv:
            ctx.violation('%s of the estimate is not the count-weighted sum of the constituents\' values' % p, c.input,
                          expected=float(sp[1]), observed=float(im[1]))
        if not math.isfinite(float(im[1])):
            ctx.violation('%s is not a finite number' % p, c.input, 'finite', im[1])
    if relational and all(spec[p][0] == 'ok' for p in ('h',)):
        relational_checks(ctx, c, got, scale)


def relational_checks(ctx, c, got, scale):
    """order of the mapping, scaling of all counts and splitting the mapping in two (implementation vs implementation)"""
    rng = ctx.rng
    info, T = c.info, c.T
    lib = info.lib

    def values(mapping):
        e = lib.Estimate(dict(mapping), c.set)
        out = {}
        for p, m in (('cp', 'get_CpoR'), ('h', 'get_HoRT'), ('s', 'get_SoR'), ('g', 'get_GoRT')):
            out[p] = L.value_out(lambda: getattr(e, m)(T), 'nd', info, c.names, ())
        return out

    def same(a, b, s, factor=1):
        if a[0] != 'ok' or b[0] != 'ok':
            return a[0] == b[0]
        if info.exact_mode and isinstance(a[1], (Fraction, int)) and isinstance(b[1], (Fraction, int)):
            return Fraction(a[1]) * factor == Fraction(b[1])
        return common.close(float(a[1]) * float(factor), float(b[1]), s * abs(float(factor)))
    ctx.count('relational')
    m2 = list(c.mapping)
    rng.shuffle(m2)
    v2 = values(m2)
    k = rng.choice([2, -1, 3, Fraction(1, 2) if info.exact_mode else 0.5, 0])
    v3 = values([(g, n * k) for g, n in c.mapping])
    cut = rng.randint(0, len(c.mapping))
    va, vb = values(c.mapping[:cut]), values(c.mapping[cut:])
    for p in ('cp', 'h', 's', 'g'):
        if not same(got[p], v2[p], scale[p]):
            ctx.violation('%s depends on the order of the mapping' % p, dict(c.input, permuted=[str(g) for g, _ in m2]), got[p], v2[p])
        if got[p][0] == 'ok' and not same(got[p], v3[p], scale[p], k):
            ctx.violation('%s does not scale with a common factor on all counts' % p, dict(c.input, factor=str(k)), got[p], v3[p])
        if got[p][0] == 'ok' and va[p][0] == 'ok' and vb[p][0] == 'ok':
            tot = ('ok', (Fraction(va[p][1]) + Fraction(vb[p][1])) if info.exact_mode and all(isinstance(x[1], (Fraction, int)) for x in (va[p], vb[p]))
                   else float(va[p][1]) + float(vb[p][1]))
            if not same(got[p], tot, scale[p]):
                ctx.violation('%s is not additive over a split of the mapping' % p, dict(c.input, cut=cut), got[p], tot)


# ---------------------------------------------------------------------- constituents whose own value is not a finite number
# The sum of the statement has no licence to leave a term out.  A term that cannot be ignored unnoticed is one whose own value
# is NaN or +-inf (a library author marks a datum as not available with `.nan`, the loader and the constructors accept it):
# count x NaN makes the whole sum NaN, count x inf makes it inf (or NaN against an opposite inf).  Any "robust" summation
# (nansum, nan_to_num, a finite-only filter, a masked array) then shows as a finite estimate.  The exact-rational model has
# no such numbers (DESIGN 2.3), so this is an oracle on the implementation alone, in IEEE arithmetic.
NF_NAMES = ['C(C)(H)3', 'C(C)2(H)2', 'C(C)3(H)', 'C(C)4', 'O(C)(H)', 'C(C)(H)2(O)', 'CO(C)(O)', 'O(CO)(H)']
NF_GET = (('cp', 'get_CpoR'), ('h', 'get_HoRT'), ('s', 'get_SoR'), ('g', 'get_GoRT'))


def nf_num(s):
    return None if s is None else float(s)


def nf_yaml_num(x):
    return '.nan' if x != x else '.inf' if x == math.inf else '-.inf' if x == -math.inf else repr(float(x))


def nf_library(ctx, spec):
    """spec = {'via': 'ctor' | 'yaml', 'groups': [[name, href, sref, with_table], ...]} (numbers as strings: 'nan', 'inf', '1.5')
    -> {name: correlation}, library"""
    import os
    GroupLibrary, Group, Descriptor, ThermochemGroup, Quantity, Error = L._imports()
    table = {300.0: 2.0, 400.0: 3.0, 600.0: 3.5}
    if spec['via'] == 'ctor':
        contents = []
        for nm, h, sr, tab in spec['groups']:
            corr = ThermochemGroup(nf_num(h), nf_num(sr), dict(table) if tab else {}, 298.15, (200.0, 1000.0) if tab else None)
            contents.append((nm, {L.SET: corr}))
        lib = GroupLibrary(None, contents)
    else:
        ctx._nf_n = getattr(ctx, '_nf_n', 0) + 1
        d = os.path.join(ctx.scratch, 'nf%05d' % ctx._nf_n)
        os.makedirs(d)
        with open(os.path.join(d, 'scheme.yaml'), 'w') as f:
            f.write('patterns: []\n')
        lines = ['groups:']
        for nm, h, sr, tab in spec['groups']:
            items = ['T_ref: 298.15 K']
            if h is not None:
                items.append('ND_H_ref: ' + nf_yaml_num(float(h)))
            if sr is not None:
                items.append('ND_S_ref: ' + nf_yaml_num(float(sr)))
            if tab:
                items.append('ND_Cp_data: [%s]' % ', '.join('[%r K, %r]' % (t, v) for t, v in table.items()))
                items.append('range: [200 K, 1000 K]')
            lines.append('  "%s": {thermochem: {%s}}' % (nm, ', '.join(items)))
        with open(os.path.join(d, 'library.yaml'), 'w') as f:
            f.write('\n'.join(lines) + '\n')
        with L.quiet():
            lib = GroupLibrary.Load(os.path.join(d, 'library.yaml'))
    corr = dict((str(k), lib.contents[k][L.SET]) for k in lib.contents)
    return corr, lib


def nf_eval(fn):
    import warnings
    Error = L._imports()[5]
    try:
        with warnings.catch_warnings(), L.quiet():
            warnings.simplefilter('ignore')
            v = fn()
    except Error.IncompleteDataError:
        return ('err', 'incomplete')
    except Exception as e:
        return ('err', 'internal:' + type(e).__name__)
    try:
        return ('ok', float(v))
    except Exception:
        return ('err', 'internal:returned ' + type(v).__name__)


def nf_same(got, exp, scale):
    if got[0] != 'ok':
        return False
    g, e = got[1], exp
    if e != e:
        return g != g
    if math.isinf(e):
        return g == e
    return math.isfinite(g) and common.close(g, e, scale)


def nf_check(ctx, spec, mapping, T):
    """one estimate over a library with non-finite data against the IEEE sum of count x own value, in mapping order"""
    inp = {'nonfinite': spec, 'mapping': [[nm, L.enc_num(n)] for nm, n in mapping], 'T': L.enc_num(T)}
    try:
        corr, lib = nf_library(ctx, spec)
    except Exception as e:
        raise common.ImplFailure('a library with a reference value given as NaN / infinity ("not available") cannot be built', inp, e)
    try:
        est = lib.Estimate(dict(mapping), L.SET)
    except Exception as e:
        ctx.violation('Estimate fails although every descriptor has data', inp, expected='an estimate', observed=type(e).__name__)
        return
    exp = {}
    for p, meth in NF_GET[:3]:
        tot, sc, err = 0.0, 0.0, None
        for nm, n in mapping:
            own = nf_eval(lambda: getattr(corr[nm], meth)(T))
            if own[0] != 'ok':
                err = own[1]
                break
            tot += float(n) * own[1]
            sc += abs(float(n) * own[1]) if math.isfinite(own[1]) else 0.0
        exp[p] = (('err', err), 0.0) if err else (('ok', tot), sc)
    (h, hs), (s_, ss) = exp['h'], exp['s']
    exp['g'] = ((h if h[0] == 'err' else s_), 0.0) if (h[0] == 'err' or s_[0] == 'err') else (('ok', h[1] - s_[1]), hs + ss)
    for p, meth in NF_GET:
        got = nf_eval(lambda: getattr(est, meth)(T))
        e, sc = exp[p]
        kind = 'err' if e[0] == 'err' else 'nan' if e[1] != e[1] else 'inf' if math.isinf(e[1]) else 'finite'
        ctx.count('nonfinite_expect_' + kind)
        ctx.case(('nonfinite', spec['via'], len(mapping), p, kind), {'input': inp, 'property': p, 'outcome': str(got)} if len(ctx.samples) < 12 and kind == 'nan' and p == 's' else None)
        if e[0] == 'err':
            if got[0] != 'err' or (e[1] == 'incomplete' and got[1] != 'incomplete'):
                ctx.violation('%s: a value is returned although a constituent has no such datum' % p, dict(inp, property=p), expected=e, observed=got)
        elif not nf_same(got, e[1], sc):
            what = ('%s of the estimate is a number although the sum of count times the constituents\' own values is not: a constituent '
                    'whose own value is NaN or infinite was left out of the sum' % p) if kind != 'finite' and got[0] == 'ok' and math.isfinite(got[1]) \
                else '%s of the estimate is not the count-weighted sum of the constituents\' values' % p
            ctx.violation(what, dict(inp, property=p), expected=str(e[1]), observed=str(got[1]) if got[0] == 'ok' else got)


def nonfinite_cases(ctx):
    rng = ctx.rng
    for i in range(ctx.n(30, 600)):
        k = rng.randint(1, 6)
        groups = []
        for nm in rng.sample(NF_NAMES, k):
            def val(special):
                r = rng.random()
                if r < special:
                    return rng.choice(['nan', 'nan', 'inf', '-inf'])
                if r < special + 0.08:
                    return None
                return repr(rng.choice([0.0, -8.5, 3.25, 12.0, -0.125, 40.5, 7.0]))
            groups.append([nm, val(0.3), val(0.3), rng.random() < 0.3])
        if not any(g[1] in ('nan', 'inf', '-inf') or g[2] in ('nan', 'inf', '-inf') for g in groups):
            groups[0][rng.choice([1, 2])] = 'nan'
        spec = {'via': 'yaml' if i % 3 == 0 else 'ctor', 'groups': groups}
        special = [g[0] for g in groups if g[1] in ('nan', 'inf', '-inf') or g[2] in ('nan', 'inf', '-inf')]
        for j in range(3):
            names = list(dict.fromkeys([rng.choice(special)] + rng.sample([g[0] for g in groups], rng.randint(1, k))))
            rng.shuffle(names)
            # a zero count on a non-finite value is left out: whether 0 x NaN counts as a contribution is not the property's subject
            mapping = [(nm, rng.choice([1, 2, 3, -1, 0.5, 2.25, -0.75, 6])) for nm in names]
            ctx.count('nonfinite_cases')
            nf_check(ctx, spec, mapping, rng.choice([298.15, 298.15, 300.0, 450.0]))


# ---------------------------------------------------------------------- generators
def one(ctx, batch, info, mapping, T, set_name=L.SET, full_lib=False, relational=False, decoys=()):
    c = L.run_case(info, mapping, T, set_name=set_name, full_lib=full_lib, decoys=decoys)
    names = c.names
    nontrivial = len(mapping) >= 2 or any(n != 1 for _, n in mapping) or any(nm not in info.corr for nm in names) or set_name != L.SET
    key = (info.label, tuple(sorted((nm, L.enc_num(n)) for (k, n), nm in zip(mapping, names))), L.enc_num(T), set_name)
    sample = None
    if len(ctx.samples) < 12 and (len(mapping) in (2, 3) or 'err' in c.impl) and ctx.rng.random() < 0.05:
        sample = {'input': c.input, 'outcome': summarize(c.impl)}
    ctx.case(key if nontrivial else None, sample)
    ctx.count('size_%s' % ('0' if not mapping else '1' if len(mapping) == 1 else '2-4' if len(mapping) <= 4 else '5-15' if len(mapping) <= 15 else '16+'))
    ctx.count('impl_' + ('ok' if 'ok' in c.impl else c.impl['err']['class']))
    for _, n in mapping:
        ctx.count('count_' + ('zero' if n == 0 else 'negative' if n < 0 else 'integer' if float(n) == int(n) else 'fractional'))
    oracle(ctx, c, relational=relational)
    batch.append(c)
    return c


def summarize(impl):
    if 'err' in impl:
        return impl['err']
    o = impl['ok']
    f = lambda v: (float(v[1]) if v[0] == 'ok' else v[1])
    return {'cp': f(o['cp']), 'h': f(o['h']), 's': f(o['s'][0]), 'g': f(o['g'][0]), 'range': str(o['range'])}


def shipped_cases(ctx, batch):
    rng = ctx.rng
    per_lib = ctx.n(45, 2200)
    for name in L.shipped_names():
        info = L.shipped(name)
        pool = [n for n in info.names if n in info.corr]
        # (a) the unit vector of every group
        for i, nm in enumerate(pool):
            for T in L.temperatures(info, rng, [nm], ctx.n(2, 6)):
                key = nm if i % 2 else info.keyobj[nm]
                one(ctx, batch, info, [(key, 1)], T, decoys=rng.sample(pool, min(4, len(pool))))
                ctx.count('unit_vectors')
            if ctx.time_left() < 120:
                raise common.MachineryError('out of time in the exhaustive unit-vector pass')
        # (b) random sparse / dense mappings, some with descriptors that have no data; every other one is preceded, on the
        # same estimate object, by a request relative to the elements (needs a remembered molecule: decompose one)
        try:
            with L.quiet():
                info.lib.GetDescriptors('CC')
        except Exception:
            pass
        for j in range(per_lib):
            L.PRE_ELEMENTAL[0] = (j % 2 == 1)
            ctx.count('pre_elemental' if L.PRE_ELEMENTAL[0] else 'plain_only')
            r = rng.random()
            size = rng.randint(1, 4) if r < 0.5 else rng.randint(5, min(40, len(pool))) if r < 0.93 else len(pool)
            mapping = L.random_mapping(info, rng, size, with_missing=0.2)
            T = L.temperatures(info, rng, [str(k) for k, _ in mapping], 1)[0]
            one(ctx, batch, info, mapping, T, full_lib=(j % 5 == 0), relational=(j % 3 == 0))
        L.PRE_ELEMENTAL[0] = False
        # (c) fixed shapes: empty mapping, unregistered property set, only-missing, a group of another library
        one(ctx, batch, info, [], 298.15)
        one(ctx, batch, info, [(pool[0], 2)], 300.0, set_name='thermochem2')
        one(ctx, batch, info, [(pool[0], 2)], 300.0, set_name='')
        one(ctx, batch, info, [(rng.choice(UNKNOWN), 1)], 300.0)
        one(ctx, batch, info, [(UNKNOWN[0], 1), (pool[-1], 1), (UNKNOWN[1], 0), (pool[0], -1), (UNKNOWN[2], 2.5)], 300.0, full_lib=True)


def synthetic_cases(ctx, batch):
    rng = ctx.rng
    for i in range(ctx.n(120, 3000)):
        seed = rng.randrange(1 << 30)
        kw = {'n_groups': rng.choice([1, 2, 3, 5, 8, 12]), 'exact_mode': True,
              'ranges': rng.choice(['some', 'some', 'all', 'none', 'disjoint'])}
        info = L.synthetic_seeded(seed, 'synthetic-%d' % i, **kw)
        pool = [n for n in info.names if n in info.corr]
        nodata = [n for n in info.names if n not in info.corr]
        for j in range(4):
            mapping = L.random_mapping(info, rng, rng.randint(1, len(pool)), with_missing=0.15, pool=pool)
            if nodata and rng.random() < 0.2:
                mapping.insert(rng.randint(0, len(mapping)), (rng.choice(nodata), L.random_count(rng, True)))
            T = rng.choice([298.15, 298.15, 300.0, 250.0, 1000.0])
            one(ctx, batch, info, mapping, T, full_lib=True, relational=(j == 0))
            ctx.count('synthetic_cases')


def fresh_library_case(ctx, batch):
    """a library that never decomposed a molecule (defect F1's class): Load -> Estimate"""
    GroupLibrary = L._imports()[0]
    name = ctx.rng.choice(L.shipped_names())
    info = L.LibInfo(name, GroupLibrary.Load(name), matlib=None)
    info.matlib = name if info.uq else None
    pool = [n for n in info.names if n in info.corr]
    c = one(ctx, batch, info, [(pool[0], 2)], 298.15)
    c.input['fresh'] = True
    ctx.count('fresh_library')


def pollute_defaults(ctx):
    """A hand-built library merged with a library that carries uncertainty data, BEFORE the synthetic libraries are built with
    the constructor's default arguments: nothing of it may show up in libraries constructed later."""
    GroupLibrary = L._imports()[0]
    try:
        with L.quiet():
            src = [n for n in L.shipped_names() if L.shipped(n).uq][0]
            a = GroupLibrary(None)
            a.Update(GroupLibrary.Load(src))
            b = GroupLibrary(None)
        ctx.count('default_pollution_attempts')
        if b.uq_contents or len(b.contents):
            ctx.violation('a library constructed with default arguments holds data of a library merged into ANOTHER library earlier',
                          {'merged_first': src}, expected='empty', observed={'uq_keys': sorted(b.uq_contents), 'groups': len(b.contents)})
    except Exception as e:
        raise common.MachineryError('pollution attempt failed: %r' % (e,))


def run(ctx):
    batch = []
    for fname, rec in common.load_corpus('C01'):
        ctx.count('corpus')
        if not replay(ctx, rec, batch):
            ctx.count('corpus_failing')
    pollute_defaults(ctx)
    fresh_library_case(ctx, batch)
    shipped_cases(ctx, batch)
    synthetic_cases(ctx, batch)
    nonfinite_cases(ctx)
    replies = ctx.model([dict(c.request, op='c01.estimate') for c in batch])
    if replies is not None:
        for c, rep in zip(batch, replies):
            ctx.count('corr_cases')
            ctx.count('model_' + ('ok' if 'ok' in rep else rep['err']['kind']))
            if 'ok' in rep:
                for p in ('cp', 'h'):
                    ctx.count('model_%s_%s' % (p, 'ok' if 'ok' in rep['ok'][p] else rep['ok'][p]['err']))
            # properties hit by the recorded finding F12 are excluded from the tie only when both sides say so
            L.compare(ctx, c, rep, 'c01.estimate', parts=('nd',))
    L.floors(ctx, {'unit_vectors': 1500, 'corr_cases': 2000, 'model_missing': 100, 'model_emptyRange': 20, 'model_invalidSet': 9,
                   'exact_comparisons': 200, 'model_cp_incomplete': 200, 'model_h_incomplete': 50, 'count_fractional': 300,
                   'count_negative': 300, 'count_zero': 200, 'size_16+': 40, 'relational': 60, 'fresh_library': 1, 'corpus': 1,
                   'nonfinite_cases': 80, 'nonfinite_expect_nan': 100, 'nonfinite_expect_inf': 30, 'nonfinite_expect_finite': 40})


def replay(ctx, rec, batch=None):
    """re-run a recorded input on the implementation against the statement"""
    inp = rec.get('input', rec)
    before = len(ctx.violations)
    if inp.get('nonfinite'):
        nf_check(ctx, inp['nonfinite'], [(nm, L.dec_num(n)) for nm, n in inp['mapping']], L.dec_num(inp['T']))
        return len(ctx.violations) == before
    info, mapping, T = L.rebuild(inp)
    c = L.run_case(info, mapping, T, set_name=inp.get('set', L.SET), full_lib=True)
    oracle(ctx, c, relational=True)
    if batch is not None:
        batch.append(c)
    return len(ctx.violations) == before


LEVEL_TEXT = ('Lean 4 theorems, for every library, every mapping of any length with rational counts (integer, fractional, zero, negative) '
              'and every temperature: Cp/R, H/RT, S/R, G/RT of the estimate equal the sum of count times the constituent\'s own value; '
              'an error results exactly when some constituent lacks the datum (the error of the first such constituent); the missing-data '
              'error names exactly the descriptors without the property set, in mapping order, and then no estimate object exists; order, '
              'splitting, merging and scaling of the mapping act linearly.  The model is tied to Library.py/group_data.py/base.py by a '
              'correspondence run (exhaustive unit vectors of all nine libraries, random and synthetic mappings, exact on Fractions). '
              'Right level: the quantifier is over all mappings and libraries, which only a proof covers.')
LEVEL_NOTE = ('Trusted: Lean kernel; axioms propext/Classical.choice/Quot.sound; the correspondence harness; the decimal/rational '
              'abstraction of float arithmetic (the sum is exact in the model, compared under a 1e-9 relative tolerance scaled by the sum '
              'of |terms|); the per-group correlation values are inputs of the model (their own correctness is C05/C06). Modelled not '
              'verified: Estimate, __getitem__, ThermochemGroupAdditive, get_GoRT.')
TECHNIQUE = 'Lean 4 proof over hand-written model + correspondence check'
