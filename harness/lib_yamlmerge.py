"""Shared helpers of the C12 / C13 / C18 checks (yaml loading, merging, formatting of group correlations).

Everything here talks to the real pgradd of $REPO in-process: synthetic library directories are written under
ctx.scratch, loaded with GroupLibrary.Load, and the loaded objects are observed field by field.
Numbers the generators write are finite decimals held as `fractions.Fraction`, so the text written, the value the
implementation reads (the nearest double) and the value the model gets (the exact decimal) are all known.
"""
import os, io, math, contextlib, warnings
from fractions import Fraction
from decimal import Decimal
from . import common

# ---------------------------------------------------------------------------------------------------------------
# units the generators use (the translator harness/gen/yamlunits.py dumps SI factor + dimension of each of these
# from the live pgradd.Units, so the model never parses a unit expression itself: dependency on the C10 model)
KIND_NAME = {'H': 'molar enthalpy', 'S': 'molar entropy', 'Cp': 'molar heat capacity', 'T': 'temperature'}
UNITS = {
    'H': ['J/mol', 'kJ/mol', 'kcal/mol', 'cal/mol', 'eV/molecule', 'MJ/kmol', 'mJ/mmol', 'kJ/kmol', 'BTU/mol',
          'J/molecule', 'kcal/kmol', 'meV/molecule', 'GJ/Mmol', 'erg/mol', 'kW h/mol', 'aJ/mol', 'daJ/mol'],
    'S': ['J/mol/K', 'J/(mol K)', 'cal/mol/K', 'cal/(mol K)', 'kJ/(mol K)', 'kcal/(mol K)', 'kJ/kmol/K',
          'eV/(molecule K)', 'mJ/(mol K)', 'J/(mol mK)', 'BTU/(mol K)', 'cal/(mmol kK)'],
    'T': ['K', 'kK', 'mK', 'hK', 'cK', 'dK', 'uK', 'daK'],
}
UNITS['Cp'] = UNITS['S']
# units of the wrong dimension, by the kind they are (mis)used for
WRONG = {
    'H': ['K', 'J/mol/K', 'kJ', 'm', 'kcal/kg', 'mol/J'],
    'S': ['J/mol', 'K', 'kJ/K', 'cal/mol/K^2', 's'],
    'Cp': ['J/mol', 'K', 'kJ/K', 'cal/mol/K^2', 's'],
    'T': ['J', 'm', 'K^2', 'mol', '1/K', 's'],
}
ALL_UNIT_STRINGS = sorted(set(sum(UNITS.values(), []) + sum(WRONG.values(), [])))


def dec_text(q):
    """exact positional decimal text of a Fraction that is a finite decimal (no exponent: the unit tokenizer and
    PyYAML's YAML-1.2 float resolver both mis-read `1e-05`)."""
    q = Fraction(q)
    k = 0
    while (q * 10 ** k).denominator != 1:
        k += 1
        if k > 400:
            raise common.MachineryError('not a finite decimal: %r' % (q,))
    n = (q * 10 ** k).numerator
    s = str(abs(n)).rjust(k + 1, '0')
    txt = s[:len(s) - k] + ('.' + s[len(s) - k:] if k else '')
    return ('-' if n < 0 else '') + txt


def round_sig(q, digits=15):
    """Fraction rounded to `digits` significant decimal digits (still an exact finite decimal)"""
    q = Fraction(q)
    if q == 0:
        return q
    e = math.floor(math.log10(abs(float(q)))) if abs(q) > Fraction(1, 10 ** 300) else -300
    scale = Fraction(10) ** (digits - 1 - e)
    return Fraction(round(q * scale)) / scale


# ---------------------------------------------------------------------------------------------------------------
# live facts of the implementation
_unit_cache = {}


def unit_info(u):
    """(SI factor as exact decimal Fraction of the double, dimension exponents as 7 ints) of a unit string, from the
    live pgradd.Units"""
    if u not in _unit_cache:
        from pgradd.Units import eval_qty
        with quiet():
            q = eval_qty(u)
        if isinstance(q, (int, float)):
            _unit_cache[u] = (common.frac_of_float(q), (0,) * 7)
        else:
            ex = [float(x) for x in q.units.exps]
            if any(abs(x - round(x)) > 0 for x in ex):
                raise common.MachineryError('fractional dimension in %r' % u)
            _unit_cache[u] = (common.frac_of_float(q.value), tuple(int(round(x)) for x in ex))
    return _unit_cache[u]


def gas_constant():
    from pgradd.Consts import GAS_CONSTANT as R
    return common.frac_of_float(R.value)


@contextlib.contextmanager
def quiet():
    """pgradd.Units has stray debugging prints (`print('here')`, FundamentalUnits.__eq__): keep them off our stdout"""
    buf = io.StringIO()
    with contextlib.redirect_stdout(buf), warnings.catch_warnings():
        warnings.simplefilter('ignore')
        yield


def err_class(e):
    """small enum for exceptions escaping from load / update / format"""
    from pgradd.yaml_io.common import InputDataError, SchemaDefinitionError
    from pgradd.Error import (ReadOnlyDataError, GroupSyntaxError, UnitsParseError, UnitsError, IncompleteDataError,
                              OutsideCorrelationError)
    table = [(InputDataError, 'inputData'), (ReadOnlyDataError, 'readOnly'), (GroupSyntaxError, 'groupSyntax'),
             (UnitsParseError, 'unitsParse'), (UnitsError, 'units'), (IncompleteDataError, 'incomplete'),
             (OutsideCorrelationError, 'outside'), (ImportError, 'import'), (KeyError, 'key'), (ValueError, 'value'),
             (AssertionError, 'assertion'), (ZeroDivisionError, 'zeroDiv'), (TypeError, 'type'),
             (AttributeError, 'attr')]
    return common.exc_class(e, table)


def is_plain(x):
    """a plain real number (Python/NumPy float or int), not a unit-carrying object"""
    import numpy as np
    from pgradd.Units import Quantity
    from pgradd.Units.qty import GenericQuantity
    if isinstance(x, GenericQuantity) or isinstance(x, bool):
        return False
    return isinstance(x, (int, float, np.floating, np.integer))


def obs_value(x):
    """observable form of a loaded scalar: None | {'num': float} | {'qty': float, 'dim': [7 ints]} | {'other': type}"""
    from pgradd.Units.qty import Quantity
    if x is None:
        return None
    if is_plain(x):
        return {'num': float(x)}
    if isinstance(x, Quantity):
        return {'qty': float(x.value), 'dim': [int(round(float(e))) for e in x.units.exps]}
    return {'other': type(x).__name__}


def obs_corr(c):
    """full observable state of a ThermochemIncomplete"""
    return {
        'H': obs_value(c.ND_H_ref), 'S': obs_value(c.ND_S_ref),
        'cp': sorted(([float(T), obs_value(v)] for T, v in (c.ND_Cp_data or {}).items()), key=lambda p: p[0]),
        'Tref': float(c.T_ref),
        'range': None if c.get_range() is None else [float(c.get_range()[0]), float(c.get_range()[1])],
    }


def all_plain(o):
    return all(v is None or 'num' in v for v in [o['H'], o['S']] + [p[1] for p in o['cp']])


# ---------------------------------------------------------------------------------------------------------------
# synthetic library directories
SCHEME_TEXT = 'patterns: []\n'


def new_dir(ctx, tag):
    ctx._ym_n = getattr(ctx, '_ym_n', 0) + 1
    d = os.path.join(ctx.scratch, '%s%06d' % (tag, ctx._ym_n))
    os.makedirs(d)
    with open(os.path.join(d, 'scheme.yaml'), 'w') as f:
        f.write(SCHEME_TEXT)
    return d


class Q(object):
    """string scalar '<v> <u>' of a generated tree (a value with explicit units)"""
    __slots__ = ('v', 'u', 'sci')

    def __init__(self, v, u, sci=None):
        self.v = Fraction(v)
        self.u = u
        self.sci = sci          # 1: 'm * 10^k u', 2: 'm*10^k u' (the only way the unit grammar writes a power of ten)

    def text(self):
        if self.sci and self.v != 0:
            k = math.floor(math.log10(abs(float(self.v))))
            m = self.v / Fraction(10) ** k
            return ('%s * 10^%d %s' if self.sci == 1 else '%s*10^%d %s') % (dec_text(m), k, self.u)
        return '%s %s' % (dec_text(self.v), self.u)

    def __repr__(self):
        return 'Q(%s)' % self.text()


class Bad(object):
    """a string scalar that is no quantity"""
    __slots__ = ('s',)

    def __init__(self, s):
        self.s = s


def yaml_scalar(v):
    """text of a scalar of a generated tree: None -> null, Fraction/int -> decimal text, str -> quoted string"""
    if v is None:
        return 'null'
    if isinstance(v, Q):
        return '"%s"' % v.text()
    if isinstance(v, Bad):
        return '"%s"' % v.s
    if isinstance(v, (Fraction, int)) and not isinstance(v, bool):
        return dec_text(v)
    if isinstance(v, str):
        return '"%s"' % v.replace('\\', '\\\\').replace('"', '\\"')
    raise common.MachineryError('scalar %r' % (v,))


def yaml_flow(t):
    """flow-style YAML text of a generated tree (dict / list / scalar)"""
    if isinstance(t, dict):
        return '{' + ', '.join('%s: %s' % (yaml_scalar(str(k)), yaml_flow(v)) for k, v in t.items()) + '}'
    if isinstance(t, (list, tuple)):
        return '[' + ', '.join(yaml_flow(v) for v in t) + ']'
    return yaml_scalar(t)


def qtext(v, u):
    """string scalar '<v> <u>' (explicit units on the value)"""
    return '%s %s' % (dec_text(v), u)


def tree_equal(parsed, tree):
    """A-yaml: what PyYAML (through yaml_io.parse) makes of the written text is the obvious tree"""
    if isinstance(tree, dict):
        return isinstance(parsed, dict) and list(map(str, parsed.keys())) == list(map(str, tree.keys())) and \
            all(tree_equal(parsed[k], tree[k]) for k in tree)
    if isinstance(tree, (list, tuple)):
        return isinstance(parsed, list) and len(parsed) == len(tree) and all(tree_equal(a, b) for a, b in zip(parsed, tree))
    if tree is None:
        return parsed is None
    if isinstance(tree, Q):
        return isinstance(parsed, str) and parsed == tree.text()
    if isinstance(tree, Bad):
        return isinstance(parsed, str) and parsed == tree.s
    if isinstance(tree, str):
        return isinstance(parsed, str) and parsed == tree
    if isinstance(tree, (Fraction, int)):
        return isinstance(parsed, (int, float)) and not isinstance(parsed, bool) and float(parsed) == float(Fraction(tree))
    return False


def write_file(path, tree):
    """write one library file given as {'units': {...}, 'include': [...], 'groups': {name: {'thermochem': {...}}}}"""
    lines = []
    if tree.get('units') is not None:
        lines.append('units: ' + yaml_flow(tree['units']))
    if tree.get('include'):
        lines.append('include: ' + yaml_flow(list(tree['include'])))
    if tree.get('groups') is not None:
        lines.append('groups:')
        for name, body in tree['groups']:
            lines.append('  %s: %s' % (yaml_scalar(name), yaml_flow(body)))
        if not tree['groups']:
            lines[-1] = 'groups: {}'
    text = '\n'.join(lines) + '\n'
    with open(path, 'w') as f:
        f.write(text)
    return text


@contextlib.contextmanager
def in_dir(d):
    """run a block with the process's current directory set to d (None: leave it)"""
    old = os.getcwd()
    if d is not None:
        os.chdir(d)
    try:
        yield
    finally:
        os.chdir(old)


def load_library(path, cwd=None):
    """GroupLibrary.Load -> ('ok', lib) | ('err', class); `cwd`: the current directory of the process during the load"""
    import pgradd.ThermoChem  # registers the property set
    from pgradd.GroupAdd.Library import GroupLibrary
    try:
        with quiet(), in_dir(cwd):
            return 'ok', GroupLibrary.Load(path)
    except RecursionError:
        return 'err', 'recursion'
    except Exception as e:
        return 'err', err_class(e)


def read_texts(d):
    """{path relative to d: text} of every .yaml file below d except the scheme"""
    out = {}
    for root, _, fs in os.walk(d):
        for f in fs:
            if f.endswith('.yaml') and f != 'scheme.yaml':
                p = os.path.join(root, f)
                out[os.path.relpath(p, d)] = open(p).read()
    return out


def write_texts(d, texts):
    for rel, text in texts.items():
        p = os.path.join(d, rel)
        os.makedirs(os.path.dirname(p), exist_ok=True)
        with open(p, 'w') as f:
            f.write(text)


def obs_library(lib):
    """{canonical group name: observable correlation or None when the group has no thermochem entry}"""
    out = {}
    for g in lib:
        ps = lib[g]
        has = 'thermochem' in ps
        out[str(g)] = obs_corr(ps['thermochem']) if has else None
    return out


# ---------------------------------------------------------------------------------------------------------------
# JSON encodings for the driver
def jr(q):
    return common.jrat(Fraction(q))


def jtree(t):
    """generated tree -> the driver's JSON encoding of a YAML value"""
    if t is None:
        return None
    if isinstance(t, Q):
        return {'q': jr(t.v), 'u': t.u}
    if isinstance(t, Bad):
        return {'bad': True}
    if isinstance(t, dict):
        return {'m': [[str(k), jtree(v)] for k, v in t.items()]}
    if isinstance(t, (list, tuple)):
        return [jtree(v) for v in t]
    if isinstance(t, (Fraction, int)) and not isinstance(t, bool):
        return jr(t)
    raise common.MachineryError('tree node %r' % (t,))


def jshow(t):
    """generated tree -> plain JSON-able form for replay files"""
    if isinstance(t, Q):
        return {'Q': [str(t.v), t.u]}
    if isinstance(t, Bad):
        return {'Bad': t.s}
    if isinstance(t, dict):
        return {'map': [[str(k), jshow(v)] for k, v in t.items()]}
    if isinstance(t, (list, tuple)):
        return [jshow(v) for v in t]
    if isinstance(t, Fraction):
        return {'F': str(t)}
    return t


def junshow(j):
    if isinstance(j, dict):
        if 'Q' in j:
            return Q(Fraction(j['Q'][0]), j['Q'][1])
        if 'Bad' in j:
            return Bad(j['Bad'])
        if 'F' in j:
            return Fraction(j['F'])
        if 'map' in j:
            return dict((k, junshow(v)) for k, v in j['map'])
    if isinstance(j, list):
        return [junshow(v) for v in j]
    return j


def j_opt(q):
    return None if q is None else jr(q)


def model_num(j):
    """driver value -> Fraction | None"""
    return None if j is None else common.unjrat(j)


def close(impl, model, rel=1e-9, scale=0.0):
    return common.close(impl, model, scale, rel)
