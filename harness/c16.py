"""C16 — a RING reaction rule applies exactly its declared edit per match.

Proof: lean/PGA/Props/C16.lean (model PGA/Model/Rxn.lean of pgradd/RINGParser/ReactionQueryRead.py and
pgradd/RDkitWrapper/ReactionQuery.py, on top of the C08 models of the fragment reader and the matcher).
Tie: `Read(rule_text)` (outcome class, labels, the edit objects with their parameters) and `RunReactants(mol)` (the
edited molecule per match by original atom index, its split into molecules, canonical SMILES with explicit H per
product, the exception class when an edit cannot be applied) against the model driver fed with the implementation's
own parse tree (harness/lib_ast.py) and the graph of `Chem.AddHs(mol)` (harness/lib_mol.py); the edit classes one by
one on arbitrary index maps (`c16.apply`).
Property oracle: harness/lib_rulegen.py — an independent reading of the property on the generator's structured rule
and the plain graph: how reading must end (declared per-label electron balance), the declared edits applied to a copy
of the graph with dicts, conservation / frame / balance clauses on every product set the implementation returns, one
product set per embedding of the reactant pattern (C08 oracle `lib_embeds`).
"""
import os, json, base64, collections, inspect, copy
from . import common
from . import lib_mol, lib_ast, lib_embeds as EM, lib_molgen_c08 as MG, lib_rulegen as RU

PROPS = ['PGA.Props.C16']
GEN = ['Chars', 'MolQuery']
OBLIGATIONS = ['PGA.C16.' + t for t in [
    'C16_atoms_conserved', 'C16_components_partition', 'C16_elements_conserved', 'C16_components_connected',
    'C16_components_closed', 'C16_same_molecule_iff_connected',
    'C16_edit_exact', 'C16_edit_applicable_iff', 'C16_frame_atoms', 'C16_frame_bonds', 'C16_bond_edits_leave_atoms', 'C16_atom_edits_leave_bonds',
    'C16_edit_balance', 'C16_balance', 'C16_unbalanced_rejected', 'C16_read_edits_in_range',
    'C16_one_product_set_per_match', 'C16_run_per_match', 'C16_balance_run', 'C16_product_sets_eq_embeddings_partial',
    'C16_matches_injective',
    'C16_wf_preserved', 'C16_static_balance_unsound_without_checks', 'C16_ethane_scission', 'C16_scission_total']]
RULE = ('cases = (rule, molecule) pairs. Rules: ~110 designed unimolecular rules (the docstring C-H scission, homolytic '
        'scissions, bond-order changes, recombination / ring closure, H shift, beta scission, radical / charge / radical-set '
        'edits, every edit kind in a balanced rule, rules editing one bond or atom several times, rules whose edits cannot be '
        'applied on some matches, ill-formed and unbalanced rules, modify atomtype, constraints) plus random rules: a reactant '
        'fragment of 1..4 atoms (symbols C/H/O/N/$/X/&/Pt, every suffix but *, every bond word, occasional prefixes and '
        'constraints) and 1..5 random edits (form/break/modify/increase/decrease bond, radical +/-/set, charge +/-), balanced by '
        'appended radical/charge edits in random order, or deliberately unbalanced by one change; random layout. Molecules: '
        'every sanitizable molecule of <= 3 heavy atoms over C/O/N with bond orders 1-3, rings, one charged or radical atom, '
        '~160 special ones (aromatic, Pt/Ru, zero/dative/quadruple bonds, ions, radicals, polycycles), handed over with '
        'explicit hydrogens tagged by their index (and a sample also with implicit hydrogens), biased towards molecules the '
        'reactant pattern matches. A case is non-trivial when the rule is read and the pattern has at least one embedding; '
        'distinct = distinct (canonical rule text, molecule).')
ASSUMPTIONS = [
    'A-graph: the RDKit graph of Chem.AddHs(mol) (atomic numbers, formal charges, radical electrons, bond types) is the molecule; '
    'consistency facts re-checked on every molecule (lib_mol.check_graph)',
    'A-canon: RDKit canonical SMILES (explicit H, no sanitization) of a product rebuilt from (Z, charge, radicals, aromatic flag, bond types) '
    'is used as the per-product observable; the tie also compares the products atom by atom through index tags, which needs no such assumption',
    'RDKit edge behaviour, probed on every run (assumption check A-rdkit): AddBond on bonded atoms / a self bond raises RuntimeError, RemoveBond '
    'of a missing bond does nothing, GetBondBetweenAtoms of unbonded atoms is None, SetNumRadicalElectrons(-1) raises OverflowError, '
    'GetMolFrags orders molecules by smallest atom and keeps atom properties',
    'formal charges stay inside RDKit\'s int8 (|charge| < 127) and radical counts inside uint32: rules are short',
    'the electron convention of the balance is the code\'s and the oracle\'s: change of (bond order sum + radical electrons + formal charge) '
    'is zero at every labelled atom (lone pairs are not represented)',
    'no molecule carries a bond of type UNSPECIFIED or QUINTUPLE on input',
]
TRUSTED = ['modelled, not verified: ReactionQueryReader (ReactionQueryRead.py), the edit classes and ReactionQuery.RunReactants (ReactionQuery.py)',
           'the fragment reader and the matcher are the C08 models (PGA.readFragment, PGA.queryMatches); the parser is not part of this '
           'model: the tree comes from the implementation\'s own parser (C09 models it)',
           'harness/lib_mol.py (graph extraction), harness/lib_ast.py (tree serialisation), harness/lib_rulegen.py and harness/lib_embeds.py (oracle)']
TECHNIQUE = 'Lean 4 proof over hand-written model + correspondence check'
LEVEL_TEXT = ('Lean 4 theorems for every rule tree, every molecule graph and every match: no edit adds or removes an atom or changes an '
              'element, the product molecules partition the reactant\'s atoms; every edit operator changes exactly the named atom or bond '
              'in the declared way and nothing else (frame), lifted over edit lists of any length; a rule that is read has a zero declared '
              'balance at every label and then, on every index map without repetitions on which all edits succeed, the change of bond order '
              'sum + radical electrons + formal charge is zero at every labelled atom; an unbalanced rule is rejected as RINGReaderError; '
              'one product set per match, and (with C08) per embedding of the reactant pattern. Tied to the code by a differential run on '
              'generated rule x molecule pairs. A proof is the right level: the quantifier is over all rules, molecules and matches.')
LEVEL_NOTE = ('Trusted: Lean kernel; RDKit as graph provider, candidate enumerator and for the probed edge behaviour of RWMol; the parser '
              '(tree taken from the real parser). Partial: the count of product sets equals the count of embeddings under C08\'s guard '
              '"no * suffix" and below the 10 000-candidate cap. That the product molecules are exactly the connected components of the '
              'edited graph is proved of the model and compared with GetMolFrags on every product.')

BT_NAMES = ['single', 'double', 'triple', 'quadruple', 'quintuple', 'aromatic', 'zero', 'dative', 'other']
_state = {}


def rd():
    if 'Chem' not in _state:
        from rdkit import Chem, RDLogger
        RDLogger.DisableLog('rdApp.*')
        _state['Chem'] = Chem
        BT = Chem.BondType
        _state['BT'] = {'single': BT.SINGLE, 'double': BT.DOUBLE, 'triple': BT.TRIPLE, 'quadruple': BT.QUADRUPLE,
                        'quintuple': BT.QUINTUPLE, 'aromatic': BT.AROMATIC, 'zero': BT.ZERO, 'dative': BT.DATIVE, 'other': BT.OTHER}
        _state['KIND'] = dict(lib_mol.KIND)
        _state['KIND'][BT.QUINTUPLE] = 'quintuple'
    return _state['Chem']


def kind_name(bt):
    rd()
    if bt is None:
        return None
    return _state['KIND'].get(bt, 'misc' if str(bt) != 'UNSPECIFIED' else 'unspecified')


def exc_tables():
    if 'EXC' not in _state:
        from pgradd.Error import RINGSyntaxError, RINGReaderError, ReactionQueryError
        _state['EXC'] = [(RINGSyntaxError, 'syntax'), (RINGReaderError, 'reader'), (NotImplementedError, 'notImplemented')]
        _state['RUNEXC'] = [(ReactionQueryError, 'queryError'), (OverflowError, 'overflow'), (AttributeError, 'attribute'),
                            (IndexError, 'index'), (RuntimeError, 'rdkit')]
    return _state['EXC'], _state['RUNEXC']


def impl_read(text):
    from pgradd.RINGParser.Reader import Read
    try:
        return Read(text), 'ok'
    except Exception as e:
        return None, common.exc_class(e, exc_tables()[0])


def impl_edit(t):
    n = type(t).__name__
    if n == 'BondForm':
        return ['bondForm', t.idx1, t.idx2, kind_name(t.bondtype)]
    if n == 'BondBreak':
        return ['bondBreak', t.idx1, t.idx2, kind_name(getattr(t, 'bondtype', None))]
    if n == 'BondModify':
        return ['bondModify', t.idx1, t.idx2, kind_name(t.bondtype), kind_name(getattr(t, 'oldtype', None))]
    if n == 'BondIncrease':
        return ['bondIncrease', t.idx1, t.idx2]
    if n == 'BondDecrease':
        return ['bondDecrease', t.idx1, t.idx2]
    if n == 'RadicalModify':
        return ['radicalModify', t.idx, t.radical, getattr(t, 'oldradical', None)]
    if n == 'AtomTypeModify':
        return ['atomTypeModify', t.idx, t.radical, t.charge] + ([t.valence] if t.valence else [])
    if n in ('RadicalIncrease', 'RadicalDecrease', 'ChargeIncrease', 'ChargeDecrease'):
        return [n[0].lower() + n[1:], t.idx]
    return ['?' + n]


def impl_summary(rq):
    names = list(rq.reactantquery)
    q = rq.reactantquery[names[0]] if len(names) == 1 else None
    return {'name': rq.name, 'natoms': q.mol.GetNumAtoms() if q is not None else -1,
            'labels': list(q.atom_names) if q is not None else [], 'edits': [impl_edit(t) for t in rq.transformations]}


# ---------------------------------------------------------------------------------------------- molecules
TAG = 'c16i'


class Pool(object):
    def __init__(self):
        self.entries = []
        self.bad_graph = []
        self.skipped = collections.Counter()
        self.by_name = {}

    def add(self, name, mol):
        Chem = rd()
        from .c08 import mol_features
        try:
            H = Chem.AddHs(mol)
            g = lib_mol.mol_to_json(H)
        except lib_mol.UnsupportedGraph:
            self.skipped['unspecified_bond'] += 1
            return None
        except Exception as e:
            self.skipped['addhs_' + type(e).__name__] += 1
            return None
        if any(str(b.GetBondType()) == 'QUINTUPLE' for b in H.GetBonds()):
            self.skipped['quintuple_bond'] += 1
            return None
        bad = lib_mol.check_graph(H, g)
        if bad:
            self.bad_graph.append((name, bad))
        for a in H.GetAtoms():
            a.SetIntProp(TAG, a.GetIdx())
        ent = {'name': name, 'mol': mol, 'H': H, 'g': g, 'G': EM.Graph(g), 'feats': mol_features(g)}
        self.entries.append(ent)
        self.by_name[name] = ent
        return ent


def build_pool(ctx):
    pool = Pool()
    small = MG.small_molecules(3)
    for smi, m in small:
        pool.add(smi, m)
    ctx.count('mols_small_exhaustive', len(small))
    for smi, m in MG.special_molecules():
        pool.add(smi, m)
        p = MG.prepare(m, 'kek')
        if p is not None:
            pool.add(smi + '#kek', p)
    for smi in ['[CH3]C', '[CH2]C[CH2]', 'C[CH]C', '[CH2]CC', '[CH2][CH2]', '[CH2]C=C', '[CH]=C', '[C]#C', '[CH2]O', 'C[O]', '[CH2][O]',
                'CC[CH2]', '[CH2]CO', '[CH2]N', 'C[NH]', '[H][H]', 'C[CH2+]', 'C[CH2-]', '[CH2+][CH2]', 'CCCC', 'CC(C)C', 'C=CC', 'CC=O',
                '[CH2]C([CH2])[CH2]', 'C1CC1[CH2]', '[CH2]c1ccccc1', '[CH]1CC1', 'O[CH]O', '[CH2][CH][CH2]', 'C[C]C', '[CH]C', '[C]C']:
        m = rd().MolFromSmiles(smi)
        if m is not None and smi not in pool.by_name:
            pool.add(smi, m)
    # random larger molecules, radicals and adsorbates (the C02-C04 generator), fixed gas / surface species
    from . import lib_molgen as LG
    rng = ctx.rng
    for smi in LG.FIXED_GAS + LG.FIXED_SURFACE:
        m = rd().MolFromSmiles(smi)
        if m is not None and m.GetNumHeavyAtoms() <= 12 and smi not in pool.by_name:
            pool.add(smi, m)
    for k in range(ctx.n(150, 900)):
        smi = LG.gen_smiles(rng, kind=rng.choice(['gas', 'gas', 'gas', 'surface']), max_heavy=rng.choice([3, 4, 5, 6, 8]))
        m = rd().MolFromSmiles(smi) if smi else None
        if m is not None and smi not in pool.by_name:
            pool.add(smi, m)
            ctx.count('mols_random')
    # renumbered copies (the products must not depend on the atom order of the reactant)
    base = [e for e in pool.entries if 2 <= len(e['g']['atoms']) <= 16]
    for e in rng.sample(base, min(len(base), ctx.n(120, 600))):
        try:
            pool.add(e['name'] + '#perm', MG.renumbered(e['mol'], rng))
            ctx.count('mols_renumbered')
        except Exception:
            pass
    ctx.count('mols_total', len(pool.entries))
    for k, v in pool.skipped.items():
        ctx.count('mols_skipped_' + k, v)
    return pool


def probe_rdkit(ctx):
    """assumption check A-rdkit: the edge behaviour of RWMol the model's explicit outcomes stand for"""
    Chem = rd()
    facts = []
    m = Chem.RWMol(Chem.AddHs(Chem.MolFromSmiles('CC')))
    for what, fn, exc in [('AddBond on bonded atoms', lambda: m.AddBond(0, 1, Chem.BondType.SINGLE), RuntimeError),
                          ('AddBond self bond', lambda: m.AddBond(0, 0, Chem.BondType.SINGLE), RuntimeError),
                          ('SetNumRadicalElectrons(-1)', lambda: m.GetAtomWithIdx(0).SetNumRadicalElectrons(-1), OverflowError)]:
        try:
            fn()
            facts.append((what, False))
        except exc:
            facts.append((what, True))
        except Exception:
            facts.append((what, False))
    nb = m.GetNumBonds()
    try:
        m.RemoveBond(2, 5)
        facts.append(('RemoveBond of a missing bond does nothing', m.GetNumBonds() == nb))
    except Exception:
        facts.append(('RemoveBond of a missing bond does nothing', False))
    facts.append(('GetBondBetweenAtoms of unbonded atoms is None', m.GetBondBetweenAtoms(2, 5) is None))
    for a in m.GetAtoms():
        a.SetIntProp(TAG, a.GetIdx())
    m.RemoveBond(0, 1)
    fr = Chem.GetMolFrags(m, asMols=True, sanitizeFrags=False)
    facts.append(('GetMolFrags: by smallest atom, ascending, properties kept',
                  [[a.GetIntProp(TAG) for a in p.GetAtoms()] for p in fr] == [[0, 2, 3, 4], [1, 5, 6, 7]]))
    m.AddBond(0, 1, Chem.BondType.QUINTUPLE)
    facts.append(('QUINTUPLE bonds can be written', str(m.GetBondBetweenAtoms(0, 1).GetBondType()) == 'QUINTUPLE'))
    bad = [w for w, ok in facts if not ok]
    ctx.assumption('A-rdkit', not bad, '%d facts probed%s' % (len(facts), ('; FAILED: %r' % bad) if bad else ''))


# ---------------------------------------------------------------------------------------------- products
def extract_products(ps, n):
    """one product set of the implementation -> (atoms by original index, bonds {pair: kind}, comps) or a string"""
    atoms = [None] * n
    bonds = {}
    comps = []
    for p in ps:
        try:
            idx = [a.GetIntProp(TAG) for a in p.GetAtoms()]
        except KeyError:
            return 'a product atom carries no index tag (an atom was created)'
        comps.append(idx)
        for a, i in zip(p.GetAtoms(), idx):
            if not (0 <= i < n) or atoms[i] is not None:
                return 'a product atom occurs twice or is not an atom of the reactant'
            atoms[i] = [a.GetAtomicNum(), a.GetFormalCharge(), a.GetNumRadicalElectrons(), 1 if a.GetIsAromatic() else 0]
        for b in p.GetBonds():
            pr = frozenset((idx[b.GetBeginAtomIdx()], idx[b.GetEndAtomIdx()]))
            if pr in bonds:
                return 'parallel bonds in a product'
            bonds[pr] = kind_name(b.GetBondType())
    if any(a is None for a in atoms):
        return 'an atom of the reactant is in no product'
    return atoms, bonds, comps


def comp_smiles(atoms, bonds, comp):
    """canonical SMILES (explicit H, radicals, charges) of one product molecule rebuilt from the plain graph"""
    Chem = rd()
    rw = Chem.RWMol()
    pos = {}
    for x in comp:
        a = Chem.Atom(atoms[x][0])
        a.SetFormalCharge(atoms[x][1])
        a.SetNumRadicalElectrons(atoms[x][2])
        a.SetNoImplicit(True)
        if len(atoms[x]) > 3 and atoms[x][3]:
            a.SetIsAromatic(True)
        pos[x] = rw.AddAtom(a)
    for pr, k in sorted(bonds.items(), key=lambda t: sorted(t[0])):
        x, y = sorted(pr)
        if x in pos and y in pos:
            bt = _state['BT'].get(k)
            if bt is None:
                bt = Chem.BondType.UNSPECIFIED
            rw.AddBond(pos[x], pos[y], bt)
            if k == 'aromatic':
                rw.GetBondBetweenAtoms(pos[x], pos[y]).SetIsAromatic(True)
    try:
        return Chem.MolToSmiles(rw, allHsExplicit=True)
    except Exception as e:
        return 'unwritable:' + type(e).__name__ + ':' + json.dumps([[atoms[x][:3] for x in comp],
                                                                      sorted([sorted(p), k] for p, k in bonds.items() if set(p) <= set(comp))])


def set_smiles(atoms, bonds, comps):
    return sorted(comp_smiles(atoms, bonds, c) for c in comps)


def impl_run(rq, mol, n):
    """RunReactants -> ('ok', [extracted product set]) | ('exc', class)"""
    try:
        prods = rq.RunReactants(mol)
    except Exception as e:
        return ('exc', common.exc_class(e, exc_tables()[1]))
    out = []
    for ps in prods:
        out.append(extract_products(ps, n))
    return ('ok', out)


def impl_matches(rq, H):
    names = list(rq.reactantquery)
    try:
        return [tuple(int(x) for x in t) for t in rq.reactantquery[names[0]].GetQueryMatches(H)]
    except Exception as e:
        return ('exc', type(e).__name__)


# ---------------------------------------------------------------------------------------------- one rule
class RuleCase(object):
    def __init__(self, ctx, rule, origin, layout=True):
        self.rule, self.origin = rule, origin
        self.key = RU.render(rule, plain=True)
        self.text = RU.render(rule, ctx.rng if layout else None)
        self.rq, self.read = impl_read(self.text)
        try:
            self.ast = lib_ast.parse_to_json(self.text)
        except Exception:
            self.ast = None
        self.expected = RU.expected_read(rule)
        self.pairs = []


def count_rule(ctx, rule, tag):
    for e in rule['edits']:
        ctx.count('%s_edit_%s' % (tag, e[0]))
        if e[0] in ('form', 'break'):
            ctx.count('%s_bondword_%s' % (tag, e[1] or 'default'))
        if e[0] == 'modify':
            ctx.count('%s_bondword_%s' % (tag, e[3]))
    ctx.count('%s_natoms_%d' % (tag, len([1 for it in rule['frag']['items'] if it[0] == 'atom'])))
    ctx.count('%s_nedits_%d' % (tag, min(len(rule['edits']), 9)))


def check_read(ctx, rc):
    """the read clause: a rule with a meaning and a zero declared balance at every label is read; any other is rejected
    with RINGReaderError (NotImplementedError for `modify atomtype` and `constraints`)"""
    ctx.count('read_expected_' + rc.expected)
    ctx.count('read_impl_' + rc.read)
    if rc.read == rc.expected:
        return True
    inp = {'rule': rc.rule, 'text': rc.text}
    if rc.expected == 'ok':
        what = 'a rule whose declared edits balance at every label is not read'
    elif rc.read == 'ok':
        what = 'a rule that is unbalanced at some label (or names an unknown label / bond) is accepted'
    else:
        what = 'reading a rule ends in the wrong error class'
    ctx.violation(what, inp, expected=rc.expected, observed=rc.read, finding=None)
    return False


def products_equal(a, b):
    return a[0] == b[0] and a[1] == b[1]


def check_pair(ctx, rc, ent, requests):
    """the run clauses on one (rule, molecule) pair; queues the model request. True when the property holds."""
    rule, g = rc.rule, ent['g']
    n = len(g['atoms'])
    emb = EM.embeddings(rule['frag'], g, G=ent['G'])
    ms = impl_matches(rc.rq, ent['H'])
    res = impl_run(rc.rq, ent['H'], n)
    nontrivial = bool(emb) and not isinstance(emb, tuple)
    ctx.case((rc.key, ent['name']) if nontrivial else None,
             {'rule': rc.key, 'molecule': ent['name'], 'embeddings': len(emb), 'outcome': res[0] if res[0] == 'exc' else len(res[1])} if nontrivial else None)
    ctx.count('pairs')
    inp = {'rule': rule, 'text': rc.text, 'molecule': ent['name'], 'graph': g,
           'molpkl': base64.b64encode(ent['mol'].ToBinary()).decode()}
    ok = True
    if isinstance(ms, tuple) or isinstance(emb, tuple) or sorted(ms) != emb:
        ctx.violation('the matches of the reactant pattern are not its embeddings', inp, expected=emb if isinstance(emb, tuple) else emb[:30],
                      observed=ms if isinstance(ms, tuple) else ms[:30])
        return False
    if nontrivial:
        ctx.count('pairs_with_matches')
        count_rule(ctx, rule, 'hit')
        ent['matched_by'] = id(rc)
    applied = [RU.apply_declared(rule, g, f) for f in ms]
    inappl = [(k, a) for k, a in enumerate(applied) if a[0] != 'ok']
    if inappl:
        ctx.count('pairs_with_inapplicable_edit')
        ctx.count('inapplicable_' + rule['edits'][inappl[0][1][1]][0])
        k, a = inappl[0]
        if res[0] == 'ok':
            ok = False
            detail = None
            if k < len(res[1]) and not isinstance(res[1][k], str):
                pa, pb, pc = res[1][k]
                detail = RU.check_product(rule, g, ms[k], pa, pb, pc)
            ctx.violation('an edit that cannot be applied as declared is applied anyway', dict(inp, match=list(ms[k]), edit=a[1], why=a[2]),
                          expected='an error', observed={'product_sets': len(res[1]), 'clauses violated': detail})
        elif res[1].startswith('internal:'):
            ok = False
            ctx.violation('an edit that cannot be applied ends in %s' % res[1][9:], dict(inp, match=list(ms[k]), edit=a[1], why=a[2]),
                          expected='ReactionQueryError or the RDKit error of the refused operation', observed=res[1])
        else:
            ctx.count('run_exc_' + res[1])
    else:
        if res[0] == 'exc':
            ok = False
            ctx.violation('a rule all of whose edits apply on every match raises', inp, expected='%d product sets' % len(ms), observed=res[1])
        else:
            if len(res[1]) != len(ms):
                ok = False
                ctx.violation('the number of product sets is not the number of matches', inp, expected=len(ms), observed=len(res[1]))
            # the product sets as a multiset: each must be the declared edits applied at some match, each match used once
            # (the order in which the matches are processed is not part of the property; the tie compares it)
            def key_of(atoms3, bonds):
                return json.dumps([atoms3, sorted([sorted(q), v] for q, v in bonds.items())])
            pending = collections.defaultdict(list)
            for f, a in zip(ms, applied):
                pending[key_of(a[1], a[2])].append(f)
            for k, p in enumerate(res[1]):
                if isinstance(p, str):
                    ok = False
                    ctx.violation('atoms are not conserved: ' + p, dict(inp, product_set=k), expected=None, observed=None)
                    break
                pa, pb, pc = p
                pa3 = [x[:3] for x in pa]
                cand = pending.get(key_of(pa3, pb))
                if not cand:
                    ok = False
                    f = ms[k] if k < len(ms) else ms[0]
                    a = applied[k] if k < len(ms) else applied[0]
                    bad = RU.check_product(rule, g, f, pa3, pb, pc)
                    ctx.violation(bad[0] if bad else 'a product set is not the reactant with exactly the declared edits applied at a match',
                                  dict(inp, product_set=k, match_in_order=list(f)),
                                  expected={'atoms': a[1], 'bonds': sorted([sorted(q), v] for q, v in a[2].items())},
                                  observed={'atoms': pa3, 'bonds': sorted([sorted(q), v] for q, v in pb.items()), 'clauses violated': bad})
                    break
                f = cand.pop(0)
                bad = RU.check_product(rule, g, f, pa3, pb, pc)
                if bad:
                    ok = False
                    ctx.violation(bad[0], dict(inp, match=list(f)), expected='conservation, frame and balance clauses', observed=bad)
                    break
            if ms:
                ctx.count('pairs_with_products')
                ctx.count('product_sets', len(ms))
                if any(len(p[2]) > 1 for p in res[1] if not isinstance(p, str)):
                    ctx.count('pairs_with_fragmentation')
    requests.append((rc, ent, ms, res))
    rc.pairs.append(ent)
    return ok


def check_implicit(ctx, rc, ent):
    """RunReactants on the molecule as parsed (implicit hydrogens) gives the same products as on the tagged explicit one"""
    a = impl_run(rc.rq, ent['H'], len(ent['g']['atoms']))
    try:
        prods = rc.rq.RunReactants(ent['mol'])
        b = ('ok', [sorted(set_smiles(*mini_extract(ps))) for ps in prods])
    except Exception as e:
        b = ('exc', common.exc_class(e, exc_tables()[1]))
    if a[0] == 'ok':
        a = ('ok', [set_smiles([x for x in p[0]], p[1], p[2]) if not isinstance(p, str) else p for p in a[1]])
    ctx.count('implicit_h_checks')
    if a != b:
        ctx.violation('the products depend on whether the hydrogens of the reactant are written out', {'rule': rc.rule, 'text': rc.text, 'molecule': ent['name']},
                      expected=a if a[0] == 'exc' else a[1][:6], observed=b if b[0] == 'exc' else b[1][:6])


def run_sets(rq, mol):
    """RunReactants on a molecule object as given -> ('ok', product sets as sorted canonical-SMILES lists, in the order
    returned) | ('exc', class)"""
    try:
        prods = rq.RunReactants(mol)
        return ('ok', [sorted(set_smiles(*mini_extract(ps))) for ps in prods])
    except Exception as e:
        return ('exc', common.exc_class(e, exc_tables()[1]))


def hydrogen_forms(rng, mol):
    """Other presentations of the same molecule graph as an RDKit object, besides 'all hydrogens implicit' and 'all hydrogens
    atoms': SOME hydrogens written out as atoms (AddHs on a proper subset of the atoms that bear hydrogens), the same with
    the written-out hydrogens isotope-labelled (a deuterated species: [2H]C), and the text with its bracket hydrogens kept
    (removeHs=False).  Returns [(form name, molecule object)]."""
    Chem = rd()
    out = []
    bearing = [a.GetIdx() for a in mol.GetAtoms() if a.GetTotalNumHs() > 0 and a.GetAtomicNum() != 1]
    total_h = sum(mol.GetAtomWithIdx(i).GetTotalNumHs() for i in bearing)
    if total_h >= 2 and bearing:
        if len(bearing) >= 2:
            sub = rng.sample(bearing, rng.randint(1, len(bearing) - 1))
            try:
                out.append(('partly-explicit-H', Chem.AddHs(mol, onlyOnAtoms=sorted(sub))))
            except Exception:
                pass
        # one single hydrogen written out (and labelled): the other hydrogens of the same atom stay implicit
        try:
            rw = Chem.RWMol(mol)
            i = rng.choice(bearing)
            a = rw.GetAtomWithIdx(i)
            if a.GetNumExplicitHs() > 0:
                a.SetNumExplicitHs(a.GetNumExplicitHs() - 1)
            h = Chem.Atom(1)
            label = rng.choice([0, 2, 3])
            h.SetIsotope(label)
            j = rw.AddAtom(h)
            rw.AddBond(i, j, Chem.BondType.SINGLE)
            m2 = rw.GetMol()
            Chem.SanitizeMol(m2)
            if Chem.AddHs(m2).GetNumAtoms() == Chem.AddHs(mol).GetNumAtoms():
                out.append(('one-H-atom%s' % ('-isotope-%d' % label if label else ''), m2))
        except Exception:
            pass
    return out


def check_forms(ctx, rc, ent):
    """The product sets are a function of the molecule graph: a reactant object with only some of its hydrogens written out
    as atoms gives the product sets (as a multiset: the atom order differs) of the fully explicit one."""
    Chem = rd()
    ref = run_sets(rc.rq, Chem.Mol(ent['H']))
    for form, obj in hydrogen_forms(ctx.rng, ent['mol']):
        compare_form(ctx, rc, ent['name'], form, obj, ref)


def compare_form(ctx, rc, name, form, obj, ref=None):
    Chem = rd()
    if ref is None:
        ref = run_sets(rc.rq, Chem.AddHs(obj))
    got = run_sets(rc.rq, Chem.Mol(obj))
    if any('->' in x or '<-' in x for r in (ref, got) if r[0] == 'ok' for ps in r[1] for x in ps):
        # a dative bond has a direction, and RDKit's canonical SMILES of a symmetric species depends on it (seen: [H]N1[C]N->1[H] /
        # [H]N1[C]N<-1[H] for the two orientations): the observable is not an invariant there (A-canon), the case is not judged
        ctx.count('hydrogen_form_not_judged_dative_bond')
        return True
    ctx.count('hydrogen_form_checks')
    ctx.count('hydrogen_form_' + form.split('-isotope')[0])
    a = ref if ref[0] == 'exc' else ('ok', sorted(ref[1]))
    b = got if got[0] == 'exc' else ('ok', sorted(got[1]))
    if a != b:
        ctx.violation('the products depend on which hydrogens of the reactant object are written out as atoms',
                      {'rule': rc.rule, 'text': rc.text, 'molecule': name, 'form': form,
                       'form_smiles': Chem.MolToSmiles(obj), 'form_molpkl': base64.b64encode(obj.ToBinary()).decode()},
                      expected=a if a[0] == 'exc' else a[1][:6], observed=b if b[0] == 'exc' else b[1][:6])
        return False
    return True


# companions for multi-component reactants: solvent / counter-ion / a second species / the adsorbent, none of them special
COMPANIONS = ['O', '[Na+]', '[Cl-]', 'CC', 'C', '[H][H]', 'O=C=O', '[Pt]', 'N', 'CO', '[CH3]', 'c1ccccc1']


def with_companion(ctx, pool, ent):
    """the pool entry of the molecule object holding `ent`'s molecule and a companion species (before or after it, or a second
    copy of itself) as ONE reactant object with several components"""
    Chem, rng = rd(), ctx.rng
    comp = rng.choice(COMPANIONS + ['self'])
    other = ent['mol'] if comp == 'self' else Chem.MolFromSmiles(comp)
    first = rng.random() < 0.5
    name = ('%s . %s' if first else '%s . %s') % ((ent['name'], comp) if first else (comp, ent['name']))
    if name in pool.by_name:
        return pool.by_name[name]
    try:
        m = Chem.CombineMols(ent['mol'], other) if first else Chem.CombineMols(other, ent['mol'])
        Chem.SanitizeMol(m)
    except Exception:
        return None
    n0 = len(pool.entries)
    e = pool.add(name, m)
    if e is not None:
        # not drawn by pick_mols: these entries are used only next to their parent
        pool.entries[n0:] = []
    return e


def mini_extract(ps):
    atoms, bonds, comps = [], {}, []
    for p in ps:
        off = len(atoms)
        comps.append(list(range(off, off + p.GetNumAtoms())))
        for a in p.GetAtoms():
            atoms.append([a.GetAtomicNum(), a.GetFormalCharge(), a.GetNumRadicalElectrons(), 1 if a.GetIsAromatic() else 0])
        for b in p.GetBonds():
            bonds[frozenset((off + b.GetBeginAtomIdx(), off + b.GetEndAtomIdx()))] = kind_name(b.GetBondType())
    return atoms, bonds, comps


# ---------------------------------------------------------------------------------------------- the tie
def run_model(ctx, rcs, requests):
    if not ctx.driver_ok:
        return
    by_rule = collections.OrderedDict()
    for r in requests:
        by_rule.setdefault(id(r[0]), []).append(r)
    frs = [rc for rc in rcs if rc.ast is not None]
    for c0 in range(0, len(frs), 80):
        chunk = frs[c0:c0 + 80]
        mols, midx, pairs, meta = [], {}, [], []
        for ai, rc in enumerate(chunk):
            for (_, ent, ms, res) in by_rule.get(id(rc), []):
                k = id(ent)
                if k not in midx:
                    midx[k] = len(mols)
                    mols.append(ent['g'])
                pairs.append([ai, midx[k]])
                meta.append((rc, ent, ms, res))
        rep = ctx.model([{'op': 'c16.batch', 'asts': [rc.ast for rc in chunk], 'mols': mols, 'pairs': pairs}])[0]
        if not all(rep['wf']):
            raise common.MachineryError('a generated molecule graph is not well-formed for the model')
        for rc, rs in zip(chunk, rep['reads']):
            ctx.count('corr_c16.read')
            ctx.count('model_read_' + rs.get('err', 'ok'))
            if rc.read == 'ok':
                s = impl_summary(rc.rq)
                if 'err' in rs or any(rs.get(k) != s[k] for k in s):
                    ctx.disagree('corr:c16.read', {'text': rc.text}, s, rs)
            else:
                icls = 'internal' if rc.read.startswith('internal:') else rc.read
                if rs.get('err') != icls:
                    ctx.disagree('corr:c16.read', {'text': rc.text}, rc.read, rs)
        for (rc, ent, ms, res), r in zip(meta, rep['res']):
            ctx.count('corr_c16.run')
            inp = {'text': rc.text, 'molecule': ent['name'], 'graph': ent['g']}
            if 'err' in r:
                ctx.disagree('corr:c16.run', inp, res[0], r)
                continue
            mm = [tuple(t) for t in r['matches']]
            if sorted(mm) != sorted(ms) or len(set(mm)) != len(mm):
                ctx.disagree('corr:c16.matches', inp, ms[:40], mm[:40])
                continue
            per = dict(zip(mm, r['per']))
            ordered = [per[f] for f in ms]               # the model's outcomes in the implementation's match order
            first_err = next((p['err'] for p in ordered if 'err' in p), None)
            ctx.count('model_run_' + (first_err or 'ok'))
            if first_err is not None:
                if res != ('exc', first_err):
                    ctx.disagree('corr:c16.run', inp, res if res[0] == 'exc' else ('ok', len(res[1])), {'err': first_err})
                continue
            if res[0] != 'ok' or len(res[1]) != len(ordered):
                ctx.disagree('corr:c16.run', inp, res if res[0] == 'exc' else ('ok', len(res[1])), {'ok': len(ordered)})
                continue
            for f, p, q in zip(ms, res[1], ordered):
                ctx.count('model_components_closed_%s' % q.get('closed'))
                if q.get('closed') is not True:
                    raise common.MachineryError('the model\'s component labelling did not reach its fixed point on %r' % (inp,))
                if isinstance(p, str):
                    ctx.disagree('corr:c16.run', dict(inp, match=list(f)), p, 'products')
                    break
                mb = {frozenset((b[0], b[1])): b[2] for b in q['bonds']}
                if p[0] != q['atoms'] or p[1] != mb or p[2] != q['comps']:
                    ctx.disagree('corr:c16.run', dict(inp, match=list(f)),
                                 {'atoms': p[0], 'bonds': sorted([sorted(x), k] for x, k in p[1].items()), 'comps': p[2]},
                                 {'atoms': q['atoms'], 'bonds': sorted([sorted(x), k] for x, k in mb.items()), 'comps': q['comps']})
                    break
                # the designed observable: sorted canonical SMILES per product set
                si, sm = set_smiles(p[0], p[1], p[2]), set_smiles(q['atoms'], mb, q['comps'])
                ctx.count('smiles_sets_compared')
                if si != sm:
                    ctx.disagree('corr:c16.smiles', dict(inp, match=list(f)), si, sm)
                    break
            # whole-call outcome of the model in its own order: same multiset of product sets
            if r['whole'].get('n') != len(ms):
                ctx.disagree('corr:c16.run', inp, len(ms), r['whole'])


# ---------------------------------------------------------------------------------------------- edit classes one by one
def apply_api(ctx):
    from pgradd.RDkitWrapper import ReactionQuery as RQ
    sig = inspect.signature(RQ.BondBreak.__init__).parameters
    return {'RQ': RQ, 'break_typed': 'bondtype' in sig, 'modify_typed': 'oldtype' in inspect.signature(RQ.BondModify.__init__).parameters,
            'radmod': hasattr(RQ, 'RadicalModify')}


def rand_raw_edit(rng, k, api):
    kinds = ['bondForm', 'bondIncrease', 'bondDecrease', 'radicalIncrease', 'radicalDecrease', 'chargeIncrease', 'chargeDecrease', 'atomTypeModify']
    if api['break_typed']:
        kinds += ['bondBreak', 'bondBreak']
    if api['modify_typed']:
        kinds += ['bondModify']
    if api['radmod']:
        kinds += ['radicalModify']
    t = rng.choice(kinds)
    i, j = rng.randrange(k), rng.randrange(k)
    w = lambda: rng.choice(['single', 'single', 'double', 'triple', 'quadruple', 'quintuple', 'aromatic', 'dative', 'zero'])
    if t in ('bondForm', 'bondBreak'):
        return [t, i, j, w()]
    if t == 'bondModify':
        return [t, i, j, w(), w()]
    if t in ('bondIncrease', 'bondDecrease'):
        return [t, i, j]
    if t == 'radicalModify':
        return [t, i, rng.choice([0, 1, 2]), rng.choice([0, 0, 1, 2])]
    if t == 'atomTypeModify':
        return [t, i, rng.choice([0, 1, 2]), rng.choice([-1, 0, 1])]
    return [t, i]


def make_edit(api, e):
    RQ, BT = api['RQ'], _state['BT']
    t = e[0]
    if t == 'bondForm':
        return RQ.BondForm(e[1], e[2], BT[e[3]])
    if t == 'bondBreak':
        return RQ.BondBreak(e[1], e[2], BT[e[3]])
    if t == 'bondModify':
        return RQ.BondModify(e[1], e[2], BT[e[3]], BT[e[4]])
    if t == 'bondIncrease':
        return RQ.BondIncrease(e[1], e[2])
    if t == 'bondDecrease':
        return RQ.BondDecrease(e[1], e[2])
    if t == 'radicalModify':
        return RQ.RadicalModify(e[1], e[2], e[3])
    if t == 'atomTypeModify':
        return RQ.AtomTypeModify(e[1], e[2], e[3], 0)
    return getattr(RQ, t[0].upper() + t[1:])(e[1])


def run_apply_tie(ctx, pool):
    """the edit classes applied directly (as RunReactants applies them) on arbitrary index maps — injective or not, on bonded
    and unbonded atoms — against `c16.apply`"""
    Chem, rng = rd(), ctx.rng
    api = apply_api(ctx)
    for k, v in api.items():
        if k != 'RQ':
            ctx.count('api_%s_%s' % (k, v))
    ents = [e for e in pool.entries if 2 <= len(e['g']['atoms']) <= 14]
    reqs, impls, inps = [], [], []
    for _ in range(ctx.n(2500, 30000)):
        ent = rng.choice(ents)
        n = len(ent['g']['atoms'])
        k = rng.choice([1, 2, 2, 3])
        if rng.random() < 0.6 and ent['g']['bonds']:
            b = rng.choice(ent['g']['bonds'])
            f = [b[0], b[1]][:k] + [rng.randrange(n) for _ in range(max(0, k - 2))]
            if rng.random() < 0.5:
                f[:2] = f[:2][::-1]
        else:
            f = [rng.randrange(n) for _ in range(k)]
        edits = [rand_raw_edit(rng, k, api) for _ in range(rng.choice([1, 1, 2, 3, 4]))]
        m = Chem.RWMol(ent['H'])
        try:
            for e in edits:
                make_edit(api, e)(m, f)
            fr = Chem.GetMolFrags(m, asMols=True, sanitizeFrags=False)
            impl = extract_products(fr, n)
            if not isinstance(impl, str):
                impl = {'atoms': impl[0], 'bonds': sorted([sorted(p), kk] for p, kk in impl[1].items()), 'comps': impl[2]}
        except Exception as ex:
            impl = {'err': common.exc_class(ex, exc_tables()[1])}
        reqs.append({'op': 'c16.apply', 'mol': ent['g'], 'f': f, 'edits': edits})
        impls.append(impl)
        inps.append({'molecule': ent['name'], 'f': f, 'edits': edits})
    if not ctx.driver_ok:
        return
    for inp, impl, r in zip(inps, impls, ctx.model(reqs)):
        ctx.count('corr_c16.apply')
        ctx.count('apply_' + (r.get('err') or 'ok'))
        if 'err' not in r:
            if r.get('closed') is not True:
                raise common.MachineryError('the model\'s component labelling did not reach its fixed point on %r' % (inp,))
            r = {'atoms': r['atoms'], 'bonds': sorted([sorted(b[:2]), b[2]] for b in r['bonds']), 'comps': r['comps']}
        if impl != r:
            ctx.disagree('corr:c16.apply', inp, impl, r)


# ---------------------------------------------------------------------------------------------- other interpreter modes
def run_env_children(ctx, sample):
    """a sample of (rule, molecule) pairs with matches again in child interpreters started with -O and with -W error
    (harness/lib_envchild.py): reading must end the same way and the product sets must be those of this process (which
    the clauses above have checked against the declared edits)"""
    import subprocess
    from . import lib_envchild as EC
    Chem, rng = rd(), ctx.rng
    # rules whose pattern carries prefixes / constraints / suffixes first (that is where checks live), then the others
    def weight(t):
        f = t[0].rule['frag']
        return -sum(1 for it in f['items'] if it[0] == 'atom' and (it[1].get('prefix') or it[1]['chain'] or it[1].get('suffix'))) - len(f['molprefix'])
    sample = sorted(sample, key=weight)[:ctx.n(500, 4000)]
    if not sample or ctx.time_left() < 90:
        ctx.count('env_children_not_run')
        return
    reqf = os.path.join(ctx.scratch, 'c16_env_requests.jsonl')
    refs = []
    with open(reqf, 'w') as f:
        f.write(json.dumps({'op': 'hello'}) + '\n')
        for rc, ent in sample:
            refs.append(run_sets(rc.rq, Chem.Mol(ent['mol'])))
            f.write(json.dumps({'op': 'rule', 'text': rc.text, 'molpkl': base64.b64encode(ent['mol'].ToBinary()).decode()}) + '\n')
    modes = ['O', 'Werror'] + (['OO+hash'] if ctx.thorough() else [])
    procs = [(mode, os.path.join(ctx.scratch, 'c16_env_%s.jsonl' % mode.replace('+', '_'))) for mode in modes]
    procs = [(mode, outf, EC.spawn_batch(mode, reqf, outf)) for mode, outf in procs]
    for mode, outf, p in procs:
        try:
            p.wait(timeout=max(60, ctx.time_left() - 30))
        except subprocess.TimeoutExpired:
            p.kill()
            raise common.MachineryError('the %s child interpreter did not finish in time' % mode)
        lines = [json.loads(l) for l in open(outf)]
        if len(lines) != len(sample) + 1:
            raise common.MachineryError('the %s child interpreter answered %d of %d requests (exit %r)' % (mode, len(lines), len(sample) + 1, p.returncode))
        if lines[0].get('asserts') != (mode == 'Werror'):
            raise common.MachineryError('child interpreter %s: assert statements %s' % (mode, lines[0].get('asserts')))
        ctx.count('env_child_%s_pairs' % mode, len(sample))
        bad = 0
        for (rc, ent), ref, rep in zip(sample, refs, lines[1:]):
            if 'childerror' in rep:
                raise common.MachineryError('child interpreter (%s) failed: %s' % (mode, rep['childerror']))
            got = ('read', rep['read']) if rep['read'] != 'ok' else (('exc', rep['products'][1]) if rep['products'][:1] == ['exc'] else ('ok', rep['products']))
            if got != ref:
                env = {'mode': mode, 'argv': EC.MODES[mode]['argv'], 'env': EC.MODES[mode]['env']}
                ctx.violation('the product sets depend on the environment of the process (%s)' % json.dumps(env, sort_keys=True),
                              {'rule': rc.rule, 'text': rc.text, 'molecule': ent['name'], 'env': env,
                               'molpkl': base64.b64encode(ent['mol'].ToBinary()).decode()},
                              expected=ref if ref[0] != 'ok' else ref[1][:6], observed=got if got[0] != 'ok' else got[1][:6])
                bad += 1
                if bad >= 3:
                    break


# ---------------------------------------------------------------------------------------------- run
def merge_findings(ctx):
    p = os.path.join(common.VERIF, 'findings', 'C16.json')
    if os.path.exists(p):
        for e in json.load(open(p)):
            ctx.known.setdefault(e['id'], e)


def pattern_wants(rule):
    from .c08 import frag_wants
    return frag_wants(rule['frag'])


def pick_mols(ctx, pool, rc, k, tries=40):
    """molecules for a rule: mostly ones its reactant pattern embeds in (found by trying molecules with the wanted features)"""
    rng = ctx.rng
    wants = pattern_wants(rc.rule)
    good = [e for e in pool.entries if wants <= e['feats']]
    rng.shuffle(good)
    out, seen = [], set()
    for e in good[:tries]:
        if len(out) >= k:
            break
        emb = EM.embeddings(rc.rule['frag'], e['g'], G=e['G'])
        if emb and not isinstance(emb, tuple) and len(emb) <= 400:
            out.append(e)
            seen.add(id(e))
    for e in (rng.choice(pool.entries) for _ in range(max(1, k // 4))):
        if id(e) not in seen:
            out.append(e)
            seen.add(id(e))
    return out


def run(ctx):
    rng = ctx.rng
    merge_findings(ctx)
    rd()
    probe_rdkit(ctx)
    for fname, rec in common.load_corpus('C16'):
        ctx.count('corpus')
        replay(ctx, rec)
    pool = build_pool(ctx)
    ctx.assumption_checks['A-graph'] = {'ok': not pool.bad_graph,
                                        'detail': 'IsInRing/GetBonds/NumRings/no parallel bonds consistent with the extracted graph on %d molecules%s'
                                        % (len(pool.entries), ('; FAILED: %r' % pool.bad_graph[:3]) if pool.bad_graph else '')}
    if pool.bad_graph:
        raise common.MachineryError('assumption A-graph failed: %r' % (pool.bad_graph[:3],))
    rcs, requests = [], []
    env_sample = []

    def do_rule(rule, origin, k, layout=True):
        rc = RuleCase(ctx, rule, origin, layout)
        rcs.append(rc)
        ctx.count('rules')
        ctx.count('rules_' + origin)
        count_rule(ctx, rule, 'gen')
        good = check_read(ctx, rc)
        if rc.read != 'ok' or not good:
            ctx.case(None)
            return rc
        for ent in pick_mols(ctx, pool, rc, k):
            check_pair(ctx, rc, ent, requests)
        # the same pair with the hydrogens left implicit: always where the pattern may have more atoms than the molecule has
        # heavy atoms (a size shortcut taken before the hydrogens are added shows there), elsewhere on a sample
        small = [e for e in rc.pairs if e['mol'].GetNumAtoms() <= 2]
        for e in small[:4]:
            check_implicit(ctx, rc, e)
        if rc.pairs and rng.random() < 0.3:
            check_implicit(ctx, rc, rng.choice(rc.pairs))
        matched = [e for e in rc.pairs if e.get('matched_by') == id(rc)]
        if matched and rng.random() < 0.5:
            check_forms(ctx, rc, rng.choice(matched))
        if matched and rng.random() < 0.4:
            e2 = with_companion(ctx, pool, rng.choice(sorted(matched, key=lambda e: len(e['g']['atoms']))[:3]))
            if e2 is not None and len(e2['g']['atoms']) <= 40:
                ctx.count('multi_component_reactants')
                check_pair(ctx, rc, e2, requests)
        if matched:
            env_sample.append((rc, rng.choice(matched)))
        return rc
    # 1. designed rules
    for rule in RU.template_rules():
        do_rule(rule, 'designed', ctx.n(12, 60), layout=False)
        if ctx.time_left() < 120:
            break
    # the docstring example on ethane, explicitly
    doc = do_rule(RU.docstring_rule(), 'docstring', 2, layout=False)
    if doc.read == 'ok':
        check_pair(ctx, doc, pool.by_name['CC'], requests)
    # 2. random balanced rules, 3. the same made unbalanced by one change, 4. random unbalanced ones
    for i in range(ctx.n(2500, 30000)):
        if ctx.time_left() < 120:
            ctx.count('stopped_early_time')
            break
        rule = RU.rand_rule(rng, balanced=True)
        do_rule(rule, 'random_balanced', ctx.n(6, 10))
        if i % 3 == 0:
            do_rule(RU.unbalance(rng, rule), 'unbalanced_by_one_change', 2)
        if i % 4 == 1:
            do_rule(RU.rand_rule(rng, balanced=False), 'random_unbalanced', 2)
    run_env_children(ctx, env_sample)
    run_model(ctx, rcs, requests)
    run_apply_tie(ctx, pool)
    reach_floor(ctx)


REACH = (['hit_edit_' + e for e in ['form', 'break', 'modify', 'increase', 'decrease', 'radset', 'radinc', 'raddec', 'chginc', 'chgdec']] +
         ['read_expected_' + c for c in ['ok', 'reader', 'notImplemented']] +
         ['run_exc_' + c for c in ['queryError', 'overflow', 'attribute', 'rdkit']] +
         ['pairs_with_fragmentation', 'pairs_with_inapplicable_edit', 'implicit_h_checks', 'smiles_sets_compared'] +
         ['hit_natoms_%d' % k for k in (1, 2, 3, 4)])


def reach_floor(ctx):
    if ctx.stats.get('stopped_early_time') or ctx.violations or ctx.disagreements or ctx.broken:
        return
    missing = [k for k in REACH if not ctx.stats.get(k)]
    ctx.extra.setdefault('coverage', {})['reach_missing'] = missing
    if missing and not ctx.searching:
        raise common.MachineryError('generator reach below the floor: %s' % missing[:10])


def detuple_rule(rule):
    r = copy.deepcopy(rule)
    items = []
    for it in r['frag']['items']:
        if it[0] == 'atom':
            a = it[1]
            a['bond'] = tuple(a['bond']) if a['bond'] else None
            a['chain'] = [detuple_cons(c) for c in a['chain']]
            items.append(('atom', a))
        else:
            items.append(tuple(it))
    r['frag']['items'] = items
    r['edits'] = [tuple(e) for e in r['edits']]
    return r


def detuple_cons(c):
    c = list(c)
    if c[0] == 'conn':
        return ('conn', c[1], tuple(c[2]) if c[2] else None, c[3], c[4])
    return (c[0], c[1], tuple(c[2]))


def replay(ctx, rec):
    """re-run a recorded input on the implementation against the specification"""
    Chem = rd()
    merge_findings(ctx)
    inp = rec.get('input', rec)
    before = len(ctx.violations) + sum(v['count'] for v in ctx.known_seen.values())
    rule = detuple_rule(inp['rule'])
    rc = RuleCase(ctx, rule, 'replay', layout=False)
    if 'text' in inp and RU.render(rule, plain=True) != ' '.join(inp['text'].split()):
        rc.text = inp['text']
        rc.rq, rc.read = impl_read(rc.text)
    good = check_read(ctx, rc)
    if good and rc.read == 'ok' and 'form_molpkl' in inp:
        compare_form(ctx, rc, inp.get('molecule', '?'), inp['form'], Chem.Mol(base64.b64decode(inp['form_molpkl'])))
        return len(ctx.violations) + sum(v['count'] for v in ctx.known_seen.values()) == before
    if good and rc.read == 'ok' and 'env' in inp:
        # the recorded environment is re-created: a child interpreter of that mode; the reference is this process, whose
        # product sets are checked against the declared edits first
        from . import lib_envchild as EC
        mol = Chem.Mol(base64.b64decode(inp['molpkl']))
        pool = Pool()
        ent = pool.add(inp.get('molecule', '?'), mol)
        if ent is not None:
            check_pair(ctx, rc, ent, [])
        ref = run_sets(rc.rq, Chem.Mol(mol))
        child = EC.EnvChild(inp['env']['mode'])
        rep = child.ask({'op': 'rule', 'text': rc.text, 'molpkl': inp['molpkl']})
        child.close()
        got = ('read', rep['read']) if rep['read'] != 'ok' else (('exc', rep['products'][1]) if rep['products'][:1] == ['exc'] else ('ok', rep['products']))
        if got != ref:
            ctx.violation('the product sets depend on the environment of the process (%s)' % json.dumps(inp['env'], sort_keys=True), inp,
                          expected=ref if ref[0] != 'ok' else ref[1][:6], observed=got if got[0] != 'ok' else got[1][:6])
        return len(ctx.violations) + sum(v['count'] for v in ctx.known_seen.values()) == before
    if good and rc.read == 'ok' and ('smiles' in inp or 'molpkl' in inp):
        pool = Pool()
        if 'molpkl' in inp:
            mol = Chem.Mol(base64.b64decode(inp['molpkl']))
        else:
            mol = Chem.MolFromSmiles(inp['smiles'])
        ent = pool.add(inp.get('molecule', inp.get('smiles', '?')), mol)
        if ent is None:
            raise common.MachineryError('cannot rebuild the molecule of the recorded input')
        check_pair(ctx, rc, ent, [])
    return len(ctx.violations) + sum(v['count'] for v in ctx.known_seen.values()) == before
