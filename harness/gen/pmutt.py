"""pmutt constant tables the thermochemistry getters read (C07, assumption A-pmutt):
`pmutt.constants.R(units)` for every unit string it accepts and `pmutt.constants.S_elements`.

`pgradd/ThermoChem/base.py` and `group_data.py` do `from pmutt import constants as c` and call
`c.R('{}/K'.format(units))`, `c.R(units)`, `c.S_elements[atom.GetAtomicNum()]`: exactly those two live
objects are dumped, through the names the repository's modules hold."""
import io, types
from ..translate import gen, lean_dec, HEADER

# probes beyond what the function object itself mentions: spellings a user might try
EXTRA_PROBES = ['J/mol/K', 'kJ/mol/K', 'cal/mol/K', 'kcal/mol/K', 'eV/K', 'Eh/K', 'Ha/K', 'J/K/mol', 'J/mol', 'kJ/mol',
                'cal/mol', 'kcal/mol', 'eV', 'J', 'kJ', 'J/K', 'kJ/K', 'eV/mol/K', 'meV/K', 'MJ/mol/K', 'j/mol/k',
                'J / mol / K', 'J/(mol*K)', 'J/(mol K)', 'J mol-1 K-1', 'BTU/lbmol/R', 'Btu/lbmol/R', 'erg/mol/K', 'K',
                '', '/K', 'L kPa/mol/K', 'cm3 kPa/mol/K', 'm3 Pa/mol/K', 'cm3 MPa/mol/K', 'm3 bar/mol/K', 'L bar/mol/K',
                'L torr/mol/K', 'L atm/mol/K', 'cm3 atm/mol/K', 'm3 atm/mol/K', 'L Pa/mol/K', 'kcal/mol/K/K', 'cal/K']


def _strings(obj, seen=None, depth=0):
    """every str reachable from a code object's constants (dict-literal keys live in a const tuple)"""
    out = set()
    if depth > 6:
        return out
    if isinstance(obj, str):
        out.add(obj)
    elif isinstance(obj, (tuple, list, frozenset, set)):
        for x in obj:
            out |= _strings(x, seen, depth + 1)
    elif isinstance(obj, dict):
        for k, v in obj.items():
            out |= _strings(k, seen, depth + 1) | _strings(v, seen, depth + 1)
    elif isinstance(obj, types.CodeType):
        out |= _strings(obj.co_consts, seen, depth + 1)
    return out


def constants_module():
    """the `c` the repository's getters use"""
    import pgradd.ThermoChem.base as base
    import pgradd.ThermoChem.group_data as gd
    if base.c is not gd.c:
        raise RuntimeError('base.py and group_data.py hold different constants modules')
    return base.c


def r_table():
    """[(unit string, value)] accepted by c.R, and the probes it rejected"""
    c = constants_module()
    probes = set(EXTRA_PROBES)
    f = c.R
    code = getattr(f, '__code__', None)
    if code is not None:
        probes |= {s for s in _strings(code) if len(s) <= 40 and '\n' not in s}
    for v in (getattr(f, '__defaults__', None) or ()), (getattr(f, '__kwdefaults__', None) or {}), getattr(f, '__globals__', {}).get('R_dict', {}):
        probes |= {s for s in _strings(v) if len(s) <= 40 and '\n' not in s}
    # closure: every probe with and without a trailing '/K'
    probes |= {p + '/K' for p in list(probes)} | {p[:-2] for p in probes if p.endswith('/K')}
    acc, rej = [], []
    for p in sorted(probes):
        try:
            v = c.R(p)
        except KeyError:
            rej.append(p)
            continue
        if isinstance(v, bool) or not isinstance(v, (int, float)):
            raise RuntimeError('c.R(%r) returned %r' % (p, v))
        acc.append((p, v))
    return acc, rej


def s_elements():
    c = constants_module()
    tab = c.S_elements
    ints = sorted((k, v) for k, v in tab.items() if isinstance(k, int) and not isinstance(k, bool))
    syms = sorted((k, v) for k, v in tab.items() if isinstance(k, str))
    other = [k for k in tab if not isinstance(k, (int, str)) or isinstance(k, bool)]
    if other:
        raise RuntimeError('S_elements has keys of unexpected type: %r' % other[:5])
    return ints, syms


def chars(s):
    from ..translate import lean_str
    return '[' + ', '.join("'%s'" % (ch if ch not in "'\\" else '\\' + ch) if 32 <= ord(ch) < 127 else "'\\u{%x}'" % ord(ch) for ch in s) + ']'


@gen('Pmutt')
def gen_pmutt():
    acc, rej = r_table()
    ints, syms = s_elements()
    o = io.StringIO()
    o.write(HEADER)
    o.write('import PGA.Model.EstimateDec\nnamespace PGA.Gen.Pmutt\nopen PGA.Estimate\n\n')
    o.write('/-- every unit string `pmutt.constants.R` accepts (found by probing the live function), with its value -/\n')
    o.write('def rTable : List (List Char × Dec) := [\n')
    o.write(',\n'.join('  (%s, %s)' % (chars(u), lean_dec(v)) for u, v in acc))
    o.write(']\n\n')
    o.write('/-- probes `R` rejected with `KeyError` -/\n')
    o.write('def rRejected : List (List Char) := [\n')
    o.write(',\n'.join('  %s' % chars(u) for u in rej))
    o.write(']\n\n')
    o.write('/-- `pmutt.constants.S_elements`, integer (atomic number) keys: what `get_Selements` indexes -/\n')
    o.write('def sElements : List (Nat × Dec) := [\n')
    o.write(',\n'.join('  (%d, %s)' % (z, lean_dec(v)) for z, v in ints))
    o.write(']\n\n')
    o.write('/-- the same table under its element-symbol keys -/\n')
    o.write('def sElementsSym : List (List Char × Dec) := [\n')
    o.write(',\n'.join('  (%s, %s)' % (chars(k), lean_dec(v)) for k, v in syms))
    o.write(']\n\n')
    o.write('end PGA.Gen.Pmutt\n')
    return o.getvalue()
