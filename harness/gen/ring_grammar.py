"""RING grammar tables (C09): both dictionaries of pgradd/RINGParser/Grammar.py dumped from the
live imported objects as one Lean combinator term per rule, the `filler` / `string_okay` lists of
Parser.py, and a *rank table* + nullable table: the witness, computed here and re-checked by the
Lean kernel (`PGA.Props.C09`), that no rule can re-enter itself without consuming input.

Nothing is read from source text.  A combinator class this translator does not know (or a grammar
entry that is neither a Parser object nor a rule name) raises -> broken tie.
"""
import io
from ..translate import gen, lean_str, ranges, HEADER


class CannotTranslate(Exception):
    pass


def lean_char(ch):
    o = ord(ch)
    if ch == "'":
        return "'\\''"
    if ch == '\\':
        return "'\\\\'"
    if 32 <= o < 127:
        return "'%s'" % ch
    return '(Char.ofNat %d)' % o


def lean_chars(s):
    return '[' + ', '.join(lean_char(c) for c in s) + ']'


def _classes():
    from pgradd.RINGParser import Parser as P
    return P


def collect_names(grammars):
    """shared index space of rule names: every key of either dictionary, then every name only referenced"""
    P = _classes()
    names, seen = [], set()

    def add(n):
        if n not in seen:
            seen.add(n)
            names.append(n)
    for root, rules in grammars:
        for k in rules:
            if not isinstance(k, str):
                raise CannotTranslate('rule key %r is not a string' % (k,))
            add(k)
    for root, rules in grammars:
        add(root)
        for k, v in rules.items():
            for r in refs_of(v, P):
                add(r)
    return names


def children(e, P):
    t = type(e)
    if t is P.All:
        return list(e.reqs)
    if t is P.Either:
        return list(e.alts)
    if t is P.Optional:
        return [e.opt]
    if t is P.ZeroOrMore:
        return [e.what]
    return []


def refs_of(e, P, acc=None):
    acc = [] if acc is None else acc
    if isinstance(e, str):
        acc.append(e)
    else:
        for c in children(e, P):
            refs_of(c, P, acc)
    return acc


def emit(e, idx, P):
    """Lean term of type PGA.Ring.Expr for a grammar entry"""
    if isinstance(e, str):
        return '(.ref %d)' % idx[e]
    t = type(e)
    if t is P.EOS:
        return '.eos'
    if t is P.Digit:
        if not isinstance(e.n, int) or isinstance(e.n, bool) or e.n < 0:
            raise CannotTranslate('Digit(n) with n = %r' % (e.n,))
        return '(.digit %d)' % e.n
    if t is P.Number:
        return '.number'
    if t is P.String:
        return '.string'
    if t in (P.Literal, P.DeprecatedLiteral):
        return '(.lit %s %s)' % (lean_chars(_tok(e.tok)), 'true' if e.no_error else 'false')
    if t is P.Filler:
        return '(.filler %s %s)' % (lean_chars(_tok(e.tok)), 'true' if e.no_error else 'false')
    if t is P.Optional:
        return '(.opt %s)' % emit(e.opt, idx, P)
    if t is P.ZeroOrMore:
        return '(.star %s)' % emit(e.what, idx, P)
    if t is P.All:
        out = '.allNil'
        for r in reversed(list(e.reqs)):
            out = '(.allCons %s %s)' % (emit(r, idx, P), out)
        return out
    if t is P.Either:
        out = '.anyNil'
        for r in reversed(list(e.alts)):
            out = '(.anyCons %s %s)' % (emit(r, idx, P), out)
        return out
    if t is P.Literals:
        toks = []
        for a in e.alts:
            if type(a) is not P.Literal or a.no_error is not True:
                raise CannotTranslate('Literals alternative %r is not Literal(.., no_error=True)' % (a,))
            toks.append(lean_chars(_tok(a.tok)))
        name = getattr(e, 'name', None)
        if name is not None and not isinstance(name, str):
            raise CannotTranslate('Literals.name %r' % (name,))
        return '(.literals [%s] %s)' % (', '.join(toks), 'none' if name is None else '(some %s)' % lean_chars(name))
    raise CannotTranslate('unknown grammar entry %r of type %s' % (e, t.__name__))


def _tok(tok):
    if not isinstance(tok, str):
        raise CannotTranslate('literal token %r is not a str' % (tok,))
    # the expected-token text is "%r" % tok; the model renders it as 'tok', which is only right when repr is plain
    if repr(tok) != "'" + tok + "'":
        raise CannotTranslate('literal token %r has a non-plain repr' % (tok,))
    return tok


# ------------------------------------------------------------------ static analysis (witness only; Lean re-checks)
def nullable_table(rules, P):
    """least fixpoint: which rules can succeed without consuming a character"""
    nt = {k: False for k in rules}

    def nul(e):
        if isinstance(e, str):
            return nt.get(e, True)
        t = type(e)
        if t is P.EOS:
            return True
        if t is P.Digit:
            return e.n == 0
        if t in (P.Number, P.String):
            return False
        if t in (P.Literal, P.DeprecatedLiteral, P.Filler):
            return len(e.tok) == 0
        if t in (P.Optional, P.ZeroOrMore):
            return True
        if t is P.All:
            return all(nul(r) for r in e.reqs)
        if t is P.Literals:
            return any(len(a.tok) == 0 for a in e.alts)
        if t is P.Either:
            return any(nul(a) for a in e.alts)
        raise CannotTranslate('nullable: %r' % (e,))
    changed = True
    while changed:
        changed = False
        for k, v in rules.items():
            if not nt[k] and nul(v):
                nt[k] = True
                changed = True
    return nt, nul


def left_refs(e, nul, P, acc):
    """rule names that can be entered from e before any character has been consumed"""
    if isinstance(e, str):
        acc.add(e)
        return
    t = type(e)
    if t in (P.Optional, P.ZeroOrMore):
        left_refs(children(e, P)[0], nul, P, acc)
    elif t is P.Either:
        for a in e.alts:
            left_refs(a, nul, P, acc)
    elif t is P.All:
        for r in e.reqs:
            left_refs(r, nul, P, acc)
            if not nul(r):
                break


def rank_table(rules, P):
    nt, nul = nullable_table(rules, P)
    left = {}
    for k, v in rules.items():
        s = set()
        left_refs(v, nul, P, s)
        left[k] = sorted(x for x in s if x in rules)
    rank = {}
    state = {}

    def visit(k):
        if k in rank:
            return rank[k]
        if state.get(k) == 1:       # left-recursive cycle: no valid ranking exists; Lean's obligation will fail
            return 0
        state[k] = 1
        r = 0
        for x in left[k]:
            r = max(r, visit(x) + 1)
        state[k] = 2
        rank[k] = r
        return r
    for k in rules:
        visit(k)
    return nt, rank


def grammar_objects():
    from pgradd.RINGParser import Grammar
    return [('strict', Grammar.strict_grammar), ('enhanced', Grammar.enhanced_grammar)]


def ident(name):
    out = ''.join(c if (c.isalnum() and ord(c) < 128) else '_' for c in name)
    return out or '_'


@gen('RingGrammar')
def gen_ring_grammar():
    P = _classes()
    gs = grammar_objects()
    for nm, g in gs:
        if not (isinstance(g, tuple) and len(g) == 2 and isinstance(g[0], str) and isinstance(g[1], dict)):
            raise CannotTranslate('%s_grammar is not (root name, dict)' % nm)
    names = collect_names([g for _, g in gs])
    idx = {n: i for i, n in enumerate(names)}
    for lst, what in ((P.filler, 'filler'), (P.string_okay, 'string_okay')):
        if not isinstance(lst, (list, tuple)) or not all(isinstance(x, str) for x in lst):
            raise CannotTranslate('Parser.%s is not a list of strings' % what)
    o = io.StringIO()
    o.write(HEADER)
    o.write('import PGA.Model.RingParse\n')
    o.write('namespace PGA.Gen.RingGrammar\nopen PGA.Ring\n\n')
    o.write('/-- rule names: keys of either dictionary first, then names that are only referenced -/\n')
    o.write('def ruleNames : List String := [\n  ' + ',\n  '.join(lean_str(n) for n in names) + ']\n\n')
    used = set()
    for n in names:
        c = 'r' + ident(n)
        while c in used:
            c += "'"
        used.add(c)
        o.write('abbrev %s : Nat := %d\n' % (c, idx[n]))
    o.write('\n/-- `filler` of Parser.py -/\ndef filler : List (List Char) := [%s]\n' % ', '.join(lean_chars(x) for x in P.filler))
    o.write('/-- `string_okay` of Parser.py -/\ndef stringOkay : List (List Char) := [%s]\n\n' % ', '.join(lean_chars(x) for x in P.string_okay))
    # one def per distinct rule object (the two dictionaries share most of them)
    objname = {}
    for gname, (root, rules) in gs:
        for k, v in rules.items():
            if id(v) not in objname:
                nm = 'body_%s_%s' % (gname, ident(k))
                objname[id(v)] = nm
                o.write('def %s : Expr :=\n  %s\n' % (nm, emit(v, idx, P)))
    o.write('\n')
    for gname, (root, rules) in gs:
        nt, rank = rank_table(rules, P)
        o.write('/-- `%s_grammar` of Grammar.py: root %r, %d rules -/\n' % (gname, root, len(rules)))
        o.write('def %sRules : List (Option Expr) := [\n  ' % gname)
        o.write(',\n  '.join(('some ' + objname[id(rules[n])]) if n in rules else 'none' for n in names))
        o.write(']\n')
        o.write('/-- rank witness (computed by the translator, checked by `PGA.Props.C09`) -/\n')
        o.write('def %sRank : List Nat := [%s]\n' % (gname, ', '.join(str(rank.get(n, 0)) for n in names)))
        o.write('/-- nullable witness -/\n')
        o.write('def %sNullable : List Bool := [%s]\n' % (gname, ', '.join('true' if nt.get(n, True) else 'false' for n in names)))
        o.write('def %s : Grammar := { root := %d, rules := %sRules, rank := %sRank, filler := filler, stringOkay := stringOkay }\n\n'
                % (gname, idx[root], gname, gname))
    o.write('end PGA.Gen.RingGrammar\n')
    return o.getvalue()


@gen('RingChars')
def gen_ring_chars():
    """`str.isdecimal` (used by the repaired Digit/Number), as code-point ranges."""
    o = io.StringIO()
    o.write(HEADER)
    o.write('namespace PGA.Gen.RingChars\n\n')
    rs = ranges(str.isdecimal)
    o.write('def isdecimalRanges : List (Nat × Nat) := [\n')
    o.write(',\n'.join('  (%d, %d)' % r for r in rs))
    o.write(']\n\n')
    o.write('end PGA.Gen.RingChars\n')
    return o.getvalue()


def accepted_symbols():
    """symbols `Chem.Atom(str)` accepts (exact match, anything else raises RuntimeError): probed, not assumed,
    over every string of one or two ASCII alphanumerics/underscore, every Xxx, and every periodic-table symbol"""
    import itertools, string
    from rdkit import Chem, RDLogger
    RDLogger.DisableLog('rdApp.*')
    cand = []
    al = string.ascii_letters + string.digits + '_'
    cand += list(al)
    cand += [a + b for a in al for b in al]
    cand += [a + b + c for a in string.ascii_uppercase for b in string.ascii_lowercase for c in string.ascii_lowercase]
    pt = Chem.GetPeriodicTable()
    for z in range(1, 300):
        try:
            cand.append(pt.GetElementSymbol(z))
        except Exception:
            break
    ok = {}
    for s in cand:
        if s in ok:
            continue
        try:
            ok[s] = Chem.Atom(s).GetAtomicNum()
        except RuntimeError:
            pass
    return ok


@gen('RingElements')
def gen_ring_elements():
    """RDKit's element-symbol table as accepted by `Chem.Atom(str)`, and the lower-case (aromatic) spellings
    `t` for which `Chem.Atom(t[0].upper() + t[1:])` succeeds (CPython `str.upper` folded in)."""
    ok = accepted_symbols()
    o = io.StringIO()
    o.write(HEADER)
    o.write('namespace PGA.Gen.RingElements\n\n')
    o.write('/-- (symbol, atomic number) for every string `Chem.Atom` accepts -/\n')
    o.write('def elementSymbols : List (List Char × Nat) := [\n  ')
    o.write(',\n  '.join('(%s, %d)' % (lean_chars(s), z) for s, z in sorted(ok.items(), key=lambda kv: (kv[1], kv[0]))))
    o.write(']\n\n')
    inv = {}
    for cp in range(0x110000):
        if 0xD800 <= cp <= 0xDFFF:
            continue
        c = chr(cp)
        if c.islower():
            inv.setdefault(c.upper(), []).append(c)
    arom = {}
    for s, z in ok.items():
        for k in range(1, len(s) + 1):
            for c in inv.get(s[:k], []):
                arom[c + s[k:]] = z
    o.write('/-- spellings whose first character `islower()` and whose capitalised form is an element symbol -/\n')
    o.write('def aromaticSymbols : List (List Char × Nat) := [\n  ')
    o.write(',\n  '.join('(%s, %d)' % (lean_chars(s), z) for s, z in sorted(arom.items(), key=lambda kv: (kv[1], kv[0]))))
    o.write(']\n\n')
    o.write('end PGA.Gen.RingElements\n')
    return o.getvalue()
