"""Uncertainty blocks of the shipped libraries (C20): basis, matrix and degrees of freedom as the loaded
`GroupLibrary.uq_contents` holds them (live objects after `GroupLibrary.Load`, includes merged)."""
import io, os, re
from ..translate import gen, lean_int, dec_of_float, write_if_changed, HEADER
from .pmutt import chars


def shipped_libraries():
    import pgradd
    root = os.path.join(os.path.dirname(pgradd.__file__), 'data')
    return sorted(d for d in os.listdir(root) if os.path.exists(os.path.join(root, d, 'library.yaml')))


def ident(name):
    return re.sub(r'[^A-Za-z0-9_]', '_', name)


_cache = {}


def load(name):
    """one loaded instance per library and process (the checks never mutate `contents`/`uq_contents`)"""
    if name not in _cache:
        import pgradd.ThermoChem  # registers the property set
        from pgradd.GroupAdd.Library import GroupLibrary
        _cache[name] = GroupLibrary.Load(name)
    return _cache[name]


def uq_libraries():
    return [n for n in shipped_libraries() if load(n).uq_contents]


def dec(x):
    """`dn m e` / `dp m e` (see PGA/Model/EstimateDec.lean)"""
    m, e = dec_of_float(x)
    ms = lean_int(m)
    return 'dn %s %d' % (ms, -e) if e < 0 else 'dp %s %d' % (ms, e)


@gen('Uq')
def gen_uq():
    """index module `Uq`; the per-library tables go to `UqLib_<name>.lean` (written here, built in parallel)"""
    names = uq_libraries()
    for name in names:
        o = io.StringIO()
        o.write(HEADER)
        u = load(name).uq_contents
        idn = ident(name)
        o.write('import PGA.Model.EstimateDec\nnamespace PGA.Gen.Uq\nopen PGA.Estimate\n\n')
        basis = [str(b) for b in u['descriptors']]
        mat = u['mat']
        if getattr(mat, 'ndim', None) != 2:
            raise RuntimeError('%s: uncertainty matrix is not 2-dimensional' % name)
        o.write('namespace %s\n' % idn)
        o.write('def basis : List (List Char) := [\n' + ',\n'.join('  ' + chars(b) for b in basis) + ']\n\n')
        for i in range(mat.shape[0]):
            o.write('def row%d : List Dec := [%s]\n' % (i, ', '.join(dec(float(v)) for v in mat[i])))
        o.write('\ndef mat : List (List Dec) := [%s]\n\n' % ', '.join('row%d' % i for i in range(mat.shape[0])))
        dof = u['dof']
        if isinstance(dof, bool) or not isinstance(dof, int):
            raise RuntimeError('%s: DOF is %r' % (name, dof))
        o.write('def dof : Int := %s\n' % lean_int(dof))
        o.write('end %s\n\nend PGA.Gen.Uq\n' % idn)
        write_if_changed('UqLib_' + idn, o.getvalue())
    o = io.StringIO()
    o.write(HEADER)
    o.write(''.join('import PGA.Gen.UqLib_%s\n' % ident(n) for n in names))
    o.write('import PGA.Model.EstimateDec\nnamespace PGA.Gen.Uq\nopen PGA.Estimate\n\n')
    o.write('/-- the shipped libraries that carry uncertainty data: (name, basis, matrix, DOF) -/\n')
    o.write('def libs : List (List Char × List (List Char) × List (List Dec) × Int) := [\n')
    o.write(',\n'.join('  (%s, %s.basis, %s.mat, %s.dof)' % (chars(n), ident(n), ident(n), ident(n)) for n in names))
    o.write(']\n\n/-- all shipped libraries, with and without uncertainty data -/\n')
    o.write('def shipped : List (List Char) := [\n' + ',\n'.join('  ' + chars(n) for n in shipped_libraries()) + ']\n\n')
    o.write('end PGA.Gen.Uq\n')
    return o.getvalue()
