"""Shipped databases as Lean tables (C14, also used by C20): one module `Lib_<name>` per bundled library
(groups as loaded, scheme entries, remaps, uncertainty basis) and one module `Uq_<name>` per library that
carries an uncertainty matrix (matrix + an untrusted Cholesky-type witness the kernel re-checks).
Everything is taken from the live objects `GroupLibrary.Load(name)` returns in the working tree."""
import io, os, numbers
from ..translate import gen, lean_str, lean_dec, dec_of_float, HEADER, REGISTRY

EPS = 5e-4      # shift used when computing the witness; the certificate itself is exact
LSCALE = 10 ** 6


def lib_names():
    import pgradd
    root = os.path.join(os.path.dirname(pgradd.__file__), 'data')
    return sorted(d for d in os.listdir(root) if os.path.isfile(os.path.join(root, d, 'library.yaml')))


_cache = {}


def load(name):
    if name not in _cache:
        import warnings
        warnings.filterwarnings('ignore')
        import pgradd.ThermoChem  # registers the property set
        from pgradd.GroupAdd.Library import GroupLibrary
        _cache[name] = GroupLibrary.Load(name)
    return _cache[name]


def is_plain_number(x):
    import numpy as np
    return isinstance(x, (int, float, np.integer, np.floating)) and not isinstance(x, bool)


def val(x):
    import math
    if x is None:
        return '.absent'
    if is_plain_number(x) and math.isfinite(float(x)):
        return '(.num %s)' % lean_dec(float(x) if not isinstance(x, int) else x)
    return '(.notNumber %s)' % lean_str(type(x).__name__)


def ident(name):
    return ''.join(c if c.isalnum() else '_' for c in name)


def gen_lib(name):
    lib = load(name)
    o = io.StringIO()
    o.write(HEADER)
    o.write('import PGA.Model.LibTable\nnamespace PGA.Gen.Lib_%s\nopen PGA PGA.LibTable\n\n' % ident(name))
    o.write('def libName : String := %s\n\n' % lean_str(name))
    keys = sorted(lib.contents, key=lambda g: str(g))
    for i, g in enumerate(keys):
        ps = lib.contents[g]
        th = ps.get('thermochem') if hasattr(ps, 'get') else None
        if th is None:
            o.write('def g%d : GroupRec := { name := %s, hasThermo := false, tref := .absent, href := .absent, sref := .absent, cp := [], range := none }\n'
                    % (i, lean_str(str(g))))
            continue
        cpd = getattr(th, 'ND_Cp_data', None) or {}
        items = sorted(cpd.items(), key=lambda kv: kv[0])
        cp = ', '.join('(%s, %s)' % (lean_dec(float(t)), val(c)) for t, c in items)
        rng = th.get_range() if hasattr(th, 'get_range') else None
        rs = 'none' if rng is None else 'some (%s, %s)' % (lean_dec(float(rng[0])), lean_dec(float(rng[1])))
        o.write('def g%d : GroupRec := { name := %s, hasThermo := true, tref := %s, href := %s, sref := %s, cp := [%s], range := %s }\n'
                % (i, lean_str(str(g)), val(getattr(th, 'T_ref', None)), val(getattr(th, 'ND_H_ref', None)),
                   val(getattr(th, 'ND_S_ref', None)), cp, rs))
    o.write('\ndef groups : List GroupRec := [%s]\n\n' % ', '.join('g%d' % i for i in range(len(keys))))
    sch = lib.scheme
    # scheme: centre/peripheral names and descriptor names (pattern texts are obligations of the reader model)
    o.write('def patternNames : List (String × String) := [%s]\n\n' % ', '.join(
        '(%s, %s)' % (lean_str(str(p.get('center_group', p.get('name', '')))), lean_str(str(p.get('periph_group', ''))))
        for p in sch.patterns))
    o.write('def otherDescriptorNames : List String := [%s]\n\n' % ', '.join(lean_str(str(d['name'])) for d in sch.other_descriptors))
    rms = []
    for k in sch.remaps:
        v = sch.remaps[k]
        ok = isinstance(v, list) and all(isinstance(t, (list, tuple)) and len(t) == 2 and isinstance(t[1], str) for t in v)
        if ok:
            ts = ', '.join('(%s, %s)' % (val(t[0]), lean_str(t[1])) for t in v)
        else:
            ts = '(.notNumber %s, "")' % lean_str('malformed:' + type(v).__name__)
        rms.append('{ key := %s, targets := [%s] }' % (lean_str(str(k)), ts))
    for i, r in enumerate(rms):
        o.write('def r%d : Remap := %s\n' % (i, r))
    o.write('def remaps : List Remap := [%s]\n\n' % ', '.join('r%d' % i for i in range(len(rms))))
    uq = lib.uq_contents or {}
    o.write('def hasUq : Bool := %s\n' % ('true' if uq else 'false'))
    if uq:
        o.write('def uqBasis : List String := [%s]\n' % ', '.join(lean_str(str(d)) for d in uq['descriptors']))
        dof = uq['dof']
        o.write('def uqDof : Val := %s\n' % val(dof))
    o.write('\nend PGA.Gen.Lib_%s\n' % ident(name))
    return o.getvalue()


def gen_uq(name):
    import numpy as np
    lib = load(name)
    uq = lib.uq_contents
    if not uq:
        return HEADER + 'namespace PGA.Gen.Uq_%s\n/-- this library carries no uncertainty data -/\ndef dim : Nat := 0\nend PGA.Gen.Uq_%s\n' % (ident(name), ident(name))
    M = np.array(uq['mat'], dtype=float)
    n = M.shape[0]
    rows = [[dec_of_float(float(x)) for x in r] for r in M.tolist()]
    k = max([0] + [-e for r in rows for (m, e) in r])
    Mi = [[m * 10 ** (e + k) for (m, e) in r] for r in rows]
    o = io.StringIO()
    o.write(HEADER)
    o.write('import PGA.Model.LibTable\nnamespace PGA.Gen.Uq_%s\nopen PGA PGA.LibTable\n\n' % ident(name))
    o.write('/-- the stored matrix entries are `mInt / 10^decimals` exactly (decimal literals of the live floats) -/\n')
    o.write('def decimals : Nat := %d\ndef dim : Nat := %d\n' % (k, n))
    for i, r in enumerate(Mi):
        o.write('def m%d : List Int := [%s]\n' % (i, ','.join(str(x) if x >= 0 else '(%d)' % x for x in r)))
    o.write('def mInt : List (List Int) := [%s]\n\n' % ','.join('m%d' % i for i in range(n)))
    # witness (untrusted): rounded Cholesky factor of sym(M) - EPS*I, scaled
    Ms = (M + M.T) / 2
    try:
        Lc = np.linalg.cholesky(Ms - EPS * np.eye(n))
    except np.linalg.LinAlgError:
        try:
            Lc = np.linalg.cholesky(Ms + 0 * np.eye(n))
        except np.linalg.LinAlgError:
            Lc = np.zeros((n, n))
    Li = [[int(round(Lc[i][j] * LSCALE)) for j in range(n)] for i in range(n)]
    o.write('/-- untrusted witness: `L ≈ chol(M − %g·I)·%d`; the kernel checks `certScale·mInt − L·Lᵀ` diagonally dominant -/\n' % (EPS, LSCALE))
    for i, r in enumerate(Li):
        o.write('def l%d : List Int := [%s]\n' % (i, ','.join(str(x) if x >= 0 else '(%d)' % x for x in r)))
    o.write('def lInt : List (List Int) := [%s]\n' % ','.join('l%d' % i for i in range(n)))
    # certScale * mInt = LSCALE^2 * M  =>  certScale = LSCALE^2 / 10^k
    assert (LSCALE ** 2) % (10 ** k) == 0
    o.write('def certScale : Int := %d\n' % (LSCALE ** 2 // 10 ** k))
    o.write('\nend PGA.Gen.Uq_%s\n' % ident(name))
    return o.getvalue()


def has_uq(name):
    try:
        return bool(load(name).uq_contents)
    except Exception:
        return False


def gen_libobl(name):
    """table obligations of one library: every group record well formed, remaps well formed and chain-free,
    every uncertainty-basis descriptor names an entry with data"""
    lib = load(name)
    n = len(lib.contents)
    idn = ident(name)
    o = io.StringIO()
    o.write(HEADER)
    o.write('import PGA.Gen.Lib_%s\nimport PGA.Props.C14Eval\nnamespace PGA.Gen.LibObl_%s\nopen PGA PGA.LibTable PGA.Gen.Lib_%s\n\n' % (idn, idn, idn))
    o.write('\n/-- every group of the library as loaded is self-consistent -/\n')
    o.write('theorem groups_wf : groups.all wfGroup = true := by decide +kernel\n')
    o.write('/-- C14-T1 for this library (instance of `C14_wf_group_evaluates`, no further kernel evaluation): every group is\n'
            'constructed by the thermo model from its dumped data and returns a value for Cp/R, H/RT, S/R, G/RT - whichever it has\n'
            'data for - at every rational T of its range, for every interpolant -/\n')
    o.write('theorem groups_evaluate (ip : PGA.Thermo.Interp) : ∀ g ∈ groups, ∃ c, g.correlation ip = .ok c ∧\n'
            '    ∀ T, PGA.Thermo.inRange T (effRange g) → EvaluatesAt g c T :=\n'
            '  fun g hg => C14_wf_group_evaluates ip g (List.all_eq_true.mp groups_wf g hg)\n')
    o.write('/-- ... and reproduces its reference values and its table, for an interpolant that passes through the table and has\n'
            'additive integrals (instance of `C14_wf_group_reproduces`) -/\n')
    o.write('theorem groups_reproduce (ip : PGA.Thermo.Interp) (hgood : ip.Good) : ∀ g ∈ groups, ip.Hits g.pts →\n'
            '    ∃ c, g.correlation ip = .ok c ∧ ReproducesData g c :=\n'
            '  fun g hg hh => C14_wf_group_reproduces ip hgood g (List.all_eq_true.mp groups_wf g hg) hh\n')
    o.write('theorem names_distinct : keysDistinct (groups.map (·.name)) = true := by decide +kernel\n')
    o.write('theorem remaps_wf : remaps.all wfRemap = true := by decide +kernel\n')
    o.write('theorem remaps_chain_free : chainFree remaps = true := by decide +kernel\n')
    o.write('theorem remap_keys_distinct : keysDistinct (remaps.map (·.key)) = true := by decide +kernel\n')
    if lib.uq_contents:
        o.write('/-- every uncertainty-basis descriptor names an entry that has thermochemical data -/\n')
        o.write('theorem uq_basis_has_data : uqBasis.all (fun d => groups.any fun g => g.name == d && g.hasThermo) = true := by decide +kernel\n')
        o.write('theorem uq_basis_distinct : keysDistinct uqBasis = true := by decide +kernel\n')
        o.write('theorem uq_dof_number : uqDof.isNum = true := by decide +kernel\n')
    o.write('\nend PGA.Gen.LibObl_%s\n' % idn)
    return o.getvalue()


def gen_uqobl(name):
    idn = ident(name)
    if not has_uq(name):
        return HEADER + '-- this library carries no uncertainty data: nothing to prove\nnamespace PGA.Gen.UqObl_%s\nend PGA.Gen.UqObl_%s\n' % (idn, idn)
    o = io.StringIO()
    o.write(HEADER)
    o.write('import PGA.Gen.Lib_%s\nimport PGA.Gen.Uq_%s\nimport PGA.Proofs.Psd\n' % (idn, idn))
    o.write('namespace PGA.Gen.UqObl_%s\nopen PGA PGA.LibTable PGA.Gen.Uq_%s\n\n' % (idn, idn))
    o.write('/-- square, and sized to the uncertainty basis -/\n')
    o.write('theorem sized_basis : (dim == PGA.Gen.Lib_%s.uqBasis.length) = true := by decide +kernel\n' % idn)
    o.write('theorem sized_m : squareSized dim mInt = true := by decide +kernel\n')
    o.write('theorem sized_l : squareSized dim lInt = true := by decide +kernel\n')
    o.write('theorem sym : symmetric dim mInt = true := by decide +kernel\n')
    o.write('theorem scale_pos : 0 < certScale := by decide +kernel\n')
    o.write('/-- the kernel re-checks the witness: `certScale·M − L·Lᵀ` is diagonally dominant with non-negative diagonal -/\n')
    o.write('theorem cert : certOk dim certScale mInt lInt = true := by decide +kernel\n')
    o.write('/-- hence the stored matrix is positive semi-definite: `0 ≤ xᵀMx` for every rational vector -/\n')
    o.write('theorem psd (x : Nat → Rat) : 0 ≤ quadForm dim mInt x :=\n  psd_of_cert dim certScale mInt lInt x sized_l sym scale_pos cert\n')
    o.write('\nend PGA.Gen.UqObl_%s\n' % idn)
    return o.getvalue()


def gen_libdata():
    """index of the table modules (data only: importable by the compiled driver)"""
    names = lib_names()
    o = io.StringIO()
    o.write(HEADER)
    for n in names:
        o.write('import PGA.Gen.Lib_%s\n' % ident(n))
    o.write('namespace PGA.Gen.LibData\n\n')
    o.write('def libraries : List String := [%s]\n' % ', '.join(lean_str(n) for n in names))
    o.write('def withUq : List String := [%s]\n' % ', '.join(lean_str(n) for n in names if has_uq(n)))
    o.write('def allGroups : List (String × List PGA.LibTable.GroupRec) := [%s]\n' % ', '.join(
        '(%s, PGA.Gen.Lib_%s.groups)' % (lean_str(n), ident(n)) for n in names))
    o.write('def allRemaps : List (String × List PGA.LibTable.Remap) := [%s]\n' % ', '.join(
        '(%s, PGA.Gen.Lib_%s.remaps)' % (lean_str(n), ident(n)) for n in names))
    o.write('\nend PGA.Gen.LibData\n')
    return o.getvalue()


def gen_liball():
    """index of the obligation modules (imported by PGA.Props.C14)"""
    names = lib_names()
    o = io.StringIO()
    o.write(HEADER)
    o.write('import PGA.Gen.LibData\n')
    for n in names:
        o.write('import PGA.Gen.LibObl_%s\n' % ident(n))
        if has_uq(n):
            o.write('import PGA.Gen.UqObl_%s\n' % ident(n))
    return o.getvalue()


def module_names():
    """all generated modules of the bundled databases, in dependency order"""
    out = []
    for nm in lib_names():
        out += ['Lib_' + ident(nm), 'LibObl_' + ident(nm)]
        if has_uq(nm):
            out += ['Uq_' + ident(nm), 'UqObl_' + ident(nm)]
    return out + ['LibData', 'LibAll']


def obligation_names():
    """fully qualified theorem names generated for the live libraries"""
    out = []
    for nm in lib_names():
        idn = ident(nm)
        out += ['PGA.Gen.LibObl_%s.%s' % (idn, t) for t in
                ['groups_wf', 'groups_evaluate', 'groups_reproduce', 'names_distinct', 'remaps_wf', 'remaps_chain_free',
                 'remap_keys_distinct']]
        if has_uq(nm):
            out += ['PGA.Gen.LibObl_%s.%s' % (idn, t) for t in ['uq_basis_has_data', 'uq_basis_distinct', 'uq_dof_number']]
            out += ['PGA.Gen.UqObl_%s.%s' % (idn, t) for t in ['sized_basis', 'sized_m', 'sized_l', 'sym', 'cert', 'psd']]
    return out


def _register():
    # registration is by directory listing only (no library is loaded until a module is generated)
    for nm in lib_names():
        idn = ident(nm)
        REGISTRY['Lib_' + idn] = (lambda nm=nm: gen_lib(nm))
        REGISTRY['LibObl_' + idn] = (lambda nm=nm: gen_libobl(nm))
        REGISTRY['Uq_' + idn] = (lambda nm=nm: gen_uq(nm))
        REGISTRY['UqObl_' + idn] = (lambda nm=nm: gen_uqobl(nm))
    REGISTRY['LibData'] = gen_libdata
    REGISTRY['LibAll'] = gen_liball


_register()
