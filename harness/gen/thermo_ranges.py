"""Validity ranges, table spans and reference temperatures of every group of every shipped library (C06 table obligation),
dumped from the loaded objects (`GroupLibrary.Load(name)`), one `def` per row."""
import io, os
from ..translate import gen, HEADER, lean_dec, lean_str


@gen('ThermoRanges')
def gen_thermo_ranges():
    import pgradd
    from pgradd.GroupAdd.Library import GroupLibrary
    import pgradd.ThermoChem  # noqa: registers the property set
    root = os.path.join(os.path.dirname(pgradd.__file__), 'data')
    o = io.StringIO()
    o.write(HEADER)
    o.write('import PGA.Model.ThermoDec\nnamespace PGA.Gen.ThermoRanges\nopen PGA.Thermo\n\n')
    names = []
    for lib_name in sorted(d for d in os.listdir(root) if os.path.exists(os.path.join(root, d, 'library.yaml'))):
        lib = GroupLibrary.Load(lib_name)
        rows = []
        for g, ps in lib.contents.items():
            th = ps.get('thermochem')
            if th is None:
                continue
            rng = th.get_range()
            ts = sorted(float(t) for t in th.ND_Cp_data)
            rows.append((str(g), rng, (ts[0], ts[-1]) if ts else None, float(th.T_ref)))
        rows.sort(key=lambda r: r[0])
        for i, (g, rng, tab, tref) in enumerate(rows):
            nm = 'r_%s_%d' % (lib_name, i)
            names.append(nm)
            pair = lambda p: 'none' if p is None else '(some (%s, %s))' % (lean_dec(float(p[0])), lean_dec(float(p[1])))
            o.write('def %s : RangeRow := ⟨%s, %s, %s, %s, %s⟩\n' % (nm, lean_str(lib_name), lean_str(g), pair(rng), pair(tab), lean_dec(tref)))
    o.write('\ndef rows : List RangeRow := [\n  ' + ',\n  '.join(names) + ']\n\n')
    o.write('end PGA.Gen.ThermoRanges\n')
    return o.getvalue()
