"""CPython character tables (used by C19, C09, C10)."""
import io, sys
from ..translate import gen, ranges, HEADER


@gen('Chars')
def gen_chars():
    """CPython's str predicates used by the repo, as code-point range tables."""
    import unicodedata
    o = io.StringIO()
    o.write(HEADER)
    o.write('namespace PGA.Gen.Chars\n\n')
    for nm, pred in [('isdigit', str.isdigit), ('isalpha', str.isalpha),
                     ('islower', str.islower), ('isspace', str.isspace),
                     ('isupper', str.isupper), ('isalnum', str.isalnum)]:
        rs = ranges(pred)
        o.write('def %sRanges : List (Nat × Nat) := [\n' % nm)
        o.write(',\n'.join('  (%d, %d)' % r for r in rs))
        o.write(']\n\n')
    # characters int() accepts as decimal digits, grouped in runs of consecutive values
    runs = []
    for cp in range(0x110000):
        if 0xD800 <= cp <= 0xDFFF:
            continue
        v = unicodedata.decimal(chr(cp), None)
        if v is None:
            continue
        if runs and runs[-1][1] == cp - 1 and runs[-1][2] + (cp - runs[-1][0]) == v:
            runs[-1][1] = cp
        else:
            runs.append([cp, cp, v])
    o.write('/-- (lo, hi, decimal value of lo); value of c in [lo,hi] is v + (c - lo). -/\n')
    o.write('def decimalRuns : List (Nat × Nat × Nat) := [\n')
    o.write(',\n'.join('  (%d, %d, %d)' % tuple(r) for r in runs))
    o.write(']\n\n')
    o.write('/-- sys.get_int_max_str_digits() -/\n')
    o.write('def intMaxStrDigits : Nat := %d\n\n' % sys.get_int_max_str_digits())
    o.write('end PGA.Gen.Chars\n')
    return o.getvalue()


