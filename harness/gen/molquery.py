"""Tables of pgradd/RDkitWrapper/MolQuery.py and of the RDKit the implementation runs on (C08; reused by C02-C04, C16).

Everything is taken from live objects: the comparison-operator dictionary `ops` is probed on a grid of small
integers, `BondQuery` is probed with every RING bond word (and decoys) on real RDKit bonds of every bond type in
and out of a ring, `ConstraintNumber` is probed on the literal strings the reader passes to it, and RDKit's
element table / default valences are read from `Chem.Atom(symbol)` / `GetPeriodicTable()`."""
import io, itertools, string
from ..translate import gen, HEADER, lean_str, lean_int

GRID = list(range(-2, 12))
BOND_WORDS = ['single', 'double', 'triple', 'quadruple', 'ring', 'nonring', 'aromatic', 'any', 'strong', 'partial']
DECOYS = ['zero', 'dative', 'quintuple', 'weak', 'none', '', 'Single', 'other']
CN_LITERALS = ['>=1', '=0', '=1', '=2', '=3', '=-1']


def _bool(b):
    return 'true' if b else 'false'


def kind_name(bt):
    from rdkit import Chem
    BT = Chem.BondType
    return {BT.SINGLE: 'single', BT.DOUBLE: 'double', BT.TRIPLE: 'triple', BT.QUADRUPLE: 'quadruple',
            BT.AROMATIC: 'aromatic', BT.ZERO: 'zero', BT.DATIVE: 'dative', BT.OTHER: 'other',
            BT.UNSPECIFIED: 'unspecified'}.get(bt, 'misc')


def probe_bonds():
    """[(kind name, in ring?, rdkit bond)] over every RDKit bond type; the owning molecules are kept alive"""
    from rdkit import Chem
    out, keep = [], []
    for name, bt in sorted(Chem.BondType.names.items(), key=lambda kv: int(kv[1])):
        if bt == Chem.BondType.UNSPECIFIED:
            continue
        for ring in (False, True):
            m = Chem.RWMol(Chem.Mol())
            for _ in range(3 if ring else 2):
                m.AddAtom(Chem.Atom(6))
            m.AddBond(0, 1, bt)
            if ring:
                m.AddBond(1, 2, bt)
                m.AddBond(2, 0, bt)
            Chem.FastFindRings(m)
            keep.append(m)
            b = m.GetBondWithIdx(0)
            out.append((kind_name(bt), bool(b.IsInRing()), b))   # RDKit finds no ring through zero-order/dative bonds
    return out, keep


@gen('MolQuery')
def gen_molquery():
    from rdkit import Chem, RDLogger
    RDLogger.DisableLog('rdApp.*')
    from pgradd.RDkitWrapper import MolQuery as MQ
    o = io.StringIO()
    o.write(HEADER)
    o.write('namespace PGA.Gen.MolQuery\n\n')
    # --- comparison operators
    names = sorted(MQ.ops)
    o.write('/-- keys of `MolQuery.ops` -/\n')
    o.write('def opNames : List String := [%s]\n\n' % ', '.join(lean_str(n) for n in names))
    o.write('/-- `ops[name](a, b)` probed on a grid: (name, [(a, b, result)]) -/\n')
    for k, n in enumerate(names):
        rows = ['(%s, %s, %s)' % (lean_int(a), lean_int(b), _bool(bool(MQ.ops[n](a, b)))) for a in GRID for b in GRID]
        o.write('def opsGrid%d : List (Int × Int × Bool) := [\n  %s]\n' % (k, ',\n  '.join(
            ', '.join(rows[i:i + 7]) for i in range(0, len(rows), 7))))
    o.write('def opsGrid : List (String × List (Int × Int × Bool)) := [%s]\n\n' % ', '.join(
        '(%s, opsGrid%d)' % (lean_str(n), k) for k, n in enumerate(names)))
    # --- ConstraintNumber on the reader's literal strings
    rows = []
    for s in CN_LITERALS:
        c = MQ.ConstraintNumber(s)
        rows.append('(%s, %s, %s)' % (lean_str(s), lean_str(c.operator), lean_int(int(c.n))))
    o.write('/-- `ConstraintNumber(s)` for the strings the reader passes: (s, operator, n) -/\n')
    o.write('def cnLiterals : List (String × String × Int) := [%s]\n\n' % ', '.join(rows))
    # --- BondQuery
    accepted = []
    for w in BOND_WORDS + DECOYS:
        try:
            MQ.BondQuery(w)
            accepted.append(w)
        except NotImplementedError:
            pass
    o.write('/-- the words `BondQuery(word)` accepts, among the RING bond words and decoys -/\n')
    o.write('def bondWords : List String := [%s]\n\n' % ', '.join(lean_str(w) for w in accepted))
    bonds, keep = probe_bonds()
    o.write('/-- `BondQuery(word)(bond)` (an exception counts as False) on bonds of every RDKit bond type, out of and in a ring:\n'
            '(word, [(bond kind, in ring, result)]) -/\n')
    for k, w in enumerate(accepted):
        rows = []
        for kn, ring, b in bonds:
            try:
                r = bool(MQ.BondQuery(w)(b))
            except Exception:
                r = False
            rows.append('(%s, %s, %s)' % (lean_str(kn), _bool(ring), _bool(r)))
        o.write('def bondGrid%d : List (String × Bool × Bool) := [\n  %s]\n' % (k, ',\n  '.join(
            ', '.join(rows[i:i + 4]) for i in range(0, len(rows), 4))))
    o.write('def bondGrid : List (String × List (String × Bool × Bool)) := [%s]\n\n' % ', '.join(
        '(%s, bondGrid%d)' % (lean_str(w), k) for k, w in enumerate(accepted)))
    # --- RDKit element table: every string of <= 2 ASCII letters, plus the periodic table's own symbols
    pt = Chem.GetPeriodicTable()
    cands = set()
    for a in string.ascii_letters:
        cands.add(a)
        for b in string.ascii_letters:
            cands.add(a + b)
    for z in range(0, 200):
        try:
            cands.add(pt.GetElementSymbol(z))
        except Exception:
            break
    elems = []
    for s in sorted(cands):
        if not s:
            continue
        try:
            elems.append((s, Chem.Atom(s).GetAtomicNum()))
        except RuntimeError:
            pass
    o.write('/-- the symbols `Chem.Atom(symbol)` accepts (probed: every string of one or two ASCII letters and the\n'
            'periodic table\'s own symbols), with the atomic number -/\n')
    o.write('def elements : List (String × Nat) := [\n  %s]\n\n' % ',\n  '.join(
        ', '.join('(%s, %d)' % (lean_str(s), z) for s, z in elems[i:i + 8]) for i in range(0, len(elems), 8)))
    zs = sorted(set(z for _, z in elems))
    o.write('/-- `GetPeriodicTable().GetDefaultValence(Z)` -/\n')
    o.write('def defaultValence : List (Nat × Int) := [\n  %s]\n\n' % ',\n  '.join(
        ', '.join('(%d, %s)' % (z, lean_int(pt.GetDefaultValence(z))) for z in zs[i:i + 12]) for i in range(0, len(zs), 12)))
    o.write('end PGA.Gen.MolQuery\n')
    return o.getvalue()
