"""Tables for C12 / C13 / C18: SI factor and dimension of every unit string the generators use and of GAS_CONSTANT
(from the live pgradd.Units / pgradd.Consts), and the member list of the registered ThermochemGroup /
ThermochemIncomplete YAML schemas (from the live schema repository).

The model treats a unit as an abstract (factor, dimension) pair; this table is where the pair comes from.
Dependency for the integrator: the C10 model of the unit-expression parser should reproduce every row."""
import io
from ..translate import gen, HEADER, lean_str, lean_int, dec_of_float


def _type_str(sd):
    if sd is None:
        return 'any'
    if isinstance(sd, str):
        return sd
    t = sd.get('type')
    if t == 'qty':
        return 'qty:%s' % sd.get('kind')
    if t == 'tuple':
        return 'tuple(%s)' % ','.join(_type_str(x) for x in sd.get('item_types', []))
    if t == 'list':
        return 'list(%s)' % _type_str(sd.get('item_type'))
    extra = sorted(k for k in sd if k not in ('type', 'desc', 'optional', 'default', 'alts'))
    return str(t) + (''.join('[%s=%r]' % (k, sd[k]) for k in extra))


def _mode_str(sd):
    if isinstance(sd, dict):
        if sd.get('optional'):
            return 'optional'
        if 'default' in sd:
            return 'default'
        if 'alts' in sd:
            a = sd['alts']
            return 'alts:%s' % (a if isinstance(a, str) else ','.join(a))
    return 'required'


def schema_rows(tag):
    import pgradd.ThermoChem  # noqa: registers the classes
    from pgradd.yaml_io import yaml_io as yio
    fac = yio._repository._loaders[tag]
    members = fac.members
    rows = [(str(k), _mode_str(members[k]), _type_str(members[k])) for k in members]
    defaults = []
    for k in members:
        if isinstance(members[k], dict) and 'default' in members[k] and not members[k].get('optional'):
            d = members[k]['default']
            if not isinstance(d, str) or len(d.split(None, 1)) != 2:
                raise ValueError('default of %r is not "<number> <unit>": %r' % (k, d))
            num, unit = d.split(None, 1)
            defaults.append((str(k), dec_of_float(float(num)), unit))
    return rows, defaults, fac.object_class.__name__


@gen('YamlUnits')
def gen_yamlunits():
    from .. import lib_yamlmerge as L
    from pgradd.Consts import GAS_CONSTANT as R
    o = io.StringIO()
    o.write(HEADER)
    o.write('namespace PGA.Gen.YamlUnits\n\n')
    o.write('/-- (unit string, (mantissa, exp10) of `eval_qty(u).value`, exponents of m kg s A K mol cd) -/\n')
    o.write('def units : List (String × (Int × Int) × List Int) := [\n')
    rows = []
    for u in L.ALL_UNIT_STRINGS:
        from pgradd.Units import eval_qty
        with L.quiet():
            q = eval_qty(u)
        m, e = dec_of_float(q.value)
        ex = [int(round(float(x))) for x in q.units.exps]
        if any(abs(float(x) - round(float(x))) > 0 for x in q.units.exps):
            raise ValueError('fractional exponent in %r' % u)
        rows.append('  (%s, (%s, %s), [%s])' % (lean_str(u), lean_int(m), lean_int(e), ', '.join(lean_int(x) for x in ex)))
    o.write(',\n'.join(rows))
    o.write(']\n\n')
    m, e = dec_of_float(R.value)
    ex = [int(round(float(x))) for x in R.units.exps]
    o.write('/-- `pgradd.Consts.GAS_CONSTANT` -/\n')
    o.write('def gasConstant : (Int × Int) × List Int := ((%s, %s), [%s])\n\n' % (
        lean_int(m), lean_int(e), ', '.join(lean_int(x) for x in ex)))
    for tag, nm in [('ThermochemGroup', 'schemaGroup'), ('ThermochemIncomplete', 'schemaIncomplete')]:
        rows, defaults, cls = schema_rows(tag)
        o.write('/-- members of the schema registered under `!%s` (class %s): (name, mode, type) -/\n' % (tag, cls))
        o.write('def %s : List (String × String × String) := [\n' % nm)
        o.write(',\n'.join('  (%s, %s, %s)' % (lean_str(a), lean_str(b), lean_str(c)) for a, b, c in rows))
        o.write(']\n\n')
        o.write('/-- default values of `!%s` members, written "<number> <unit>": (name, (mantissa, exp10), unit) -/\n' % tag)
        o.write('def %sDefaults : List (String × (Int × Int) × String) := [%s]\n\n' % (nm, ', '.join(
            '(%s, (%s, %s), %s)' % (lean_str(k), lean_int(d[0]), lean_int(d[1]), lean_str(u)) for k, d, u in defaults)))
    # the property-set member the library loader builds for groups
    from pgradd.GroupAdd.Library import GroupLibrary
    ps = sorted((str(k), str(v)) for k, v in GroupLibrary._property_set_group_yaml_types.items())
    o.write('/-- `GroupLibrary._property_set_group_yaml_types` -/\n')
    o.write('def propertySets : List (String × String) := [%s]\n\n' % ', '.join('(%s, %s)' % (lean_str(a), lean_str(b)) for a, b in ps))
    o.write('end PGA.Gen.YamlUnits\n')
    return o.getvalue()
