"""Unit tables of pgradd/Units (used by C10, C11): prefix table, the three unit-definition lists of
builtin.py with their definitional strings, the primitive-unit names and snapping threshold of
FundamentalUnits, and GAS_CONSTANT.  All read from the live imported modules of $REPO."""
import io, contextlib
from ..translate import gen, lean_dec, lean_int, HEADER


def chars(s):
    """a Python str as a Lean `List Char` literal (String.toList does not reduce in the kernel)"""
    def one(ch):
        o = ord(ch)
        if ch == "'":
            return "'\\''"
        if ch == '\\':
            return "'\\\\'"
        if 32 <= o < 127:
            return "'%s'" % ch
        return "(Char.ofNat %d)" % o
    return '[' + ', '.join(one(c) for c in s) + ']'


def _other_definitions(builtin):
    """`builtin.other_units`; when the module no longer has a list of that name (it was split or renamed), every module-level
    list of (name, definition string) pairs other than the derived SI units, in the order the module defines them — the
    order of registration as far as the module's names show it (the database itself is compared name by name anyway)"""
    if hasattr(builtin, 'other_units'):
        return builtin.other_units
    out, seen = [], set()
    skip = {id(getattr(builtin, 'derived_SI_units', None))}
    for k, v in vars(builtin).items():
        if isinstance(v, (list, tuple)) and id(v) not in skip and v and all(
                isinstance(x, (list, tuple)) and len(x) == 2 and all(isinstance(y, str) for y in x) for x in v):
            for a, b in v:
                if a not in seen:
                    seen.add(a)
                    out.append((a, b))
    return out


def live():
    """the live tables (also used by the harnesses)"""
    with contextlib.redirect_stdout(io.StringIO()):
        from pgradd.Units import builtin, db, qty
        from pgradd import Consts
    prim = list(qty.FundamentalUnits._primitive_units)
    R = Consts.GAS_CONSTANT
    return {
        'prefixes': [(str(k), float(v)) for k, v in db.UnitsDB.prefixes.items()],
        'base': [(str(a), float(b), str(c)) for a, b, c in builtin.base_SI_units],
        'derived': [(str(a), str(b)) for a, b in builtin.derived_SI_units],
        'other': [(str(a), str(b)) for a, b in _other_definitions(builtin)],
        'primitive': prim,
        'threshold': float(qty.FundamentalUnits.THRESHOLD_INTEGER),
        'db_names': [str(k) for k in db.units_db.db.keys()],
        'R_value': float(R.value),
        'R_exps': [(prim[i], float(R.units.exps[i])) for i in range(len(prim))],
    }


@gen('Units')
def gen_units():
    t = live()
    o = io.StringIO()
    o.write(HEADER)
    o.write('import PGA.Model.UnitsDec\nnamespace PGA.Gen.Units\nopen PGA.Units (Dec)\n\n')
    o.write('/-- `UnitsDB.prefixes` (pgradd/Units/db.py), in dictionary order -/\n')
    o.write('def prefixes : List (List Char × Dec) := [\n')
    o.write(',\n'.join('  (%s, %s)' % (chars(k), lean_dec(v)) for k, v in t['prefixes']))
    o.write(']\n\n')
    o.write('/-- `builtin.base_SI_units`: (name, multiple, primitive name) -/\n')
    o.write('def baseUnits : List (List Char × Dec × List Char) := [\n')
    o.write(',\n'.join('  (%s, %s, %s)' % (chars(a), lean_dec(b), chars(c)) for a, b, c in t['base']))
    o.write(']\n\n')
    for nm, key, doc in [('derivedUnits', 'derived', 'builtin.derived_SI_units'), ('otherUnits', 'other', 'builtin.other_units')]:
        o.write('/-- `%s`: (name, definitional string) -/\n' % doc)
        o.write('def %s : List (List Char × List Char) := [\n' % nm)
        o.write(',\n'.join('  (%s, %s)' % (chars(a), chars(b)) for a, b in t[key]))
        o.write(']\n\n')
    o.write('/-- `FundamentalUnits._primitive_units` -/\n')
    o.write('def primitiveUnits : List (List Char) := [%s]\n\n' % ', '.join(chars(p) for p in t['primitive']))
    o.write('/-- `FundamentalUnits.THRESHOLD_INTEGER` -/\n')
    o.write('def thresholdInteger : Dec := %s\n\n' % lean_dec(t['threshold']))
    o.write('/-- keys of the live `units_db.db` after import, in insertion order -/\n')
    o.write('def dbNames : List (List Char) := [\n')
    o.write(',\n'.join('  %s' % chars(k) for k in t['db_names']))
    o.write(']\n\n')
    o.write('/-- `Consts.GAS_CONSTANT`: SI value and exponent per primitive unit name -/\n')
    o.write('def gasConstantValue : Dec := %s\n' % lean_dec(t['R_value']))
    o.write('def gasConstantExps : List (List Char × Dec) := [%s]\n\n' %
            ', '.join('(%s, %s)' % (chars(n), lean_dec(v)) for n, v in t['R_exps']))
    o.write('end PGA.Gen.Units\n')
    return o.getvalue()
