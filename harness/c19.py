"""C19 — group identity is the centre plus the multiset of peripherals.

Proof: lean/PGA/Props/C19.lean (model PGA/Model/GroupName.lean of pgradd/GroupAdd/Group.py).
Tie: correspondence of Group(...).name / Group.parse(...) against the model driver;
property oracle: implementation vs the multiset specification, directly.
"""
import itertools, collections, json
from . import common

PROPS = ['PGA.Props.C19']
GEN = ['Chars']
OBLIGATIONS = ['PGA.GroupName.' + t for t in [
    'C19_tab_limit_pos', 'C19_tab_ascii_digits', 'C19_parse_canon', 'C19_canon_eq_iff',
    'C19_spelling_independent', 'C19_parse_spell', 'C19_eq_is_name_eq', 'C19_eq_str',
    'C19_count_without_name', 'C19_index_same_entry', 'C19_index_by_string', 'C19_eq_equivalence']]
RULE = ('cases = (centre, multiset of peripherals) pairs: bounded-exhaustive multisets over a 7-name alphabet '
        '(all orderings, all run-length spellings), random larger multisets over a 16-name alphabet incl. bracketed, '
        'multi-letter, digit-bearing and non-ASCII names, every group name of every shipped library, and malformed '
        'texts (mutations with stray parentheses, counts without names, Unicode digits). A case is non-trivial when the '
        'multiset has >= 2 peripherals or the text is malformed; distinct = distinct (centre, sorted peripherals) or text.')
ASSUMPTIONS = ['CPython str ordering is code-point lexicographic; str.isdigit/int() as dumped by the translator',
               'counts < 10^4300 (interpreter int/str digit limit), stated as a hypothesis of the theorems']
TRUSTED = ['modelled, not verified: Group.parse, Group._canonical_name, Descriptor.__eq__/__hash__ (pgradd/GroupAdd/Group.py)']

ALPHA_SMALL = ['C', 'H', 'C[d]', 'CO', 'Pt', 'N[A]', 'C2']
ALPHA_BIG = ALPHA_SMALL + ['C[.]', 'O', 'C[B]', 'c', 'H2O', 'Ru', 'x1y', 'é', 'C[t]', '[', 'a b']
CENTRES = ['C', 'O', 'C[d]', 'CO', 'Pt', '', 'N[A]']


def impl_group(csg, psgs):
    from pgradd.GroupAdd.Group import Group
    return Group(None, csg, list(psgs))


def impl_parse(text):
    from pgradd.GroupAdd.Group import Group
    from pgradd.Error import GroupSyntaxError
    try:
        g = Group.parse(None, text)
        return {'ok': {'csg': g.csg, 'psgs': list(g.psgs), 'name': g.name}}
    except GroupSyntaxError:
        return {'err': 'syntax'}
    except ValueError:
        return {'err': 'value'}
    except Exception as e:  # any other escape is an internal error
        return {'err': 'internal:' + type(e).__name__}


def spellings(rng, csg, psgs, k, zero_runs=True):
    """k random well-formed spellings of the group: random order, random split into runs, counts optional, counts with
    leading zeros, and runs written with the repeat count 0 (of names inside and outside the multiset: `Spec.Run.cnt = some 0`
    denotes no occurrence) at any position."""
    out = []
    for _ in range(k):
        ps = list(psgs)
        rng.shuffle(ps)
        text = csg

        def zero_run():
            pool = [p for p in ps + ALPHA_SMALL if p and '(' not in p and ')' not in p and not p.isdigit()]
            return '(%s)%s' % (rng.choice(pool), rng.choice(['0', '0', '00', '٠']))
        i = 0
        while i < len(ps):
            if zero_runs and rng.random() < 0.12:
                text += zero_run()
            j = i
            while j < len(ps) and ps[j] == ps[i]:
                j += 1
            run = rng.randint(1, j - i)
            style = rng.random()
            if run == 1 and style < 0.7:
                text += '(%s)' % ps[i]
            elif style < 0.85:
                text += '(%s)%d' % (ps[i], run)
            elif style < 0.92:
                text += '(%s)%s%d' % (ps[i], rng.choice(['0', '00']), run)      # leading zeros
            else:
                text += '(%s)%s' % (ps[i], ''.join(chr(0x660 + int(d)) for d in str(run)))  # Arabic-Indic decimals
            i += run
        if zero_runs and rng.random() < 0.12:
            text += zero_run()
        out.append(text)
    return out


class _ReIterable(object):
    """an iterable that is not a sequence: only __iter__, may be walked any number of times"""
    def __init__(self, items):
        self._items = list(items)

    def __iter__(self):
        return iter(list(self._items))


class _OneShot(object):
    """an iterator object: __iter__ returns itself, exhausted after one walk"""
    def __init__(self, items):
        self._items = list(items)
        self._i = 0

    def __iter__(self):
        return self

    def __next__(self):
        if self._i >= len(self._items):
            raise StopIteration
        self._i += 1
        return self._items[self._i - 1]


class _OldSequence(object):
    """iterable through the old sequence protocol only (__getitem__ until IndexError), no __len__, no __iter__"""
    def __init__(self, items):
        self._items = list(items)

    def __getitem__(self, i):
        return self._items[i]


def iterable_forms(psgs):
    """[(description, zero-argument factory)] — every kind of `iterable of strs` the constructor's documentation allows, each
    holding the peripherals `psgs` (in some order). One-shot iterators come first in the list on purpose."""
    import numpy as np
    ps = list(psgs)
    forms = [
        ('generator expression', lambda: (p for p in ps)),
        ('iter(list)', lambda: iter(list(ps))),
        ('reversed(list)', lambda: reversed(list(ps))),
        ('map(str, list)', lambda: map(str, ps)),
        ('filter(accept all, list)', lambda: filter(lambda p: True, ps)),
        ('itertools.chain(two halves)', lambda: itertools.chain(ps[:len(ps) // 2], ps[len(ps) // 2:])),
        ('collections.Counter(list).elements()', lambda: collections.Counter(ps).elements()),
        ('iterator object (__iter__ returns self)', lambda: _OneShot(ps)),
        ('zip-unpacked generator', lambda: (p for p, _ in zip(ps, itertools.count()))),
        ('tuple', lambda: tuple(ps)),
        ('list', lambda: list(ps)),
        ('collections.deque', lambda: collections.deque(ps)),
        ('re-iterable object (only __iter__)', lambda: _ReIterable(ps)),
        ('old-style sequence (only __getitem__)', lambda: _OldSequence(ps)),
        ('numpy object array', lambda: np.array(ps, dtype=object)),
        ('numpy str array', lambda: np.array(ps) if ps else np.array([], dtype=str)),
        ('dict values view', lambda: dict(enumerate(ps)).values()),
    ]
    if len(set(ps)) == len(ps):
        forms += [('set', lambda: set(ps)), ('frozenset', lambda: frozenset(ps)), ('dict (its keys)', lambda: dict.fromkeys(ps, 0)),
                  ('dict keys view', lambda: dict.fromkeys(ps, 0).keys())]
    if ps and all(len(p) == 1 for p in ps):
        forms.append(('str of one-character names', lambda: ''.join(ps)))
    return forms


def check_iterables(ctx, csg, psgs, g, inp):
    """the constructor is documented to take any iterable of strs: the group built from the same peripherals handed over in
    any other form of iterable is the same group (name, ==, hash, string interop, dict entry), and a list handed over is left
    as it was"""
    from pgradd.GroupAdd.Group import Group
    name = g.name
    for what, make in iterable_forms(psgs):
        ctx.count('iterable_forms')
        arg = make()
        keep = list(arg) if isinstance(arg, (list, tuple, collections.deque)) else None
        try:
            h = Group(None, csg, arg)
            got = h.name
            same = (h == g and g == h and hash(h) == hash(g) and {g: 1}.get(h) == 1 and h == name and name == h
                    and {name: 1}.get(h) == 1 and str(h) == name and type(got) is str)
        except Exception as e:  # noqa
            got, same = 'raises ' + type(e).__name__, False
        if not same:
            ctx.violation('the group built from the same peripherals given as another kind of iterable is a different group',
                          dict(inp, given_as=what), expected=name, observed=got)
            return False
        if keep is not None and list(arg) != keep:
            ctx.violation('constructing a group changes the sequence of peripherals it was given', dict(inp, given_as=what),
                          expected=keep, observed=list(arg))
            return False
    return True


def spec_same(a, b):
    """the specification: same centre and same multiset of peripherals"""
    return a[0] == b[0] and collections.Counter(a[1]) == collections.Counter(b[1])


def wf(csg, psgs):
    def okname(n):
        return '(' not in n and ')' not in n
    return okname(csg) and all(okname(p) and p and not p.isdigit() for p in psgs)


def check_group(ctx, csg, psgs, batch):
    """Property oracle on the implementation + queue model requests for the tie."""
    rng = ctx.rng
    psgs = list(psgs)
    key = json.dumps([csg, sorted(psgs)])
    g = impl_group(csg, psgs)
    name = g.name
    nontrivial = len(psgs) >= 2
    ctx.case(key if nontrivial else None, {'centre': csg, 'peripherals': psgs, 'name': name})
    ctx.count('groups')
    ctx.count('size_%d' % min(len(psgs), 9))
    inp = {'csg': csg, 'psgs': psgs}
    # (a) order independence: equality, hash, dict lookup, string interop
    for _ in range(3):
        q = list(psgs)
        rng.shuffle(q)
        h = impl_group(csg, q)
        if not (g == h and hash(g) == hash(h) and h.name == name and {g: 1}.get(h) == 1):
            ctx.violation('equal multisets in a different order are not the same group', dict(inp, other=q),
                          expected='equal, same hash, same dict entry', observed=[name, h.name])
    interop = (g == name and name == g and not (g != name) and not (name != g) and {name: 1}.get(g) == 1
               and {g: 1}.get(name) == 1 and hash(g) == hash(name) and g in [name] and name in [g] and g in {name}
               and [x for x in [name] if x != g] == [] and not (g != impl_group(csg, list(reversed(psgs)))))
    if not interop:
        ctx.violation('group is not interchangeable with its canonical name as a string', inp,
                      expected='g == name and dict interop', observed=name)
    # (a') the same peripherals handed over as any other kind of iterable
    check_iterables(ctx, csg, psgs, g, inp)
    if wf(csg, psgs):
        # (b) canonical name parses back to the same group
        r = impl_parse(name)
        if 'ok' not in r or not spec_same((r['ok']['csg'], r['ok']['psgs']), (csg, psgs)) or r['ok']['name'] != name:
            ctx.violation('canonical name does not parse back to the same group', inp,
                          expected={'csg': csg, 'psgs(multiset)': sorted(psgs)}, observed=r)
        # (c) every spelling parses to the same group
        for text in spellings(rng, csg, psgs, 3):
            ctx.count('spellings')
            r = impl_parse(text)
            if 'ok' not in r or r['ok']['name'] != name or not spec_same((r['ok']['csg'], r['ok']['psgs']), (csg, psgs)):
                ctx.violation('a spelling of the group parses to a different group', dict(inp, text=text),
                              expected=name, observed=r)
            batch.append(({'op': 'c19.parse', 'text': text}, r, {'text': text}))
    batch.append(({'op': 'c19.canon', 'csg': csg, 'psgs': psgs}, {'name': name}, inp))
    return name


def check_distinct(ctx, groups, extra_pairs=()):
    """injectivity: different (centre, multiset) => different names, unequal, different dict entries"""
    byname = {}
    for csg, psgs in groups:
        if not wf(csg, psgs):
            continue
        nm = impl_group(csg, psgs).name
        k = (csg, tuple(sorted(psgs)))
        if nm in byname and byname[nm] != k:
            ctx.violation('two different groups share a canonical name', {'a': byname[nm], 'b': k},
                          expected='different names', observed=nm)
        byname[nm] = k
    ctx.count('distinct_names', len(byname))
    # equality of group OBJECTS: equal exactly when centre and multiset are; tried on near misses (one peripheral dropped,
    # one doubled, same set with other multiplicities, another centre) and on random pairs
    rng = ctx.rng
    keys = [(c, tuple(sorted(p))) for c, p in groups if wf(c, p)]
    pairs = list(extra_pairs)
    for c, p in keys[:ctx.n(400, 4000)]:
        near = []
        if p:
            near += [(c, p[:-1]), (c, p[1:]), (c, p + (p[0],)), (c, tuple(sorted(set(p)))), (c, tuple(sorted(set(p))) + (p[-1],) * 2)]
        near += [(c + 'x', p), (c, p)]
        pairs += [((c, p), (c2, tuple(sorted(p2)))) for c2, p2 in near if wf(c2, list(p2))]
    pairs += [(rng.choice(keys), rng.choice(keys)) for _ in range(ctx.n(500, 5000))] if keys else []
    for k1, k2 in pairs:
        a, b = impl_group(k1[0], list(k1[1])), impl_group(k2[0], list(reversed(k2[1])))
        same = k1 == k2
        ctx.count('object_equalities')
        got = (a == b, b == a, not (a != b), a in [b], (b in {a: 1}))
        if any(x != same for x in got):
            ctx.violation('two group objects compare %s although their centre and multiset of peripherals are %s'
                          % ('equal' if not same else 'unequal', 'the same' if same else 'different'),
                          {'a': [k1[0], list(k1[1])], 'b': [k2[0], list(k2[1])]}, same, list(got))
            break


def malformed_texts(ctx, n):
    rng = ctx.rng
    pieces = ['(', ')', '3', '12', 'C', 'H', 'C[d]', '²', '٣', '0', '', ' ', '()', ')(', 'x']
    out = ['C(3)', 'C(H)(²)', '(3)', 'C((H))', 'C()', '', ')', '(', '3', 'C(H))2(', 'C(H)0', 'C(H)1', 'C(H)(H)2',
           'C(H)2(H)', 'C(12)(H)', 'C(H)3(4)']
    for _ in range(n):
        out.append(''.join(rng.choice(pieces) for _ in range(rng.randint(1, 7))))
    # a repeat count makes the implementation append that many entries: keep every digit run short
    import re
    return [t for t in out if all(len(m) <= 3 for m in re.findall(r'\d+', t))]


def library_names():
    """every group name of every shipped library, with its parsed spelling (from the live objects)"""
    import os, yaml
    import pgradd
    root = os.path.join(os.path.dirname(pgradd.__file__), 'data')
    names = set()
    for dp, _, files in os.walk(root):
        for f in files:
            if f.endswith('.yaml') and f != 'scheme.yaml' and f != 'uq.yaml':
                try:
                    doc = yaml.safe_load(open(os.path.join(dp, f)))
                except Exception:
                    continue
                if isinstance(doc, dict) and isinstance(doc.get('groups'), dict):
                    names.update(str(k) for k in doc['groups'])
    return sorted(names)


def run(ctx):
    rng = ctx.rng
    batch = []
    groups = []
    # corpus first
    for fname, rec in common.load_corpus('C19'):
        ctx.count('corpus')
        replay(ctx, rec, record=True)
    # bounded exhaustive
    maxk = ctx.n(3, 4)
    for csg in CENTRES[:3]:
        for k in range(0, maxk + 1):
            for ms in itertools.combinations_with_replacement(ALPHA_SMALL, k):
                if ctx.thorough() or k <= 2:
                    perms = set(itertools.permutations(ms))
                else:
                    perms = {ms}
                for p in sorted(perms)[:24]:
                    check_group(ctx, csg, p, batch)
                groups.append((csg, ms))
    # random larger
    for _ in range(ctx.n(1500, 40000)):
        csg = rng.choice(CENTRES)
        k = rng.choice([1, 2, 3, 4, 5, 6, 6, 8, 12, 25])
        base = rng.sample(ALPHA_BIG, rng.randint(1, min(5, len(ALPHA_BIG))))
        ps = [rng.choice(base) for _ in range(k)]
        check_group(ctx, csg, ps, batch)
        groups.append((csg, tuple(ps)))
    check_distinct(ctx, groups)
    # shipped names: parse, re-canonicalise, look up in a real library
    names = library_names()
    ctx.count('shipped_names', len(names))
    for nm in names:
        r = impl_parse(nm)
        batch.append(({'op': 'c19.parse', 'text': nm}, r, {'text': nm}))
        if 'ok' in r:
            check_group(ctx, r['ok']['csg'], r['ok']['psgs'], batch)
    lookup_check(ctx)
    synthetic_library_check(ctx)
    # malformed
    for t in malformed_texts(ctx, ctx.n(600, 20000)):
        r = impl_parse(t)
        ctx.case('text:' + t, None)
        ctx.count('malformed_' + ('ok' if 'ok' in r else r['err']))
        if r.get('err', '').startswith('internal') :
            ctx.violation('Group.parse escapes with an unrelated exception', {'text': t}, 'group or GroupSyntaxError', r)
        batch.append(({'op': 'c19.parse', 'text': t}, r, {'text': t}))
    # the tie
    replies = ctx.model([b[0] for b in batch])
    if replies is not None:
        for (req, impl, inp), rep in zip(batch, replies):
            ctx.count('corr_' + req['op'])
            if rep != impl:
                ctx.disagree('corr:' + req['op'], inp, impl, rep)


def library_files():
    """{library name: group names written under `groups:` in library.yaml and the files it (transitively) includes}"""
    import os, yaml
    import pgradd
    root = os.path.join(os.path.dirname(pgradd.__file__), 'data')
    out = {}

    def walk(path, base, names, seen):
        if path in seen or not os.path.isfile(path):
            return
        seen.add(path)
        doc = yaml.safe_load(open(path))
        if not isinstance(doc, dict):
            return
        if isinstance(doc.get('groups'), dict):
            names += [str(k) for k in doc['groups']]
        for inc in doc.get('include') or []:
            walk(os.path.join(base, inc), base, names, seen)
    for lib in sorted(os.listdir(root)):
        names = []
        walk(os.path.join(root, lib, 'library.yaml'), os.path.join(root, lib), names, set())
        out[lib] = names
    return out


def lookup_check(ctx):
    """every entry a library file writes under `groups:` is indexed by the group its name denotes: reachable through
    Group.parse of the written name, through any other spelling, through Group(...) in any order and through the canonical string"""
    import warnings
    warnings.filterwarnings('ignore')
    import pgradd.ThermoChem  # noqa
    from pgradd.GroupAdd.Library import GroupLibrary
    from pgradd.GroupAdd.Group import Group
    files = library_files()
    for libname in sorted(files):
        try:
            lib = GroupLibrary.Load(libname)
        except Exception as e:
            raise common.MachineryError('cannot load %s: %r' % (libname, e))
        names = list(dict.fromkeys(files[libname]))
        ctx.rng.shuffle(names)
        for nm in names[:ctx.n(40, 400)]:
            r = impl_parse(nm)
            if 'ok' not in r:
                continue
            csg, psgs = r['ok']['csg'], r['ok']['psgs']
            ps = list(psgs)
            ctx.rng.shuffle(ps)
            try:
                by_parse = lib[Group.parse(lib.scheme, nm)]
                by_ctor = lib[Group(lib.scheme, csg, iter(ps))]   # a one-shot iterable, as the documentation allows
                by_spelling = lib[Group.parse(lib.scheme, spellings(ctx.rng, csg, psgs, 1)[0])] if wf(csg, psgs) else by_parse
                by_string = lib[r['ok']['name']]
            except Exception as e:  # noqa
                ctx.violation('looking a group up in a library raises', {'library': libname, 'written': nm, 'csg': csg, 'psgs': ps},
                              'the entry', type(e).__name__)
                break
            ctx.case(None)
            ctx.count('library_lookups')
            if not (by_parse and by_ctor is by_parse and by_spelling is by_parse and by_string is by_parse):
                ctx.violation('a library entry is not indexed by the group its written name denotes',
                              {'library': libname, 'written': nm, 'csg': csg, 'psgs': ps},
                              'same non-empty entry via parse / constructor / other spelling / canonical string',
                              {'parse': bool(by_parse), 'ctor': by_ctor is by_parse, 'spelling': by_spelling is by_parse,
                               'string': by_string is by_parse})


def synthetic_library_check(ctx):
    """a library file whose entries are written in arbitrary (non-canonical) spellings — incl. bracketed, multi-letter and
    digit-bearing peripheral names — must index each entry by the group it denotes"""
    import os, shutil, warnings
    warnings.filterwarnings('ignore')
    import pgradd
    import pgradd.ThermoChem  # noqa
    from pgradd.GroupAdd.Library import GroupLibrary
    from pgradd.GroupAdd.Group import Group
    rng = ctx.rng
    d = os.path.join(ctx.scratch, 'synthlib')
    os.makedirs(d, exist_ok=True)
    root = os.path.join(os.path.dirname(pgradd.__file__), 'data')
    shutil.copy(os.path.join(root, 'XieGA2022', 'scheme.yaml'), os.path.join(d, 'scheme.yaml'))
    names = ['C', 'H', 'C[d]', 'C[B]', 'C[.]', 'N[A]', 'CO', 'Pt', 'C2', 'O']
    groups = {}
    for _ in range(ctx.n(40, 300)):
        csg = rng.choice(['C', 'O', 'C[d]', 'C[B]', 'CO', 'N[A]'])
        ps = [rng.choice(rng.sample(names, 3)) for _ in range(rng.randint(1, 5))]
        groups[(csg, tuple(sorted(ps)))] = spellings(rng, csg, ps, 1)[0]
    groups = {k: v for k, v in groups.items() if all(ord(c) < 128 for c in v)}
    with open(os.path.join(d, 'library.yaml'), 'w') as f:
        f.write('groups:\n')
        for i, ((csg, ps), text) in enumerate(groups.items()):
            f.write("    '%s':\n        'thermochem':\n            T_ref: 298.15 K\n            H_ref: %d.5 kcal/mol\n" % (text, i))
    lib = GroupLibrary.Load(os.path.join(d, 'library.yaml'))
    for i, ((csg, ps), text) in enumerate(groups.items()):
        q = list(ps)
        rng.shuffle(q)
        ctx.case(('synthlib', text), None)
        ctx.count('synthetic_library_entries')
        try:
            entries = [lib[Group(lib.scheme, csg, (p for p in q))], lib[Group.parse(lib.scheme, text)],
                       lib[impl_group(csg, ps).name], lib[Group.parse(lib.scheme, spellings(rng, csg, ps, 1)[0])]]
        except Exception as e:  # noqa
            ctx.violation('looking a group up in a library raises', {'written': text, 'csg': csg, 'psgs': list(ps)}, 'the entry',
                          type(e).__name__)
            break
        if not all(e and e is entries[0] for e in entries):
            ctx.violation('a library entry written in a non-canonical spelling is not indexed by the group it denotes',
                          {'written': text, 'csg': csg, 'psgs': list(ps)}, 'found via constructor / parse / canonical string / other spelling',
                          [bool(e) for e in entries])
    # groups merged in AFTER the library was already looked up by name: a group and its name still index the same entry
    d2 = os.path.join(ctx.scratch, 'synthlib2')
    os.makedirs(d2, exist_ok=True)
    shutil.copy(os.path.join(d, 'scheme.yaml'), os.path.join(d2, 'scheme.yaml'))
    later = [('C[t]', ('C', 'H')), ('C[t]', ('C[t]', 'C', 'C')), ('S', ('C', 'C', 'O'))]
    with open(os.path.join(d2, 'library.yaml'), 'w') as f:
        f.write('groups:\n')
        for i, (csg, ps) in enumerate(later):
            f.write("    '%s':\n        'thermochem':\n            T_ref: 298.15 K\n            H_ref: %d.25 kcal/mol\n"
                    % (spellings(rng, csg, list(ps), 1)[0], 100 + i))
    lib.Update(GroupLibrary.Load(os.path.join(d2, 'library.yaml')))
    for csg, ps in later:
        ctx.count('synthetic_library_entries_after_update')
        g = impl_group(csg, list(ps))
        entries = [lib[Group(lib.scheme, csg, list(reversed(ps)))], lib[g.name], lib[Group.parse(lib.scheme, g.name)]]
        if not all(e and e is entries[0] for e in entries) or (g in lib) != (g.name in lib):
            ctx.violation('a group merged into a library that was already looked up by name is not indexed by its name',
                          {'csg': csg, 'psgs': list(ps), 'history': 'lookups by name, Update(other library), lookup'},
                          'found via constructor / canonical string / parse', [bool(e) for e in entries])


def replay(ctx, rec, record=False):
    """re-run a recorded input on the implementation against the specification"""
    inp = rec.get('input', rec)
    before = len(ctx.violations)
    batch = []
    if 'text' in inp and 'csg' not in inp:
        r = impl_parse(inp['text'])
        if r.get('err', '').startswith('internal'):
            ctx.violation('Group.parse escapes with an unrelated exception', inp, 'group or GroupSyntaxError', r)
    elif 'a' in inp and 'b' in inp:
        ka, kb = (inp['a'][0], tuple(sorted(inp['a'][1]))), (inp['b'][0], tuple(sorted(inp['b'][1])))
        check_distinct(ctx, [ka, kb], extra_pairs=[(ka, kb)])
    else:
        if 'text' in inp:   # a recorded spelling of the group: that very text must parse to it
            name = impl_group(inp['csg'], inp['psgs']).name
            r = impl_parse(inp['text'])
            if 'ok' not in r or r['ok']['name'] != name or not spec_same((r['ok']['csg'], r['ok']['psgs']), (inp['csg'], inp['psgs'])):
                ctx.violation('a spelling of the group parses to a different group', inp, expected=name, observed=r)
        check_group(ctx, inp['csg'], inp['psgs'], batch)
    return len(ctx.violations) == before

LEVEL_TEXT = ('Lean 4 theorems, for every centre name and every list of peripheral names of any length: the canonical name is '
              'injective up to permutation, parses back to the same group, and every well-formed spelling (any order, any '
              'run-length split, counts written or not) parses to the group it denotes; the model is tied to Group.py by a '
              'correspondence run (names, parse results incl. error class) and by kernel-checked obligations over the regenerated '
              'CPython digit tables. Right level: the quantifier is over all names/multisets/spellings, which only a proof covers.')
LEVEL_NOTE = ('Trusted: Lean kernel; axioms propext/Classical.choice/Quot.sound; the translator of CPython character tables; the '
              'correspondence harness; that str ordering is code-point lexicographic. Modelled not verified: Group.parse, '
              '_canonical_name, __eq__/__hash__. Theorems assume names without parentheses, peripherals non-empty and not digit strings, '
              'counts below the interpreter digit limit.')
TECHNIQUE = 'Lean 4 proof over hand-written model + correspondence check + table translator'
