"""C02 — descriptors equal the scheme file's declared decomposition.

Proof: lean/PGA/Props/C02.lean about the model PGA/Model/Scheme.lean (the decomposition logic of Scheme.py above the
matcher) — `getDescriptors` equals the declarative reading of the scheme for every molecule size and every match list;
remaps of chain-free tables are the linear substitution, independent of key order — and lean/PGA/Props/C02Full.lean about
the end-to-end model PGA/Model/Decompose.lean (`decompose` = Benson perception, reader, matcher of C08, decomposition):
with C08's matcher theorem plugged in, `decompose S m` equals the declared decomposition in which every pattern's matches
are exactly its embeddings.
Ties: GroupLibrary.GetDescriptors(smiles) vs (a) the model above the matcher fed with the implementation's match lists and
(b) the end-to-end model fed with the raw graph (normalised independently of the repo's code, not aromatised), the parse
trees of the scheme's pattern texts and the remap table; per-atom names and the aromatised graph compared through the
guarded hook.  Oracles: implementation vs the declarative interpretation written from the property text, with the
implementation's matcher and — independently of it — with every pattern read as the set of its embeddings (lib_embeds).
"""
import json, collections
from fractions import Fraction
from . import common, lib_scheme as S, lib_molgen as G

PROPS = ['PGA.Props.C02', 'PGA.Props.C02Full']
GEN = ['Chars', 'MolQuery']
OBLIGATIONS = ['PGA.Scheme.' + t for t in [
    'C02_assignCentres_ok_iff', 'C02_assignCentres_names', 'C02_assignCentres_error_iff',
    'C02_countGroups_declared', 'C02_distinctSets_card', 'C02_countDescs_declared',
    'C02_remap_linear', 'C02_remap_order_independent', 'C02_getDescriptors_error_iff', 'C02_getDescriptors_value']] + [
    'PGA.C02.' + t for t in ['C02_load_wf', 'C02_driver_computes_decompose', 'C02_toInput_declares', 'C02_decompose_declared',
                             'C02_decompose_error_iff']]
RULE = ('cases = (scheme, molecule): the nine shipped schemes and synthetic schemes derived from them (patterns dropped or '
        'duplicated, random chain-free remap tables with fractional coefficients) x fixed pools + grown molecules '
        '(gas C/H/O/N chains, branches, rings 3-9, fused/spiro/bridged, alkenes, alkynes, allenes, carbonyls, alternating C6 rings, '
        'radicals; adsorbates with 1-4 Pt bonds; out-of-vocabulary atoms for the failure clause). distinct = distinct '
        '(scheme, canonical SMILES); non-trivial = more than 2 heavy atoms or a failure case.')
ASSUMPTIONS = ['A-graph: RDKit explicit-H Kekule graph of the input (after the sanitisation steps the code requests, AddHs, Kekulize, '
               'UNSPECIFIED->ZERO, GetSymmSSSR) is the molecule; SSSR ring order as RDKit reports it; re-checked per molecule '
               '(ring information stable and consistent, AtomRings = GetSymmSSSR, neighbour order = bond order, Mol.wf, rings are bonded cycles)',
               'A-cand (C08): RDKit\'s candidate enumeration = the model\'s own; the cap of 10 000 candidates was inactive on every compared case (measured, reported)',
               'the parse trees are those of the implementation\'s parser (C09); scheme entries, order, names, remaps from the live scheme objects; '
               'pattern texts captured by wrapping the name `Read` the Scheme module calls during GroupLibrary.Load',
               'smiles/smarts-based descriptors are not modelled (no shipped scheme uses them; checked each run)']
TRUSTED = ['modelled, not verified: GroupAdditivityScheme.Load (reading of the pattern texts), _aromatization_Benson, GetQueryMatches (C08 model), '
           '_AssignCenterPattern, _AssignGroup, _AssignDescriptor, remaps, final dict merge (Scheme.py:110-407)',
           'harness/lib_scheme.prepare re-implements the input normalisation (and, for the embedding oracle only, the Benson C6 perception) '
           'independently in Python; harness/lib_embeds.py + lib_scheme.frag_of_ast are the embedding oracle']


def kind_of(name):
    return 'gas' if name in ('BensonGA', 'PPY') else 'surface'


def molecules(ctx, kind, n):
    rng = ctx.rng
    out = list(G.FIXED_GAS if kind == 'gas' else G.FIXED_SURFACE + G.FIXED_GAS[:12])
    if ctx.thorough() and kind == 'gas':
        out.append('C' * 100)       # 2 400 candidates of the sp3-carbon pattern (302 atoms): a candidate cap below that shows
    # covering set (every reachable centre pattern, correction descriptor and remap row of the shipped schemes): all of it in
    # the thorough tier, a third chosen by the seed in the quick tier
    from .lib_molcover import COVER_GAS, COVER_SURFACE
    cover = COVER_GAS if kind == 'gas' else COVER_SURFACE
    out.extend(cover if ctx.thorough() else cover[ctx.seed % 3::3])
    for _ in range(n):
        out.append(G.gen_smiles(rng, kind, rng.choice([3, 5, 8, 12] + ([18, 24] if ctx.thorough() else []))))
    for _ in range(max(2, n // 12)):
        out.append(G.gen_smiles(rng, kind, 5, oov=True))
    return out


def matching_pattern(sch, mols):
    """index of a centre pattern that matches an atom of one of the molecules (chosen with the package's own matcher; only
    used to build a scheme in which the two-patterns-on-one-atom failure is due)"""
    from rdkit import Chem
    for smi in mols[:6]:
        m = S.prepare(smi)
        if m is None:
            continue
        for i, pat in enumerate(sch.patterns):
            try:
                if pat['connectivity'].GetQueryMatches(Chem.Mol(m)):
                    return i
            except Exception:
                continue
    return None


# same-named correction rows whose patterns match the SAME sets of atoms (a link written from either end, 'exactly three' next
# to 'three or more', a pattern next to its restriction): the scheme file declares one count PER ROW, summed under the name
TWIN_ROWS = [('Twin:XH', ['fragment a{heavy atom labeled x H labeled h single bond to x}',
                          'fragment b{H labeled h heavy atom labeled x single bond to h}']),
             ('Twin:CO', ['fragment a{C labeled c1 O labeled o1 single bond to c1}',
                          'fragment a{O labeled o1 C labeled c1 single bond to o1}']),
             ('Twin:CC', ['fragment a{C labeled c1 C labeled c2 any bond to c1}',
                          'fragment a{C labeled c2 C labeled c1 any bond to c2}',
                          'fragment a{C labeled c1 C labeled c2 single bond to c1}']),
             ('Twin:branch', ['fragment a{C labeled c1 {connected to =3 C}}', 'fragment a{C labeled c1 {connected to >=3 C}}']),
             ('Twin:CM', ['fragment a{C labeled c1 M labeled m any bond to c1}', 'fragment a{M labeled m C labeled c1 any bond to m}']),
             ('Twin:ring3', ['fragment a{$ labeled a $ labeled b any bond to a $ labeled c any bond to b ringbond c any bond to a}',
                             'fragment a{$ labeled a {in ring of size 3} $ labeled b any bond to a $ labeled c any bond to b ringbond a any bond to c}'])]


def twin_rows(ctx, lib, mols):
    """[[name, RING text], ...] to append to the scheme's correction descriptors: (a) rows named like a shipped correction
    descriptor that matches one of the sample molecules, with the shipped pattern written again - verbatim, with other
    labels, or from another end (`lib_ringgen_c08.reroot`); (b) one of the TWIN_ROWS families under a fresh name."""
    from rdkit import Chem
    from . import lib_ast, lib_ringgen_c08 as R
    import pgradd.GroupAdd.Scheme as M
    rng = ctx.rng
    rows = []
    live = []
    prepared = [m for m in (S.prepare(smi) for smi in mols[:8]) if m is not None]
    for d in lib.scheme.other_descriptors:
        try:
            if any(d['connectivity'].GetQueryMatches(Chem.Mol(m)) for m in prepared):
                live.append(d)
        except Exception:
            continue
    for d in rng.sample(live, min(len(live), 2)):
        text = S.text_of(d['connectivity'])
        frag = S.frag_of_ast(lib_ast.parse_to_json(text))
        how = rng.choice(['verbatim', 'relabel', 'reroot', 'reroot'])
        if how == 'relabel':
            text = R.render(R.relabel(frag, rng))
        elif how == 'reroot':
            labs = R.labels_of(frag)
            g = R.reroot(frag, rng.choice(labs[1:])) if len(labs) > 1 else None
            if g is not None:
                text = R.render(g)
        rows.append([str(d['name']), text])
    fams = []
    for name, texts in TWIN_ROWS:
        if name not in _TWINQ:
            _TWINQ[name] = M.Read(texts[-1])
        try:
            if any(_TWINQ[name].GetQueryMatches(Chem.Mol(m)) for m in prepared):
                fams.append((name, texts))
        except Exception:
            continue
    name, texts = rng.choice(fams or TWIN_ROWS[:1])
    rows += [[name, t] for t in texts]
    return rows


_TWINQ = {}


def twin_fails(lib, smi):
    impl = S.impl_descriptors(lib, smi)
    mol = S.prepare(smi)
    if mol is None:
        return False
    spec = S.declared(S.scheme_input(lib.scheme, mol))
    return ('err' in impl) != ('err' in spec) or ('ok' in impl and not S.same_counts(impl['ok'], spec['ok']))


def with_rows(lib, rows):
    """the scheme of `lib` with the correction rows [[name, RING text], ...] appended (read through the Scheme module's own
    `Read`, hence with their text on record for the model and the embedding oracle)"""
    import pgradd.GroupAdd.Scheme as M
    from pgradd.GroupAdd.Library import GroupLibrary
    sch = lib.scheme
    extra = [{'name': n, 'connectivity': M.Read(t)} for n, t in rows]
    s2 = M.GroupAdditivityScheme(patterns=list(sch.patterns), pretreatment_rules=[], remaps=dict(sch.remaps),
                                 other_descriptors=list(sch.other_descriptors) + extra, smiles_based_descriptors=[],
                                 smarts_based_descriptors=[], include=[])
    return GroupLibrary(s2, contents={}, uq_contents={})


def synthetic(ctx, lib, mols, mode=None):
    """a scheme derived from a shipped one: a pattern dropped / duplicated, or extra (multi-target, fractional, chain-free)
    remap rules on names that actually occur in the decompositions of the sample molecules; mode 'twin': same-named
    correction rows matching the same atom sets (returns the rows as a third value through `synthetic.rows`)"""
    from pgradd.GroupAdd.Scheme import GroupAdditivityScheme
    from pgradd.GroupAdd.Library import GroupLibrary
    rng = ctx.rng
    sch = lib.scheme
    if mode == 'twin':
        synthetic.rows = twin_rows(ctx, lib, mols)
        return with_rows(lib, synthetic.rows), mode
    pats = list(sch.patterns)
    mode = mode or rng.choice(['drop', 'dup', 'remap', 'remap', 'remap'])
    if mode == 'drop' and len(pats) > 3:
        del pats[rng.randrange(len(pats))]
    elif mode == 'dup':
        pats.insert(rng.randrange(len(pats)), dict(rng.choice(pats)))
    elif mode in ('dup-last', 'dup-first'):
        # a second entry matching an atom that already has its centre, as the very last / very first pattern: the
        # decomposition must fail wherever in the file the overlapping entry stands
        i = matching_pattern(sch, mols)
        if i is not None:
            twin = dict(pats[i], center_name='Twin')
            if mode == 'dup-last':
                pats.append(twin)
            else:
                pats.insert(0, twin)
    remaps = dict(sch.remaps)
    if mode == 'remap':
        seen = set()
        for smi in mols:
            r = S.impl_descriptors(lib, smi)
            if 'ok' in r:
                seen.update(r['ok'])
        all_targets = {t[1] for v in remaps.values() for t in v}
        # new keys: occurring names that are neither keys nor targets already (keeps the table chain-free)
        cands = sorted(n for n in seen if n not in remaps and n not in all_targets)
        new_targets = ['X1', 'X2'] + sorted(all_targets)[:3]
        for k in rng.sample(cands, min(len(cands), rng.randint(1, 4))):
            remaps[k] = [[rng.choice([1, 2, 0.5, 0.25, 0.696, -1]), rng.choice(new_targets)] for _ in range(rng.randint(1, 3))]
    s2 = GroupAdditivityScheme(patterns=pats, pretreatment_rules=[], remaps=remaps,
                               other_descriptors=list(sch.other_descriptors), smiles_based_descriptors=[],
                               smarts_based_descriptors=[], include=[])
    return GroupLibrary(s2, contents={}, uq_contents={}), mode


PROBES = [('Probe:aromatic-atom', 'fragment a{aromatic C labeled c1}'),
          ('Probe:nonaromatic-ring-atom', 'fragment a{nonaromatic C labeled c1 {in ring of size >2}}'),
          ('Probe:aromatic-bond', 'fragment a{C labeled c1 C labeled c2 aromatic bond to c1}'),
          ('Probe:ring-double-bond', 'fragment a{ringatom C labeled c1 ringatom C labeled c2 double bond to c1}'),
          ('Probe:zero-order-bond', 'fragment a{$ labeled c1 $ labeled c2 partial bond to c1}'),
          ('Probe:strong-bond', 'fragment a{C labeled c1 C labeled c2 strong bond to c1}'),
          ('Probe:any-bond-in-ring', 'fragment a{ringatom C labeled c1 ringatom C labeled c2 any bond to c1}')]


def probe_scheme(lib):
    """the shipped scheme plus correction descriptors that *observe* what the shipped patterns never read — the aromatic flag
    of an atom, the kind of every ring bond, weak bonds — so that a change to the perception or normalisation that no shipped
    pattern notices still changes a descriptor count (read through the Scheme module's own `Read`, hence recorded)"""
    import pgradd.GroupAdd.Scheme as M
    from pgradd.GroupAdd.Library import GroupLibrary
    sch = lib.scheme
    extra = [{'name': n, 'connectivity': M.Read(t)} for n, t in PROBES]
    s2 = M.GroupAdditivityScheme(patterns=list(sch.patterns), pretreatment_rules=[], remaps=dict(sch.remaps),
                                 other_descriptors=list(sch.other_descriptors) + extra, smiles_based_descriptors=[],
                                 smarts_based_descriptors=[], include=[])
    return GroupLibrary(s2, contents={}, uq_contents={})


def to_frac(d):
    return {k: Fraction(v).limit_denominator(10 ** 9) if isinstance(v, float) else Fraction(v) for k, v in d.items()}


def check_one(ctx, tag, lib, smi, batch, full=None, extra=None):
    impl = S.impl_descriptors(lib, smi)
    atoms = S.impl_atoms(lib) if 'ok' in impl else None
    hook = S.hook_graph(lib) if 'ok' in impl else None
    mol = S.prepare(smi)
    if mol is None:
        ctx.count('unparsable')
        return
    inp = S.scheme_input(lib.scheme, mol)
    spec = S.declared(inp)
    heavy = sum(1 for a in mol.GetAtoms() if a.GetAtomicNum() > 1)
    nontriv = heavy > 2 or 'err' in impl
    ctx.case((tag, smi) if nontriv else None, {'scheme': tag, 'smiles': smi, 'result': impl if 'err' in impl else dict(list(impl['ok'].items())[:6])})
    ctx.count('impl_' + ('ok' if 'ok' in impl else impl['err']))
    ctx.count('heavy_%02d' % min(heavy, 25))
    where = dict({'scheme': tag, 'smiles': smi}, **(extra or {}))
    if impl.get('err', '').startswith('internal'):
        ctx.violation('decomposition escapes with an unrelated exception', where, 'descriptors or PatternMatchError', impl)
    elif ('err' in impl) != ('err' in spec):
        ctx.violation('failure clause: the implementation and the declared decomposition disagree on whether every atom is matched by exactly one centre pattern',
                      where, spec if 'err' in spec else 'descriptors', impl if 'err' in impl else 'descriptors')
    elif 'ok' in impl and not S.same_counts(impl['ok'], spec['ok']):
        diff = {k: (impl['ok'].get(k), float(spec['ok'].get(k, 0))) for k in set(impl['ok']) | set(spec['ok'])
                if abs(float(impl['ok'].get(k, 0)) - float(spec['ok'].get(k, 0))) > 1e-9}
        ctx.violation('descriptors differ from the scheme file\'s declared decomposition', where,
                      {k: v[1] for k, v in diff.items()}, {k: v[0] for k, v in diff.items()})
    # second oracle: every pattern read as the set of embeddings its text denotes (neither the implementation's reader nor its
    # matcher nor RDKit's enumeration): what Lean proves `decompose` to be (C02_decompose_declared)
    spec2 = S.declared_full(lib.scheme, smi)
    if spec2 is not None and not impl.get('err', '').startswith('internal'):
        ctx.count('oracle_embeddings')
        if ('err' in impl) != ('err' in spec2):
            ctx.violation('failure clause: the implementation and the declared decomposition (patterns as sets of embeddings) disagree on '
                          'whether every atom is matched by exactly one centre pattern', where,
                          spec2 if 'err' in spec2 else 'descriptors', impl if 'err' in impl else 'descriptors')
        elif 'ok' in impl and not S.same_counts(impl['ok'], spec2['ok']):
            diff = {k: (impl['ok'].get(k), float(spec2['ok'].get(k, 0))) for k in set(impl['ok']) | set(spec2['ok'])
                    if abs(float(impl['ok'].get(k, 0)) - float(spec2['ok'].get(k, 0))) > 1e-9}
            ctx.violation('descriptors differ from the scheme file\'s declared decomposition (patterns as sets of embeddings)', where,
                          {k: v[1] for k, v in diff.items()}, {k: v[0] for k, v in diff.items()})
    if full is not None and not impl.get('err', '').startswith('internal'):
        full.add(lib, smi, impl, where, atoms, hook)
    batch.append((inp, impl, where))
    if atoms is not None and len(atoms) == inp['n']:
        a_inp = dict(inp, op='c02.assign')
        batch.append((a_inp, atoms, where))


def compare_batch(ctx, batch, remap_tables):
    replies = ctx.model([b[0] for b in batch])
    if replies is None:
        return
    for (req, impl, where), rep in zip(batch, replies):
        ctx.count('corr_' + req['op'])
        if req['op'] == 'c02.descriptors':
            if 'err' in rep or 'err' in impl:
                if rep.get('err') != impl.get('err'):
                    ctx.disagree('corr:c02.descriptors', where, impl, rep)
                continue
            model = {k: common.unjrat(v) for k, v in rep['ok']}
            if not S.same_counts(impl['ok'], model):
                ctx.disagree('corr:c02.descriptors', where, impl['ok'], {k: float(v) for k, v in model.items()})
        else:
            if 'err' in rep:
                ctx.disagree('corr:c02.assign', where, 'assigned', rep)
                continue
            table = {r['key']: r['targets'][0]['name'] for r in req['remaps'] if r['targets']}
            model = [[c, p, table.get(g, g)] for c, p, g in rep['ok']]
            if model != impl:
                bad = [i for i in range(len(model)) if model[i] != impl[i]][:3]
                ctx.disagree('corr:c02.assign', dict(where, atoms=bad), [impl[i] for i in bad], [model[i] for i in bad])


def object_forms(ctx, libs_, smi, calls=None):
    """the same molecule given as an RDKit object — with implicit hydrogens, and with its hydrogens already explicit (nothing
    left for AddHs to add) — to every scheme in turn and twice each: the descriptors must be those of the SMILES text on every
    call (the declared decomposition is a function of the molecule, not of what was decomposed before with that object)"""
    from rdkit import Chem
    try:
        forms = {'mol': Chem.MolFromSmiles(smi), 'mol-explicit-H': Chem.AddHs(Chem.MolFromSmiles(smi))}
    except Exception:
        return
    if forms['mol'] is None:
        return
    calls = calls or [name for name, _ in libs_] * 2
    d = dict(libs_)
    for form, obj in forms.items():
        done = []
        # what the scheme file declares for THIS object's graph (its own Kekule form and ring order: a molecule object and
        # its SMILES text may legitimately differ there, finding F3), computed on a copy before the object is used
        graph = S.prepare(Chem.Mol(obj))
        if graph is None:
            continue
        for name in calls:
            lib = d[name]
            ref = S.declared(S.scheme_input(lib.scheme, Chem.Mol(graph)))
            got = S.impl_descriptors(lib, obj)
            done.append(name)
            ctx.count('object_form_calls')
            ctx.case(None, None)
            if got.get('err', '').startswith('internal') or ('ok' in got) != ('ok' in ref) or \
                    ('ok' in ref and not S.same_counts(got['ok'], ref['ok'])):
                ctx.violation('a molecule object does not give the declared decomposition of its graph (call %d on the same object)' % len(done),
                              {'scheme': name, 'smiles': smi, 'form': form, 'calls': list(done)},
                              ref if 'err' in ref else {k: float(v) for k, v in ref['ok'].items()}, got)
                return


# correction rows of the two RDKit-pattern kinds (`smiles_based_descriptors`, matched on the molecule as parsed, and
# `smarts_based_descriptors`, matched on the explicit-H Benson-aromatised molecule): [kind, name, SMARTS, useChirality]
RDKIT_ROWS = [['smarts', 'Twin:XH', '[!#1][#1]', False], ['smarts', 'Twin:XH', '[#1][!#1]', False],
              ['smarts', 'Twin:CC', '[#6]~[#6]', False], ['smarts', 'Twin:CC', '[#6]-[#6]', True],
              ['smiles', 'Twin:CC', '[#6]~[#6]', False], ['smiles', 'Twin:heavy', '[!#1]', False], ['smiles', 'Twin:heavy', '[!#1;!#6]', False],
              ['smarts', 'Twin:heavy', '[#6,#8]', False], ['smiles', 'Twin:CO', '[#6][#8]', True], ['smiles', 'Twin:CO', '[#8][#6]', False],
              ['smarts', 'Twin:CM', '[#6]~[Pt,Ru]', False], ['smiles', 'Twin:CM', '[Pt,Ru]~[#6]', False]]


def rdkit_rows(ctx, name, lib, mols, rows=None):
    """The two RDKit-pattern kinds of correction rows (no shipped scheme has any; not modelled in Lean): a scheme with same-named
    rows of all three kinds - RING rows, smiles-based, smarts-based - must count every ROW's distinct sets of matched atoms and
    add them under the name.  Oracle: `lib_scheme.declared` with one more descriptor entry per RDKit row, its match list
    asked of RDKit directly on the molecule the scheme file says the row is matched on."""
    from rdkit import Chem
    import pgradd.GroupAdd.Scheme as M
    from pgradd.GroupAdd.Library import GroupLibrary
    rng = ctx.rng
    if rows is None:
        rows = rng.sample(RDKIT_ROWS, rng.randint(3, 6))
        ring = [[n, t[0]] for n, t in TWIN_ROWS if any(r[1] == n for r in rows)]
    else:
        rows, ring = rows['rdkit'], rows['ring']
    sch = lib.scheme
    pats = {tuple(r): Chem.MolFromSmarts(r[2]) for r in rows}
    s2 = M.GroupAdditivityScheme(patterns=list(sch.patterns), pretreatment_rules=[], remaps=dict(sch.remaps),
                                 other_descriptors=list(sch.other_descriptors) + [{'name': n, 'connectivity': M.Read(t)} for n, t in ring],
                                 smiles_based_descriptors=[{'name': r[1], 'smiles': pats[tuple(r)], 'useChirality': r[3]} for r in rows if r[0] == 'smiles'],
                                 smarts_based_descriptors=[{'name': r[1], 'smarts': pats[tuple(r)], 'useChirality': r[3]} for r in rows if r[0] == 'smarts'],
                                 include=[])
    lib2 = GroupLibrary(s2, contents={}, uq_contents={})
    before = len(ctx.violations)
    for smi in sorted(mols, key=len):
        if len(ctx.violations) > before:
            break
        mol = S.prepare(smi)
        with S.rdkit_defaults():
            clean = Chem.MolFromSmiles(smi)
        if mol is None or clean is None:
            continue
        impl = S.impl_descriptors(lib2, smi)
        inp = S.scheme_input(s2, mol)
        for r in rows:
            target = clean if r[0] == 'smiles' else mol
            inp['descs'].append({'name': r[1], 'ms': [list(m) for m in target.GetSubstructMatches(pats[tuple(r)], useChirality=r[3])]})
        spec = S.declared(inp)
        ctx.count('rdkit_row_cases')
        ctx.case(('%s~rdkit-rows' % name, smi, json.dumps(rows)), None)
        where = {'scheme': '%s~rdkit-rows' % name, 'smiles': smi, 'rows': {'rdkit': rows, 'ring': ring}}
        if impl.get('err', '').startswith('internal') or ('err' in impl) != ('err' in spec):
            ctx.violation('a scheme with smiles/smarts-based correction rows: failure differs from the declared decomposition', where,
                          spec if 'err' in spec else 'descriptors', impl if 'err' in impl else 'descriptors')
        elif 'ok' in impl and not S.same_counts(impl['ok'], spec['ok']):
            diff = {k: (impl['ok'].get(k), float(spec['ok'].get(k, 0))) for k in set(impl['ok']) | set(spec['ok'])
                    if abs(float(impl['ok'].get(k, 0)) - float(spec['ok'].get(k, 0))) > 1e-9}
            ctx.violation('descriptors differ from the scheme file\'s declared decomposition (one count per correction row, summed under its name; '
                          'RING, smiles-based and smarts-based rows)', where, {k: v[1] for k, v in diff.items()}, {k: v[0] for k, v in diff.items()})


def run(ctx):
    libs_ = S.load_schemes()
    batch = []
    full = S.FullTie(ctx)
    for fname, rec in common.load_corpus('C02'):
        ctx.count('corpus')
        replay(ctx, rec)
    for name, lib in libs_:
        sch = lib.scheme
        if sch.smiles_based_descriptors or sch.smarts_based_descriptors:
            ctx.count('schemes_with_unmodelled_descriptors')
        mols = molecules(ctx, kind_of(name), ctx.n(110, 900))
        for smi in mols:
            check_one(ctx, name, lib, smi, batch, full)
            if ctx.time_left() < 120:
                break
        # synthetic schemes derived from this one
        for forced in ['dup-last', 'dup-first'] + ['twin'] * ctx.n(2, 12) + [None] * ctx.n(3, 30):
            sample = ctx.rng.sample(mols, min(len(mols), ctx.n(8, 20)))
            lib2, mode = synthetic(ctx, lib, sample, forced)
            extra = {'rows': synthetic.rows} if mode == 'twin' else None
            if mode == 'twin':
                sample = sorted(sample, key=len)
            for smi in sample:
                if mode == 'twin' and twin_fails(lib2, smi):
                    # a failing input in its smallest form: drop the appended rows that are not needed for the difference
                    rows = list(synthetic.rows)
                    for r in list(rows):
                        fewer = [x for x in rows if x is not r]
                        if twin_fails(with_rows(lib, fewer), smi):
                            rows = fewer
                    check_one(ctx, '%s~twin' % name, with_rows(lib, rows), smi, batch, full, {'rows': rows})
                    break
                check_one(ctx, '%s~%s' % (name, mode), lib2, smi, batch, full, extra)
            if mode == 'twin':
                ctx.count('twin_schemes')
                rdkit_rows(ctx, name, lib, sample)
        # the shipped scheme with probe descriptors, on the molecules that have rings or weak bonds
        libp = probe_scheme(lib)
        for smi in [m for m in mols if any(ch in m for ch in '12~')][:ctx.n(60, 400)]:
            check_one(ctx, '%s~probe' % name, libp, smi, batch, full)
        if len(batch) > 4000:
            compare_batch(ctx, batch, None)
            batch = []
        full.run()
    for kind in ('gas', 'surface'):
        same = [(n, l) for n, l in libs_ if kind_of(n) == kind]
        if same:
            for smi in molecules(ctx, kind, ctx.n(12, 60))[:ctx.n(12, 60)]:
                object_forms(ctx, same, smi)
    compare_batch(ctx, batch, None)
    full.run()
    ctx.extra.setdefault('coverage', {})['full_tie'] = (
        'end-to-end model (c02.full_batch) run on every case, no size bound; largest candidate count of any pattern on any '
        'compared molecule: %d (cap %d inactive on all compared cases)' % (getattr(full, 'maxraw', 0), S.FullTie.CAP))


def replay(ctx, rec):
    inp = rec.get('input', rec)
    before = len(ctx.violations)
    libs_ = dict(S.load_schemes())
    name = inp['scheme'].split('~')[0]
    batch = []
    if 'form' in inp:
        object_forms(ctx, list(libs_.items()), inp['smiles'], inp['calls'])
        return len(ctx.violations) == before
    lib = probe_scheme(libs_[name]) if inp['scheme'].endswith('~probe') else libs_[name]
    if inp['scheme'].endswith(('~dup-last', '~dup-first')):
        lib = synthetic(ctx, libs_[name], [inp['smiles']], inp['scheme'].split('~')[1])[0]
    if inp['scheme'].endswith('~rdkit-rows'):
        rdkit_rows(ctx, name, libs_[name], [inp['smiles']], inp['rows'])
        return len(ctx.violations) == before
    extra = None
    if inp['scheme'].endswith('~twin'):
        lib = with_rows(libs_[name], inp['rows'])
        extra = {'rows': inp['rows']}
    check_one(ctx, inp['scheme'], lib, inp['smiles'], batch, None, extra)
    if 'other_smiles' in inp:
        a = S.impl_descriptors(libs_[name], inp['smiles'])
        b = S.impl_descriptors(libs_[name], inp['other_smiles'])
        if a != b:
            ctx.violation('equivalent spellings give different descriptors', inp, a, b)
    return len(ctx.violations) == before


LEVEL_TEXT = ('Lean 4 theorems, for every scheme, molecule graph and size: (above the matcher, any match lists) centre assignment succeeds exactly when '
              'every atom is the first atom of matches of exactly one centre pattern and then names it by that pattern; group counts are the number of '
              'atoms whose centre and neighbour peripheral multiset give that canonical name; correction descriptors count distinct atom sets; remaps of '
              'chain-free tables equal the linear substitution whatever the key order; (end to end, C02_decompose_declared / C02_decompose_error_iff) the '
              'model decompose = Benson perception + reader + matcher + decomposition equals that declared decomposition with every pattern\'s matches being '
              'exactly its embeddings (C08 plugged in). Tied to Scheme.py/MolQuery.py/MolQueryRead.py by a correspondence run on the nine shipped and derived '
              'synthetic schemes from the raw graph and the pattern parse trees (per-atom names and aromatised graph via a guarded hook).')
LEVEL_NOTE = ('Trusted: Lean kernel, standard axioms, the correspondence harness, RDKit as graph provider (A-graph) and candidate enumerator (A-cand), the parser (C09). '
              'Explicit hypotheses of the end-to-end theorems: well-formed graph, no `*` suffix (FM1), candidate counts below the cap of 10 000 (F30), chain-free remaps; '
              'all observed to hold on every compared case. Not modelled: smiles/smarts-based descriptors (unused by every shipped scheme; checked each run).')
TECHNIQUE = 'Lean 4 proof over hand-written model + correspondence check (independent normalisation, per-atom hook) + declarative spec oracle'
