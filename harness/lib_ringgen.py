"""RING text generators for C09 (DESIGN Appendix B).

* `Walker`: grammar-directed generation from the *live* grammar objects (the same objects the translator
  dumps), so new rules and alternatives are exercised automatically.  A small semantic layer keyed on rule
  names keeps labels defined, symbols chemical and names short for the mostly-valid stream; everything it
  does not know is expanded generically.
* token-level mutations (delete / substitute / duplicate / insert / swap), prefixes, label misuse,
  random printable and non-ASCII text.
All generators return *token lists*; `join` lays them out with random filler.
"""

ELEMENTS = ['C', 'H', 'O', 'N', 'S', 'Pt', 'Ru', 'B', 'P', 'Cl', 'Si', 'Ni']
ODD_SYMBOLS = ['c', 'n', 'o', 's', 'Zz', 'Q', 'M', 'Xe', 'x', 'cl', 'c1', 'C1', '_', '9', 'é', 'É', 'ſi', 'Ω', 'ı']
NAMES = ['a', 'frag', 'r1', 'r2', 'q_1', 'X9', 'grp', 'éa', '٣a']
UNI_DIGITS = ['²', '٣', '१', '𝟗', '①', '৪', '๓', '５']
UNI_LETTERS = ['é', 'ß', 'Ω', 'λ', '中', 'ſ', 'ǅ', 'ª', 'ı', 'İ']
CONTROL = ['\x00', '\x0b', '\x0c', '\r', '\x1f', '\x7f', '\x85', '\xa0', ' ', '﻿']
GARBAGE = ['{', '}', '(', ')', ',', '=>', '!', '&&', '||', '+', '-', '.', ':', '*', '?', '$', '&', '>', '<', '=', '>=', '<=',
           'labeled', 'bond', 'to', 'bond to', 'fragment', 'rule', 'reactant', 'ringbond', 'group', 'connected to', 'in',
           'ring', 'has', 'with', 'constraints{', 'is', 'contains', 'of', '.size', '.charge', 'break', 'form', 'X', 'any atom']


class Walker(object):
    def __init__(self, rng, grammar, P, valid=True):
        self.rng = rng
        self.root, self.rules = grammar
        self.P = P
        self.valid = valid          # keep labels defined / symbols chemical
        self.reset()
        self.hits = {}              # combinator class / rule name -> count (reach measurement)

    def reset(self):
        self.labels = []
        self.budget = 60
        self.stack = []

    def hit(self, k):
        self.hits[k] = self.hits.get(k, 0) + 1

    # -------------------------------------------------------------- semantic layer
    def fresh_label(self):
        rng = self.rng
        for _ in range(20):
            l = rng.choice(['c', 'h', 'o', 'x', 'a', 'C', 'n_']) + str(rng.randint(1, 30))
            if l not in self.labels:
                break
        self.labels.append(l)
        return l

    def old_label(self):
        rng = self.rng
        if self.labels and (self.valid or rng.random() < 0.8):
            return rng.choice(self.labels)
        return rng.choice(['zz9', 'c99', 'undefined', '1', '_'])

    def string_for(self):
        """text for a String() combinator, by the innermost enclosing rule"""
        rng = self.rng
        rule = self.stack[-1] if self.stack else ''
        parent = self.stack[-2] if len(self.stack) > 1 else ''
        if rule == 'AtomLabel':
            decl = parent in ('Atom', 'BondedAtom') and self.count.get((self.frame[-2] if len(self.frame) > 1 else 0, 'AtomLabel'), 0) == 1
            return self.fresh_label() if decl else self.old_label()
        if rule == 'Symbols' or rule == 'ElementSymbol':
            if self.valid or rng.random() < 0.7:
                return rng.choice(ELEMENTS[:6] if rng.random() < 0.8 else ELEMENTS)
            return rng.choice(ODD_SYMBOLS)
        if self.valid or rng.random() < 0.9:
            return rng.choice(NAMES[:6])
        return rng.choice(NAMES)

    # -------------------------------------------------------------- expansion
    def gen(self, e=None, out=None):
        P = self.P
        if e is None:
            self.reset()
            self.frame = []
            self.nframe = 0
            self.count = {}
            out = []
            self.gen(self.root, out)
            return out
        if isinstance(e, str):
            self.hit('rule:' + e)
            body = self.rules.get(e)
            if body is None:
                out.append('<%s>' % e)      # undefined rule: leaves a token no grammar accepts
                return
            # count occurrences of this rule name inside the parent frame (declaration vs reference of labels)
            pid = self.frame[-1] if self.frame else 0
            self.count[(pid, e)] = self.count.get((pid, e), 0) + 1
            self.stack.append(e)
            self.nframe += 1
            self.frame.append(self.nframe)
            try:
                self.gen(body, out)
            finally:
                self.stack.pop()
                self.frame.pop()
            return
        t = type(e)
        self.hit(t.__name__)
        rng = self.rng
        if t is P.All:
            for r in e.reqs:
                self.gen(r, out)
        elif t is P.Literals:
            out.append(rng.choice(e.alts).tok)
        elif t is P.Either:
            alts = list(e.alts)
            self.gen(rng.choice(alts), out)
        elif t is P.Optional:
            self.budget -= 1
            depth = len(self.stack)
            p = 0.55 if self.budget > 0 and depth < 40 else 0.0
            if rng.random() < p:
                self.gen(e.opt, out)
        elif t is P.ZeroOrMore:
            while self.budget > 0 and rng.random() < 0.5:
                self.budget -= 1
                self.gen(e.what, out)
        elif t in (P.Literal, P.DeprecatedLiteral, P.Filler):
            out.append(e.tok)
        elif t is P.String:
            out.append(self.string_for())
        elif t is P.Digit:
            out.append(''.join(str(rng.randint(0, 9)) for _ in range(e.n)))
        elif t is P.Number:
            out.append(rng.choice(['0', '1', '2', '3', '10', '12', '007', '2024']))
        elif t is P.EOS:
            pass
        else:
            out.append('<?>')


def join(rng, toks, messy=False):
    """lay out a token list: single blanks, or random filler (blank, tab, newline, runs) when messy"""
    if not messy:
        return ' '.join(toks)
    out = []
    for i, t in enumerate(toks):
        if i:
            out.append(rng.choice([' ', ' ', '  ', '\n', '\t', ' \n ', '\n\n', '']) if rng.random() < 0.5 else ' ')
        out.append(t)
    pre = rng.choice(['', ' ', '\n', '\t \n'])
    post = rng.choice(['', ' ', '\n', ' \n\t'])
    return pre + ''.join(out) + post


def mutate_tokens(rng, toks, vocab):
    """one single-token mutation; returns (kind, new token list)"""
    toks = list(toks)
    if not toks:
        return 'insert', [rng.choice(vocab)]
    k = rng.choice(['delete', 'substitute', 'duplicate', 'insert', 'swap', 'charedit', 'unidigit', 'uniletter'])
    i = rng.randrange(len(toks))
    if k == 'delete':
        del toks[i]
    elif k == 'substitute':
        toks[i] = rng.choice(vocab)
    elif k == 'duplicate':
        toks.insert(i, toks[i])
    elif k == 'insert':
        toks.insert(i, rng.choice(vocab))
    elif k == 'swap' and len(toks) > 1:
        j = rng.randrange(len(toks))
        toks[i], toks[j] = toks[j], toks[i]
    elif k == 'charedit':
        t = toks[i]
        if t:
            j = rng.randrange(len(t))
            toks[i] = rng.choice([t[:j] + t[j + 1:], t[:j] + t[j].swapcase() + t[j + 1:], t[:j] + ' ' + t[j:],
                                  t[:j] + rng.choice(UNI_LETTERS + CONTROL) + t[j:]])
    elif k == 'unidigit':
        ds = [j for j, t in enumerate(toks) if t and t[0].isdigit()]
        if ds:
            toks[rng.choice(ds)] = rng.choice(UNI_DIGITS)
        else:
            toks.insert(i, rng.choice(UNI_DIGITS))
    elif k == 'uniletter':
        toks[i] = toks[i] + rng.choice(UNI_LETTERS)
    return k, toks


def random_text(rng):
    """random printable / non-ASCII / keyword soup"""
    k = rng.random()
    n = rng.randint(0, 30)
    if k < 0.3:
        return ''.join(chr(rng.randint(32, 126)) for _ in range(n))
    if k < 0.5:
        pool = UNI_DIGITS + UNI_LETTERS + CONTROL + list('abcC1 {}_\n\t')
        return ''.join(rng.choice(pool) for _ in range(n))
    if k < 0.6:
        return ''.join(chr(rng.choice([rng.randint(0xa0, 0x2ff), rng.randint(0x370, 0x6ff), rng.randint(0x900, 0xdff),
                                       rng.randint(0x2000, 0x2bff), rng.randint(0x4e00, 0x4fff), rng.randint(0x1d400, 0x1d7ff),
                                       rng.randint(0x1f600, 0x1f64f)])) for _ in range(n))
    pool = GARBAGE + ELEMENTS + NAMES + ['c1', 'c2', 'single', 'double', 'any', '1', '2', '=2', '>=', 'H', 'cis']
    return ' '.join(rng.choice(pool) for _ in range(rng.randint(0, 14)))


# ---------------------------------------------------------------------- things that look like layout but are not
# The grammar tables know exactly one kind of layout: the characters of `Parser.filler`.  Anything else a reader might be
# tempted to skip — remarks in the styles of other languages, block remarks, line continuations, exotic blanks and line
# separators — is NOT in the tables the model is regenerated from, so texts carrying them are outside the language: they
# must be refused, at a position inside the text, and never change what the rest of the text means.
LINE_REMARKS = ['//', '#', '--', ';', '%', '!', "'", 'REM ', '///', '\\', '/', '::', '@', '|', '~']
BLOCK_REMARKS = [('/*', '*/'), ('(*', '*)'), ('<!--', '-->'), ('{-', '-}'), ('"""', '"""'), ('"', '"'), ('/+', '+/'), ('#|', '|#')]
BLANK_LIKE = ['\r', '\r\n', '\x0b', '\x0c', '\x1c', '\x1d', '\x1e', '\x1f', '\x85', '\xa0', ' ', ' ', ' ', ' ',
              ' ', ' ', ' ', '　', '﻿', '​', '‍', '\x00', '\\\n', '\x08', '\x1a', '\x7f']
REMARK_WORDS = ['', 'to be written', 'TODO', 'C labeled c9', 'see Table 2', '}', '{', '}}', 'fragment f{ C labeled c1 }', 'é', '٣', '//', '*/']


def multiline(rng, toks, p=0.35):
    """lay the tokens out over several lines (what hand-written RING in a YAML block looks like)"""
    out = []
    for i, t in enumerate(toks):
        if i:
            out.append(rng.choice(['\n', '\n ', '\n  ', '\n\n']) if rng.random() < p else ' ')
        out.append(t)
    return ''.join(out)


def junk_texts(rng, toks, k):
    """-> k entries (kind, text): the token list laid out over several lines with ONE piece of would-be layout in it.
    kinds: tail remark on the last line without / with a final line break (the tokens after the cut are what is `commented
    out': the text is usually incomplete at that point), a line remark between tokens, a block remark between tokens, a
    blank-like character between or instead of blanks, a text that is nothing but a remark.  Every opener of LINE_REMARKS,
    BLOCK_REMARKS and BLANK_LIKE is used in turn (the caller passes a running counter through `rng.junk_i`)."""
    out = []
    n = len(toks)
    for _ in range(k):
        c = getattr(rng, 'junk_i', 0)
        rng.junk_i = c + 1
        kind = ['tail', 'tail', 'tail_nl', 'between', 'block', 'blank', 'only'][c % 7]
        op = LINE_REMARKS[(c // 7) % len(LINE_REMARKS)]
        i = rng.randint(0, n) if rng.random() < 0.8 else n
        j = rng.randint(i, n)
        head = multiline(rng, toks[:i])
        words = ' '.join(toks[i:j]) if rng.random() < 0.7 else rng.choice(REMARK_WORDS)
        sep = rng.choice(['\n', '\n', '\n ', '\n   ', ' ', '  ', '', '\n\n']) if head else rng.choice(['', '\n\n   ', ' ', '\n'])
        if kind == 'tail':
            text = head + sep + op + rng.choice(['', ' ']) + words
        elif kind == 'tail_nl':
            text = head + sep + op + ' ' + words + rng.choice(['\n', '\n\n', '\n '])
        elif kind == 'between':
            text = head + sep + op + ' ' + words + '\n' + multiline(rng, toks[j:] if rng.random() < 0.5 else toks[i:])
        elif kind == 'block':
            a, b = BLOCK_REMARKS[(c // 7) % len(BLOCK_REMARKS)]
            closed = rng.random() < 0.7
            text = head + sep + a + ' ' + words + (' ' + b if closed else '') + rng.choice([' ', '\n', '']) + \
                multiline(rng, toks[i:] if closed else [])
        elif kind == 'blank':
            ch = BLANK_LIKE[(c // 7) % len(BLANK_LIKE)]
            how = rng.random()
            rest = multiline(rng, toks[i:])
            if how < 0.4:
                text = head + ch + rest                                    # instead of the blank
            elif how < 0.7:
                text = head + ' ' + ch + ' ' + rest                        # between blanks
            elif how < 0.85:
                text = multiline(rng, toks) + ch                           # after the last token
            else:
                text = ch + multiline(rng, toks)                           # before the first
        else:
            text = rng.choice(['', '\n\n   ', ' ', '\n']) + op + rng.choice(['', ' ']) + rng.choice(REMARK_WORDS + [' '.join(toks)])
        out.append(('junk_' + kind, text))
    return out
