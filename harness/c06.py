"""C06 — no property is returned outside the valid range unsignalled.

Proof: lean/PGA/Props/C06.lean (model PGA/Model/Thermo.lean of base.py check_range, raw_data.py, incomplete.py,
group_data.py:49-77).  Tie: correspondence of get_range() and of the outcome (value / exception class / warning flag)
of every get_* at temperatures just inside / at / just outside / far outside each bound, zero and negative, for single
correlations and for estimates built through the real GroupLibrary.Estimate API.  Property oracle: the statement of the
property evaluated directly on the implementation.
"""
import math, itertools, json, warnings
from . import common
from . import lib_thermo as L
from . import c05 as C5

PROPS = ['PGA.Props.C06']
GEN = ['ThermoRanges']
OBLIGATIONS = ['PGA.Thermo.' + t for t in [
    'C06_range_is_intersection', 'C06_range_sup_inf', 'C06_range_none_iff', 'C06_range_order_independent',
    'C06_empty_intersection_rejected', 'C06_table_outside_errors', 'C06_nonpositive_T_rejected',
    'C06_table_setRange_outside_errors', 'C06_table_setRange_inside_value', 'C06_table_setRange_reversed',
    'C06_correlation_outside_errors', 'C06_correlation_outside_signalled', 'C06_estimate_outside_signalled',
    'C06_table_inside_value', 'C06_estimate_inside_value', 'C06_no_internal_error', 'C06_array_checked_elementwise', 'C06_array_check_perm', 'C06_array_check_append', 'C06_tab_shipped_ranges', 'C06_tab_shipped_ranges_spec',
    'F27_unsignalled_before_repair']]
RULE = ('cases = (correlation or estimate, temperature, property) triples. Correlations: ThermochemRawData / Incomplete / Group, with '
        'and without Cp data (tables of 1..8 points), with / without reference values, range present / absent / degenerate, T_ref '
        'inside, at the ends of and (without Cp data) outside the range; estimates: 1..6 constituents with different, nested, '
        'touching, disjoint and absent ranges, counts integer / fractional / zero / negative, built through GroupLibrary.Estimate; '
        'random mappings over every shipped library; correlations of all three classes whose range is changed after construction with '
        'set_range (cut just beside / well beside T_ref, a tabulated temperature or an old bound; widened; reversed; unchanged), with and '
        'without the getters used before, asked at all old and new special temperatures against the range they report now. Temperatures: each bound, its two nextafter neighbours, 1 K and far outside, '
        'zero, negative, T_ref and its neighbours. Distinct = distinct (object class, #points or #constituents, range kind, '
        'temperature class, property, outcome class); non-trivial = the temperature is not strictly inside every range involved.')
ASSUMPTIONS = C5.ASSUMPTIONS + ['validity ranges have a positive lower end (true of every shipped group; ranges reaching T <= 0 are '
                                'exercised for the tie only)']
TRUSTED = C5.TRUSTED + ['modelled, not verified: ThermochemGroupAdditive.__init__ (range part) and its sequential sums get_CpoR/get_HoRT/get_SoR '
                        '(S_elements=None); the UQ part of the constructor is not modelled']


def tclass(T, lo, hi, tref):
    if T == tref:
        return 'tref'
    if lo is None:
        return 'norange'
    if T <= 0:
        return 'nonpositive'
    if T == lo or T == hi:
        return 'at_bound'
    if T in (L.nexta(lo, True), L.nexta(hi, False)):
        return 'just_inside'
    if T in (L.nexta(lo, False), L.nexta(hi, True)):
        return 'just_outside'
    return 'inside' if lo < T < hi else 'outside'


def has_data(spec, w):
    return {'cp': bool(spec['pts']), 'h': spec['href'] is not None, 's': spec['sref'] is not None,
            'g': spec['href'] is not None and spec['sref'] is not None}[w]


def oracle_single(ctx, spec, T, outs, inp):
    """C06 for one correlation, from the property text"""
    has_cp = bool(spec['pts'])
    rng = L.eff_range(spec) if has_cp else (tuple(spec['range']) if spec['range'] is not None else None)
    declared = spec['range'] is not None or has_cp
    for w, o in outs.items():
        if o.get('skip'):
            continue
        if declared and not L.in_rng(T, rng):
            if 'ok' in o and not o['warn']:
                ctx.violation('a value is returned outside the valid range with neither an error nor a warning',
                              dict(inp, property=w), expected='error or IncompleteDataWarning', observed=o,
                              finding=None)
            elif 'ok' in o and has_cp:
                ctx.violation('a correlation with Cp data returns a value outside its range (warning only)',
                              dict(inp, property=w), expected='error', observed=o)
        else:
            if has_data(spec, w):
                if 'ok' not in o:
                    ctx.violation('in-range evaluation does not return a finite number', dict(inp, property=w),
                                  expected='finite value', observed=o)
                elif not has_cp and o['warn'] != (T != spec['tref']):
                    ctx.violation('the incomplete-data warning is not issued exactly when T differs from T_ref (no Cp data, in range)',
                                  dict(inp, property=w), expected={'warn': T != spec['tref']}, observed=o)
            elif o.get('err') != 'incomplete':
                ctx.violation('a property without data does not raise IncompleteDataError', dict(inp, property=w),
                              expected='incomplete', observed=o)


def single_temps(rng, spec):
    has_cp = bool(spec['pts'])
    r = L.eff_range(spec) if has_cp else spec['range']
    tref = spec['tref']
    temps = [tref, L.nexta(tref, True), L.nexta(tref, False)]
    if r is not None:
        lo, hi = r
        temps += L.bound_neighbours(lo, hi)
        temps += [L.between(rng, lo, hi)]
        if has_cp:
            mn, mx = L.table_ends(spec)
            temps += [mn, mx, L.between(rng, mn, mx)]
    else:
        temps += [0.0, -5.0, 1.0, 250.0, 1e5]
    out, seen = [], set()
    for T in temps:
        if T not in seen and math.isfinite(T):
            seen.add(T)
            out.append(T)
    return out


def check_single(ctx, spec, batch, key, temps=None, want=L.WHICH, oracle=True):
    obj, mk = L.build_impl(spec)
    inp0 = {'spec': spec}
    exp = C5.expected_mk(spec)
    ctx.count('mk_' + mk)
    if mk != exp:
        ctx.violation('constructor outcome differs from the documented precondition', inp0, expected=exp, observed=mk)
    if obj is None:
        ctx.case(None)
        batch.append(({'op': 'c05.eval', 'cor': L.jspec(spec, {}), 'T': L.J(spec['tref']), 'want': []}, {'mk': mk}, inp0, None))
        return
    has_cp = bool(spec['pts'])
    r = L.eff_range(spec) if has_cp else spec['range']
    lo, hi = r if r is not None else (None, None)
    for T in (temps if temps is not None else single_temps(ctx.rng, spec)):
        outs = {w: L.eval_impl(obj, w, T, ctx.count) for w in want}
        tc = tclass(T, lo, hi, spec['tref'])
        for w in want:
            o = outs[w]
            oc = 'ok' if 'ok' in o else o['err']
            ctx.case((key + (tc, w, oc, o['warn'])) if tc != 'inside' else None,
                     {'spec': spec, 'T': T, 'property': w, 'outcome': o} if tc in ('just_outside', 'tref') and len(ctx.samples) < 12 else None)
            ctx.count('single_%s_%s%s' % (tc, oc, '_warn' if o['warn'] else ''))
        if oracle:
            oracle_single(ctx, spec, T, outs, dict(inp0, T=T))
        orc = L.oracle_for(spec, obj, T, want)
        batch.append(({'op': 'c05.eval', 'cor': L.jspec(spec, orc), 'T': L.J(T), 'want': list(want)},
                      {'mk': 'ok', 'range': L.impl_range(obj), 'outs': outs}, dict(inp0, T=T), spec))
    if oracle and has_cp and lo is not None:
        array_outside(ctx, obj, spec, lo, hi, inp0)
    if oracle and getattr(obj, 'range', None) is not None and L.impl_range(obj) is not None:
        array_check_tie(ctx, obj, L.impl_range(obj)[0], L.impl_range(obj)[1], inp0, batch)


def array_check_tie(ctx, obj, lo, hi, inp0, batch):
    """tie of `checkRangeArr` (theorem C06_array_checked_elementwise): `check_range` itself on random arrays of temperatures
    -- inside, at the ends, one ulp outside, far outside, in any position -- against the model's whole-array decision"""
    import numpy as np
    rng = ctx.rng
    inside = (lo + hi) / 2.0
    pool = [inside, lo, hi, L.nexta(lo, False), L.nexta(hi, True), lo - 40.0, hi + 500.0, (lo + inside) / 2.0, 0.0, -5.0]
    for _ in range(2):
        k = rng.choice([0, 1, 2, 3, 5, 8])
        arr = [rng.choice(pool[:3] + pool[7:8]) if rng.random() < 0.75 else rng.choice(pool) for _ in range(k)]
        shape = rng.choice(['1d', '1d', '2d']) if k and k % 2 == 0 else '1d'
        a = np.array(arr, dtype=float)
        if shape == '2d':
            a = a.reshape(2, -1)
        try:
            obj.check_range(a)
            ok = True
        except Exception as e:  # noqa
            ok = False if type(e).__name__ == 'OutsideCorrelationError' else 'raises ' + type(e).__name__
        ctx.count('array_check_%s_%s' % ('ok' if ok is True else 'refused', 'all_inside' if all(lo <= t <= hi for t in arr) else 'some_outside'))
        if ok != all(lo <= t <= hi for t in arr):
            ctx.violation('check_range on an array of temperatures does not refuse exactly the arrays with an element outside the range',
                          dict(inp0, temperatures=arr, shape=shape), expected=all(lo <= t <= hi for t in arr), observed=ok)
        batch.append(({'op': 'c06.check_arr', 'range': [L.J(lo), L.J(hi)], 'Ts': [L.J(t) for t in arr]},
                      {'arr': True, 'ok': ok}, dict(inp0, temperatures=arr, shape=shape), None))


def array_outside(ctx, obj, spec, lo, hi, inp0):
    """temperatures passed as an array are range-checked like scalars: one element outside the range => error, never values"""
    import numpy as np
    import warnings
    inside = (lo + hi) / 2.0
    for name, arr in (('above', [inside, L.nexta(hi, True)]), ('below', [L.nexta(lo, False), inside]),
                      ('far', [inside, hi + 500.0]), ('nonpositive', [0.0, inside])):
        ctx.count('array_outside_' + name)
        try:
            with warnings.catch_warnings():
                warnings.simplefilter('ignore')
                got = obj.get_CpoR(np.array(arr, dtype=float))
        except Exception:
            continue
        ctx.violation('Cp/R is returned for an array of temperatures one of which lies outside the valid range',
                      dict(inp0, temperatures=arr), expected='error', observed=[float(x) for x in np.asarray(got).ravel()])


def gen_spec(rng, kind=None, n=None, rkind=None, tref_mode=None):
    kind = kind or rng.choice(C5.KINDS)
    n = rng.choice([0, 0, 1, 2, 3, 4, 6, 8]) if n is None else n
    if kind == 'raw' and n == 0:
        n = 1
    rkind = rkind or rng.choice(['present', 'present', 'absent', 'degenerate', 'half'])
    miss = rng.random()
    href = None if (kind != 'raw' and miss < 0.12) else round(rng.uniform(-60, 60), 3)
    sref = None if (kind != 'raw' and 0.08 < miss < 0.2) else round(rng.uniform(-10, 40), 3)
    if n == 0:
        tref = float(rng.choice([298.0, 298.15, 300.0, 400.0]))
        if rkind == 'absent':
            r = None
        elif rkind == 'degenerate':
            r = [tref, tref]
        else:
            lo = tref - float(rng.choice([0, 0, 10, 98])) if rkind != 'half' else tref
            r = [lo, lo + float(rng.choice([2, 100, 700, 1200]))]
        mode = tref_mode or rng.choice(['in', 'in', 'lo', 'hi', 'out_below', 'out_above'])
        if r is not None:
            tref = {'in': tref if r[0] <= tref <= r[1] else r[0], 'lo': r[0], 'hi': r[1],
                    'out_below': r[0] - float(rng.choice([1.85, 10, 100])), 'out_above': r[1] + float(rng.choice([0.5, 50]))}[mode]
        return {'kind': kind, 'href': href, 'sref': sref, 'pts': [], 'tref': tref, 'range': r}
    pts = L.gen_table(rng, n)
    r = C5.range_for(rng, rkind, pts)
    lo, hi = r if r is not None else (pts[0][0], pts[-1][0])
    tref, _ = L.place(rng, rng.choice(L.PLACEMENTS), pts, lo, hi)
    if tref_mode == 'lo':
        tref = lo
    elif tref_mode == 'hi':
        tref = hi
    spec = {'kind': kind, 'href': href, 'sref': sref, 'pts': L.shuffled(rng, pts), 'tref': tref, 'range': r}
    if kind != 'raw' and rng.random() < 0.3:
        spec['via_update'] = rng.choice(L.WAYS)      # reached in two merge steps (narrower range and other Cp values first)
    return spec


def singles(ctx, batch, n):
    rng = ctx.rng
    for i in range(n):
        spec = gen_spec(rng, kind=C5.KINDS[i % 3])
        check_single(ctx, spec, batch, ('single', spec['kind'], len(spec['pts']), 'r' if spec['range'] else 'nr'))
    # ranges reaching T <= 0: outside the property's domain; tie only (H and Cp; the entropy of T <= 0 is not modelled)
    for i in range(max(6, n // 20)):
        pts = L.gen_table(rng, rng.randint(1, 5))
        spec = {'kind': C5.KINDS[i % 3], 'href': 2.5, 'sref': 1.0, 'pts': pts, 'tref': pts[0][0],
                'range': [float(rng.choice([-50, 0, -0.0])), pts[-1][0] + 10]}
        ctx.count('nonpositive_range')
        check_single(ctx, spec, batch, ('nonpos', spec['kind']), temps=[0.0, pts[0][0], -10.0], want=('cp', 'h'), oracle=False)


# ----------------------------------------------------------------------------- ranges changed after construction
def oracle_reported(ctx, has_cp, has, reported, T, outs, inp):
    """C06 against the range the object REPORTS NOW (get_range()), whatever it was built with"""
    for w, o in outs.items():
        if reported is not None and not L.in_rng(T, reported):
            if 'ok' in o and not o['warn']:
                ctx.violation('a value is returned outside the range the correlation reports (get_range()) with neither an error nor a warning',
                              dict(inp, property=w), expected='error or IncompleteDataWarning', observed=o)
            elif 'ok' in o and has_cp:
                ctx.violation('a correlation with Cp data returns a value outside the range it reports (warning only)',
                              dict(inp, property=w), expected='error', observed=o)
        elif has[w] and 'ok' not in o and (reported is None or reported[0] > 0):
            ctx.violation('evaluation inside the reported range does not return a finite number', dict(inp, property=w),
                          expected='finite value', observed=o)


def excluded_range(rng, lo, hi, t0):
    """a range inside [lo, hi] that no longer contains t0 (cut just beside it or well beside it), or None"""
    cands = []
    for d in (None, 0.5, 2.0):
        a = L.nexta(t0, True) if d is None else t0 + d
        b = L.nexta(t0, False) if d is None else t0 - d
        if a <= hi:
            cands.append([a, hi])
        if b >= lo and b > 0:
            cands.append([lo, b])
    return rng.choice(cands) if cands else None


def range_changes(ctx, batch, n):
    """The range is changed after construction -- set_range() on every class (ThermochemRawData inherits the base method, which
    looks at the order of the bounds only) -- so that a special temperature of the correlation
    (T_ref, a tabulated temperature, an old bound) falls outside, or a temperature that was outside comes inside.  Then every
    getter is asked at every special temperature, old and new: whatever the call sequence, a value outside the range reported
    NOW needs an error (a warning without Cp data).  A getter that answers from a shortcut before it checks the range, or an
    inner object that still checks the old range, shows here."""
    rng = ctx.rng
    for i in range(n):
        kind = C5.KINDS[i % 3]
        npts = rng.choice([1, 2, 3, 4, 6]) if (kind == 'raw' or i % 4) else 0
        spec = gen_spec(rng, kind, n=npts, rkind='present', tref_mode=None if npts else 'in')
        spec.pop('via_update', None)
        if spec['href'] is None:
            spec['href'] = 1.25
        if spec['sref'] is None:
            spec['sref'] = 0.5
        obj, mk = L.build_impl(spec)
        if obj is None:
            raise common.MachineryError('range_changes: constructor refused %r: %s' % (spec, mk))
        lo, hi = spec['range']
        tref = spec['tref']
        specials = {tref: 'tref', lo: 'old_lo', hi: 'old_hi'}
        if npts:
            mn, mx = L.table_ends(spec)
            specials.setdefault(mn, 'at_min')
            specials.setdefault(mx, 'at_max')
            if npts >= 3:
                specials.setdefault(sorted(p[0] for p in spec['pts'])[1], 'at_knot')
        t0 = tref if rng.random() < 0.3 else rng.choice(sorted(specials))
        mode = rng.choice(['exclude', 'exclude', 'exclude', 'widen', 'reversed', 'same'])
        if mode == 'exclude':
            new = excluded_range(rng, lo, hi, t0)
            if new is None:
                mode, new = 'widen', [lo - 10.0 if lo > 10.0 else lo, hi + 25.0]
        elif mode == 'widen':
            new = [lo - 10.0 if lo > 10.0 else lo, hi + 25.0]
        elif mode == 'reversed':
            new = [hi + 1.0, lo]
        else:
            new = [lo, hi]
        if rng.random() < 0.5:
            # the getters (and the YAML text, a copy) are used before the change: nothing remembered may outlive it
            L.pre_evaluate(obj, sorted(specials)) if kind != 'raw' else [L.eval_impl(obj, w, T) for T in specials for w in L.WHICH]
            ctx.count('range_change_pre_evaluated')
        try:
            with warnings.catch_warnings():
                warnings.simplefilter('ignore')
                obj.set_range(tuple(new))
            st = 'ok'
        except Exception as e:
            st = L.exc_name(e)
        reported = L.impl_range(obj)
        ctx.count('range_change_%s_%s_%s' % (mode, kind if kind == 'raw' else 'inc', st))
        inp0 = {'spec': spec, 'set_range': new, 'excluded': t0 if mode == 'exclude' else None}
        want_range = new if st == 'ok' else [lo, hi]
        if reported != want_range:
            ctx.violation('after set_range() %s the correlation does not report %s' % ('returned' if st == 'ok' else 'raised', 'the new range' if st == 'ok' else 'its old range'),
                          inp0, expected=want_range, observed=reported)
        temps = dict(specials)
        for b in new:
            for T in (b, L.nexta(b, True), L.nexta(b, False)):
                temps.setdefault(T, 'new_bound')
        temps.setdefault(L.nexta(t0, True), 'beside')
        temps.setdefault(L.nexta(t0, False), 'beside')
        has = {w: has_data(spec, w) for w in L.WHICH}
        for T, cls in sorted(temps.items()):
            outs = {w: L.eval_impl(obj, w, T, ctx.count) for w in L.WHICH}
            out_now = not L.in_rng(T, reported)
            for w in L.WHICH:
                o = outs[w]
                ctx.case(('range_change', kind, npts, mode, st, cls, 'outside' if out_now else 'inside', w, 'ok' if 'ok' in o else o['err'], o['warn']))
            ctx.count('range_change_T_%s_%s' % (cls, 'outside' if out_now else 'inside'))
            oracle_reported(ctx, bool(npts), has, reported, T, outs, dict(inp0, T=T))
            # the tie: ThermochemRawData through the model's set_range; the wrapper classes are, after an accepted (refused)
            # set_range, the correlation the constructor builds with the new (old) range (Props/CorrHistory: HIST_invariant)
            if kind == 'raw':
                if True:
                    batch.append(({'op': 'c06.raw_set_range', 'cor': L.jspec(spec, raw_oracle(spec, obj, T)), 'newrange': [L.J(new[0]), L.J(new[1])],
                                   'T': L.J(T), 'want': list(L.WHICH)},
                                  {'mk': 'ok', 'set': st, 'range': reported, 'outs': outs}, dict(inp0, T=T), spec))
            else:
                now = dict(spec, range=reported)
                batch.append(({'op': 'c05.eval', 'cor': L.jspec(now, L.oracle_for(now, obj, T, L.WHICH)), 'T': L.J(T), 'want': list(L.WHICH)},
                              {'mk': 'ok', 'range': reported, 'outs': outs}, dict(inp0, T=T), now))


def raw_oracle(spec, obj, T):
    """oracle values for a table correlation whose range no longer has to contain T_ref or the table: the points the model
    consults depend on the table ends, T_ref and T only, so the request is built as if the range were wide enough"""
    ts = [p[0] for p in spec['pts']] + [spec['tref'], T]
    wide = dict(spec, range=[min(ts), max(ts)])
    return L.oracle_for(wide, obj, T, L.WHICH) if T > 0 else {'val': [], 'I': [], 'J': [], 'lg': []}


# ----------------------------------------------------------------------------- estimates
def make_library(specs):
    """a GroupLibrary holding one ThermochemGroup per spec under the keys g0, g1, ... (real classes, real API)"""
    from pgradd.GroupAdd.Library import GroupLibrary
    from pgradd.ThermoChem import ThermochemGroup
    contents = {}
    for i, sp in enumerate(specs):
        obj, mk = L.build_impl(dict(sp, kind='grp'))
        if obj is None:
            raise common.MachineryError('constituent could not be built: %s %r' % (mk, sp))
        contents['g%d' % i] = {'thermochem': obj}
    lib = GroupLibrary(None, contents)
    if not hasattr(lib, 'name'):
        lib.name = 'C'     # defect F1 (owned by C01/C15): Estimate needs lib.name, set only by GetDescriptors
    return lib


def build_estimate(lib, mapping):
    try:
        return lib.Estimate(mapping, 'thermochem'), 'ok'
    except Exception as e:
        return None, L.exc_name(e)


def spec_intersection(specs):
    rs = [sp['range'] for sp in specs if sp['range'] is not None]
    if not rs:
        return None
    return [max(r[0] for r in rs), min(r[1] for r in rs)]


def est_temps(rng, specs, er):
    temps = []
    if er is not None and er[0] <= er[1]:
        temps += L.bound_neighbours(er[0], er[1])[:11] + [L.between(rng, er[0], er[1])]
    for sp in specs:
        if sp['range'] is not None:
            temps += [sp['range'][0], sp['range'][1], L.nexta(sp['range'][0], False), L.nexta(sp['range'][1], True)]
        temps += [sp['tref']]
    if er is None:
        temps += [0.0, -3.0, 123.0]
    out, seen = [], set()
    for T in temps:
        if T not in seen and math.isfinite(T):
            seen.add(T)
            out.append(T)
    return out


def oracle_estimate(ctx, specs, counts, er, T, outs, inp):
    """C06 for an estimate, from the property text"""
    outside = er is not None and not (er[0] <= T <= er[1])
    cp_outside = [i for i, sp in enumerate(specs) if sp['pts'] and not L.in_rng(T, L.eff_range(sp))]
    for w, o in outs.items():
        if o.get('skip'):
            continue
        if outside:
            if 'ok' in o and not o['warn']:
                ctx.violation('an estimate returns a value outside its range with neither an error nor a warning',
                              dict(inp, property=w), expected='error or IncompleteDataWarning', observed=o)
            elif 'ok' in o and any(specs[i]['range'] is not None and not L.in_rng(T, specs[i]['range']) for i in cp_outside):
                ctx.violation('an estimate returns a value although a constituent with Cp data is outside its range',
                              dict(inp, property=w), expected='error', observed=o)
        else:
            if all(has_data(sp, w) for sp in specs):
                if cp_outside:
                    continue      # a constituent with Cp data but no declared range, outside its table: error is legitimate
                if 'ok' not in o:
                    ctx.violation('an estimate does not return a finite number inside its range', dict(inp, property=w),
                                  expected='finite value', observed=o)
            elif 'ok' in o:
                ctx.violation('an estimate returns a value although a constituent lacks the data', dict(inp, property=w),
                              expected='incomplete', observed=o)


def check_estimate(ctx, specs, counts, batch, key, lib=None, names=None, where=None):
    rng = ctx.rng
    if lib is None:
        lib = make_library(specs)
        names = ['g%d' % i for i in range(len(specs))]
    mapping = dict(zip(names, counts))
    est, mk = build_estimate(lib, mapping)
    inp0 = {'constituents': specs, 'counts': counts}
    if where:
        inp0.update(where)
    er = spec_intersection(specs)
    exp = 'assertion' if (er is not None and er[1] < er[0]) else 'ok'
    ctx.count('est_mk_' + mk)
    if mk != exp:
        ctx.violation('constructing the estimate: outcome differs from "range = intersection of the constituent ranges" '
                      '(an empty intersection is rejected)', inp0, expected=exp, observed=mk)
    jcors = lambda T, want: [[L.jspec(sp, L.oracle_for(sp, lib[nm]['thermochem'], T, want)), L.J(c)]
                             for sp, nm, c in zip(specs, names, counts)]
    if est is None:
        ctx.case(key + ('rejected',))
        batch.append(({'op': 'c06.est', 'cors': jcors(0.0, ()), 'T': L.J(0.0), 'want': []}, {'mk': mk}, inp0, None))
        return
    ir = L.impl_range(est)
    if ir != er:
        ctx.violation("the estimate's range is not the intersection of the ranges of its constituents", inp0, expected=er, observed=ir)
    # order independence of the reported range: same mapping inserted in another order
    perm = list(zip(names, counts))
    rng.shuffle(perm)
    est2, mk2 = build_estimate(lib, dict(perm))
    if mk2 != 'ok' or L.impl_range(est2) != ir:
        ctx.violation("the estimate's range depends on the order of the mapping", dict(inp0, other_order=[p[0] for p in perm]),
                      expected=ir, observed=[mk2, L.impl_range(est2) if est2 is not None else None])
    for T in est_temps(rng, specs, er):
        outs = {w: L.eval_impl(est, w, T, ctx.count) for w in L.WHICH}
        tc = tclass(T, er[0] if er else None, er[1] if er else None, None)
        for w in L.WHICH:
            o = outs[w]
            oc = 'ok' if 'ok' in o else o['err']
            ctx.case((key + (tc, w, oc, o['warn'])) if tc != 'inside' else None,
                     {'constituents': len(specs), 'range': er, 'T': T, 'property': w, 'outcome': o}
                     if tc == 'just_outside' and len(ctx.samples) < 12 else None)
            ctx.count('est_%s_%s%s' % (tc, oc, '_warn' if o['warn'] else ''))
        oracle_estimate(ctx, specs, counts, er, T, outs, dict(inp0, T=T))
        sc = {w: sum(abs(c) * L.scale_of(sp, w, T) for sp, c in zip(specs, counts)) for w in L.WHICH}
        batch.append(({'op': 'c06.est', 'cors': jcors(T, L.WHICH), 'T': L.J(T), 'want': list(L.WHICH)},
                      {'mk': 'ok', 'range': ir, 'outs': outs, 'scale': sc}, dict(inp0, T=T), None))


def gen_count(rng):
    return rng.choice([1, 1, 2, 3, 6, 0, -1, 0.5, 2.25, -0.75])


def estimates(ctx, batch, n):
    rng = ctx.rng
    for i in range(n):
        k = rng.choice([1, 2, 2, 3, 3, 4, 6])
        mode = rng.choice(['mixed', 'mixed', 'nested', 'touching', 'disjoint', 'norange', 'nocp'])
        specs = []
        base_lo = float(rng.choice([200, 250, 298]))
        for j in range(k):
            if mode == 'norange':
                sp = gen_spec(rng, 'grp', n=0, rkind='absent')
            elif mode == 'nocp':
                sp = gen_spec(rng, 'grp', n=0)
            else:
                sp = gen_spec(rng, 'grp', rkind=rng.choice(['present', 'present', 'half', 'absent']))
            if mode == 'nested' and sp['range'] is not None and not sp['pts']:
                sp['range'] = [base_lo + 10.0 * j, base_lo + 1500.0 - 100.0 * j]
                sp['tref'] = sp['range'][0]
            if mode == 'touching' and not sp['pts'] and sp['range'] is not None:
                sp['range'] = [base_lo, base_lo + 100.0] if j % 2 == 0 else [base_lo + 100.0, base_lo + 300.0]
                sp['tref'] = sp['range'][0]
            if mode == 'disjoint' and not sp['pts'] and sp['range'] is not None and j % 2 == 1:
                sp['range'] = [5000.0, 6000.0]
                sp['tref'] = 5000.0
            if rng.random() < 0.8:
                sp['href'] = sp['href'] if sp['href'] is not None else 1.25
                sp['sref'] = sp['sref'] if sp['sref'] is not None else 0.5
            specs.append(sp)
        counts = [gen_count(rng) for _ in specs]
        ctx.count('est_mode_' + mode)
        check_estimate(ctx, specs, counts, batch, ('est', k, mode))


def range_fold(ctx, batch, n):
    """the intersection fold alone, on many range lists, through estimates of constituents without Cp data"""
    rng = ctx.rng
    pool = [None, [298.0, 1000.0], [300.0, 1500.0], [250.0, 300.0], [300.0, 300.0], [100.0, 250.0], [298.15, 298.15],
            [1e-3, 1e6], [299.99999999999994, 300.00000000000006],
            # lower bounds at and below 0 K: a falsy bound must still take part in the intersection
            [0.0, 500.0], [0.0, 1000.0], [0.0, 0.0], [-10.0, 400.0]]
    for i in range(n):
        k = rng.randint(1, 7)
        rs = [rng.choice(pool) if rng.random() < 0.7 else sorted([float(rng.randint(1, 40) * 25), float(rng.randint(1, 40) * 25)])
              for _ in range(k)]
        specs = [{'kind': 'grp', 'href': 1.0, 'sref': 1.0, 'pts': [], 'tref': (r[0] if r else 298.0), 'range': r} for r in rs]
        lib = make_library(specs)
        est, mk = build_estimate(lib, dict(('g%d' % j, 1) for j in range(k)))
        er = spec_intersection(specs)
        exp = 'assertion' if (er is not None and er[1] < er[0]) else 'ok'
        ctx.case(('fold', k, exp, er is None))
        ctx.count('fold_' + mk)
        if mk != exp or (est is not None and L.impl_range(est) != er):
            ctx.violation("the estimate's range is not the intersection of the ranges of its constituents",
                          {'ranges': rs}, expected=[exp, er], observed=[mk, L.impl_range(est) if est is not None else None])
        batch.append(({'op': 'c06.range', 'ranges': [None if r is None else [L.J(r[0]), L.J(r[1])] for r in rs]},
                      {'fold': True, 'mk': mk, 'range': L.impl_range(est) if est is not None else None}, {'ranges': rs}, None))


def estimate_histories(ctx, batch, n):
    """estimate, merge a revision of the library that widens the constituents' ranges, estimate again with the same mapping on
    the same library object: the second estimate's range is the intersection of the ranges the constituents have NOW, and it
    guards exactly that range.  Also: an array of temperatures given to an estimate is range-checked like a scalar and is not
    altered."""
    import numpy as np
    import warnings
    rng = ctx.rng
    for i in range(n):
        k = rng.choice([2, 2, 3, 4])
        specs = [gen_spec(rng, 'grp', n=rng.choice([2, 3, 4, 6]), rkind='present') for _ in range(k)]
        for sp in specs:
            sp.pop('via_update', None)
        counts = [gen_count(rng) or 1 for _ in range(k)]
        lib = make_library(specs)
        names = ['g%d' % j for j in range(k)]
        ctx.count('estimate_histories')
        check_estimate(ctx, specs, counts, batch, ('history', 'first'), lib=lib, names=names, where={'history': 'first estimate'})
        wider = [dict(sp, range=[sp['range'][0] - float(rng.choice([0, 5, 40])), sp['range'][1] + float(rng.choice([0.5, 30, 200]))])
                 for sp in specs]
        lib.Update(make_library(wider), overwrite=True)
        check_estimate(ctx, wider, counts, batch, ('history', 'second'), lib=lib, names=names,
                       where={'history': 'estimate, Update(wider ranges, overwrite=True), estimate again', 'before': specs})
        # arrays of temperatures through the estimate made after the merge
        est, mk = build_estimate(lib, dict(zip(names, counts)))
        er = spec_intersection(wider)
        if est is None or er is None or er[1] <= er[0]:
            continue
        inside = 0.5 * (er[0] + er[1])
        for tag, arr in (('above', [inside, L.nexta(er[1], True)]), ('below', [L.nexta(er[0], False), inside]), ('far', [inside, er[1] + 400.0]),
                         ('inside', [er[0], inside, er[1]])):
            a = np.array(arr, dtype=float)
            ctx.count('estimate_array_' + tag)
            try:
                with warnings.catch_warnings(record=True) as rec:
                    warnings.simplefilter('always')
                    got = est.get_CpoR(a)
                out = [float(x) for x in np.asarray(got).ravel()]
            except Exception:
                out = None
            inp = {'constituents': wider, 'counts': counts, 'temperatures': arr}
            if [float(x) for x in a] != [float(x) for x in arr]:
                ctx.violation("the caller's array of temperatures is altered by the evaluation", inp, expected=arr, observed=[float(x) for x in a])
            cp_all = all(sp['pts'] for sp in wider)
            if tag != 'inside' and out is not None and cp_all:
                ctx.violation('Cp/R of an estimate is returned for an array of temperatures one of which lies outside its range', inp,
                              expected='error', observed=out)


def shipped_estimates(ctx, batch, per_lib):
    rng = ctx.rng
    for name in C5.library_names():
        try:
            lib = C5.load_library(name)
        except Exception as e:
            ctx.violation('shipped library does not load', {'library': name}, 'loads', repr(e)[:300])
            continue
        if not hasattr(lib, 'name'):
            lib.name = 'C'     # F1 work-around, see make_library
        groups = [g for g, ps in lib.contents.items() if 'thermochem' in ps]
        plain = [g for g in groups if not C5.spec_of_object(lib[g]['thermochem'])[1]]
        for i in range(per_lib):
            k = rng.choice([1, 2, 3, 5, 8])
            chosen = rng.sample(plain, min(k, len(plain)))
            specs = [C5.spec_of_object(lib[g]['thermochem'])[0] for g in chosen]
            counts = [gen_count(rng) for _ in chosen]
            ctx.count('shipped_estimates')
            check_estimate(ctx, specs, counts, batch, ('shipped_est', name, k), lib=lib, names=chosen,
                           where={'library': name, 'groups': [str(g) for g in chosen]})
        # bound neighbours of individual shipped groups (the loaded objects themselves)
        for g in rng.sample(plain, min(per_lib, len(plain))):
            th = lib[g]['thermochem']
            spec = C5.spec_of_object(th)[0]
            for T in single_temps(rng, spec)[:14]:
                outs = {w: L.eval_impl(th, w, T, ctx.count) for w in L.WHICH}
                ctx.case(None)
                ctx.count('shipped_single')
                inp = {'library': name, 'group': str(g), 'spec': spec, 'T': T}
                oracle_single(ctx, spec, T, outs, inp)
                batch.append(({'op': 'c05.eval', 'cor': L.jspec(spec, L.oracle_for(spec, th, T, L.WHICH)), 'T': L.J(T), 'want': list(L.WHICH)},
                              {'mk': 'ok', 'range': L.impl_range(th), 'outs': outs}, inp, spec))


def compare(ctx, batch):
    replies = ctx.model([b[0] for b in batch])
    if replies is None:
        return
    for (req, impl, inp, spec), rep in zip(batch, replies):
        op = req['op']
        ctx.count('corr_' + op)
        if impl.get('arr'):
            if rep.get('ok') != impl['ok']:
                ctx.disagree('corr:c06.check_arr', inp, impl['ok'], rep.get('ok'))
            continue
        if impl.get('fold'):
            m = {'mk': 'ok' if rep['accepted'] else 'assertion', 'range': L.model_range(rep) if rep['accepted'] else None}
            if m['mk'] != impl['mk'] or m['range'] != impl['range']:
                ctx.disagree('corr:c06.range', inp, impl, m)
            continue
        if rep.get('mk') != impl['mk']:
            ctx.disagree('corr:%s:constructor' % op, inp, impl['mk'], rep.get('mk'))
            continue
        if 'set' in impl and rep.get('set') != impl['set']:
            ctx.disagree('corr:%s:set_range outcome' % op, inp, impl['set'], rep.get('set'))
            continue
        ctx.count('model_mk_' + str(rep.get('mk')))
        if impl['mk'] != 'ok' or 'outs' not in impl:
            continue
        if L.model_range(rep) != impl['range']:
            ctx.disagree('corr:%s:range' % op, inp, impl['range'], L.model_range(rep))
        T = inp['T']
        for w, o in impl['outs'].items():
            if o.get('skip'):
                continue
            m = rep[w]
            ctx.count('model_%s_%s%s' % (w, 'ok' if 'ok' in m else m['err'], '_warn' if m.get('warn') else ''))
            sc = impl['scale'][w] if 'scale' in impl else L.scale_of(spec, w, T)
            if not L.same_outcome(o, m, sc):
                mm = dict(m)
                if 'ok' in mm:
                    mm['ok'] = float(common.unjrat(mm['ok']))
                ctx.disagree('corr:%s:%s' % (op, w), dict(inp, property=w), o, mm)


def anchored_functions():
    from pgradd.ThermoChem import ThermochemGroupAdditive
    return C5.anchored_functions() + [('group_data.__init__', ThermochemGroupAdditive.__init__),
                                      ('group_data.get_CpoR', ThermochemGroupAdditive.get_CpoR),
                                      ('group_data.get_HoRT', ThermochemGroupAdditive.get_HoRT),
                                      ('group_data.get_SoR', ThermochemGroupAdditive.get_SoR)]


# not reached on purpose: the array path of get_CpoR; `del self._correlation` (C13); S_elements=True (C07)
REACH_EXEMPT = {'raw_data.get_CpoR': 1, 'incomplete._setup_correlation': 1, 'group_data.get_SoR': 1}
FLOORS = {'single_just_outside_outside': 20, 'single_just_outside_incomplete': 20, 'single_just_outside_ok_warn': 5,
          'single_at_bound_ok': 50, 'single_just_inside_ok': 50, 'single_nonpositive_outside': 20, 'single_tref_ok_warn': 3,
          'single_nonpositive_nonfinite': 1, 'single_norange_ok_warn': 5, 'est_just_outside_incomplete': 20,
          'est_just_outside_ok_warn': 10, 'est_at_bound_ok': 30, 'est_mk_assertion': 3, 'est_norange_ok_warn': 5,
          'fold_assertion': 20, 'fold_ok': 20, 'shipped_estimates': 20, 'shipped_single': 100, 'mk_value': 10,
          'model_h_nonfinite': 1, 'model_h_ok_warn': 20, 'model_cp_outside': 20,
          'range_change_exclude_raw_ok': 30, 'range_change_exclude_inc_ok': 10, 'range_change_exclude_inc_value': 30,
          'range_change_T_tref_outside': 20, 'range_change_T_at_min_outside': 10, 'range_change_T_at_max_outside': 10,
          'range_change_T_old_lo_outside': 10, 'range_change_T_old_hi_outside': 10, 'range_change_pre_evaluated': 60,
          'corr_c06.raw_set_range': 500}


def run(ctx):
    with L.Reach(anchored_functions()) as reach:
        run_inner(ctx)
    C5.check_reach(ctx, reach, FLOORS, REACH_EXEMPT)


def run_inner(ctx):
    for fname, rec in common.load_corpus('C06'):
        ctx.count('corpus')
        replay(ctx, rec)
    batch = []
    singles(ctx, batch, ctx.n(150, 4000))
    batch5 = []
    C5.constructor_cases(ctx, batch5, ctx.n(60, 1200))      # the range must contain the table and T_ref (raw_data.py:51-63)
    C5.compare_batch(ctx, batch5, 'corr:c05.eval')
    range_changes(ctx, batch, ctx.n(360, 8000))
    estimates(ctx, batch, ctx.n(120, 3000))
    estimate_histories(ctx, batch, ctx.n(25, 400))
    range_fold(ctx, batch, ctx.n(400, 20000))
    shipped_estimates(ctx, batch, ctx.n(6, 60))
    compare(ctx, batch)


def targeted_shipped(ctx, batch):
    """search step after a broken table obligation (C06_tab_shipped_ranges): the shipped groups whose range is missing,
    reaches T <= 0, or does not contain T_ref / the table, evaluated at every bound neighbour"""
    for name in C5.library_names():
        try:
            lib = C5.load_library(name)
        except Exception as e:
            ctx.violation('shipped library does not load', {'library': name}, 'loads', repr(e)[:300])
            continue
        for g, ps in lib.contents.items():
            th = ps.get('thermochem')
            if th is None:
                continue
            spec, qdata = C5.spec_of_object(th)
            r = spec['range']
            ts = [p[0] for p in spec['pts']]
            okrow = (r is not None and 0 < r[0] <= r[1] and r[0] <= spec['tref'] <= r[1]
                     and (not ts or (r[0] <= min(ts) and max(ts) <= r[1])))
            if okrow:
                continue
            ctx.count('targeted_shipped_groups')
            temps = single_temps(ctx.rng, spec) + [0.0]
            for T in temps:
                outs = {w: L.eval_impl(th, w, T, ctx.count) for w in L.WHICH}
                ctx.case(('targeted', name, str(g), T))
                if qdata:
                    outs = {w: o for w, o in outs.items() if o.get('err') not in C5.F12_ERRORS}
                oracle_single(ctx, spec, T, outs, {'library': name, 'group': str(g), 'spec': spec, 'T': T})


def search(ctx):
    batch = []
    targeted_shipped(ctx, batch)
    if not ctx.violations:
        run(ctx)


def replay(ctx, rec):
    inp = C5.replay_input(rec)
    if inp is None:
        return True
    before = len(ctx.violations)
    batch = []
    if 'ranges' in inp:
        rs = inp['ranges']
        specs = [{'kind': 'grp', 'href': 1.0, 'sref': 1.0, 'pts': [], 'tref': (r[0] if r else 298.0), 'range': r} for r in rs]
        check_estimate(ctx, specs, [1] * len(specs), batch, ('replay',))
    elif 'library' in inp and 'groups' in inp:
        lib = C5.load_library(inp['library'])
        if not hasattr(lib, 'name'):
            lib.name = 'C'
        names = [g for g in lib.contents if str(g) in inp['groups']]
        names.sort(key=lambda g: inp['groups'].index(str(g)))
        specs = [C5.spec_of_object(lib[g]['thermochem'])[0] for g in names]
        check_estimate(ctx, specs, inp['counts'], batch, ('replay',), lib=lib, names=names, where={'library': inp['library'], 'groups': inp['groups']})
    elif 'library' in inp and 'group' in inp:
        lib = C5.load_library(inp['library'])
        for g, ps in lib.contents.items():
            if str(g) == inp['group'] and 'thermochem' in ps:
                th = ps['thermochem']
                spec, qdata = C5.spec_of_object(th)
                T = inp.get('T', spec['tref'])
                for t in (T if isinstance(T, list) else [T]):
                    outs = {w: L.eval_impl(th, w, float(t), ctx.count) for w in L.WHICH}
                    if qdata:
                        outs = {w: o for w, o in outs.items() if o.get('err') not in C5.F12_ERRORS}
                    oracle_single(ctx, spec, float(t), outs, dict(inp, T=float(t)))
    elif 'constituents' in inp:
        check_estimate(ctx, inp['constituents'], inp['counts'], batch, ('replay',))
    elif 'set_range' in inp:
        replay_range_change(ctx, inp)
    else:
        spec = inp['spec']
        T = inp.get('T')
        Ts = T if isinstance(T, list) else ([T] if T is not None else None)
        temps = None
        if Ts is not None:
            temps = [float(t) for t in Ts]
        check_single(ctx, spec, batch, ('replay',), temps=temps)
    return len(ctx.violations) == before


def replay_range_change(ctx, inp):
    spec, new = inp['spec'], inp['set_range']
    obj, mk = L.build_impl(spec)
    if obj is None:
        return
    for T in [spec['tref']] + [p[0] for p in spec['pts']] + list(spec['range']):
        for w in L.WHICH:
            L.eval_impl(obj, w, T)
    try:
        with warnings.catch_warnings():
            warnings.simplefilter('ignore')
            obj.set_range(tuple(new))
        st = 'ok'
    except Exception as e:
        st = L.exc_name(e)
    reported = L.impl_range(obj)
    want_range = new if st == 'ok' else list(spec['range'])
    if reported != want_range:
        ctx.violation('after set_range() the correlation does not report the range it should', inp, expected=want_range, observed=reported)
    T = inp.get('T')
    has = {w: has_data(spec, w) for w in L.WHICH}
    for t in (T if isinstance(T, list) else [T] if T is not None else [spec['tref']]):
        outs = {w: L.eval_impl(obj, w, float(t), ctx.count) for w in L.WHICH}
        oracle_reported(ctx, bool(spec['pts']), has, reported, float(t), outs, dict(inp, T=float(t)))


LEVEL_TEXT = ('Lean 4 theorems, for every list of constituents of any length in any order and every temperature: the estimate range is the '
              'intersection (sup of lows, inf of highs, none iff none, order-free, empty intersection rejected); outside the range a table '
              'correlation and a correlation with Cp data raise, a correlation without Cp data warns, an estimate raises or carries the '
              'warning; inside the range (positive lower end) every property with data is a value, never an error outcome or a division by '
              'zero. The model is tied to the code by a correspondence run at the nextafter neighbours of every bound, through the real '
              'GroupLibrary.Estimate API and over every shipped library. Right level: the quantifier is over all correlations, mappings '
              'and temperatures, which only a proof covers.')
LEVEL_NOTE = ('Trusted: Lean kernel; axioms propext/Classical.choice/Quot.sound; the correspondence harness; the rational abstraction of '
              'doubles - "finite" is proved as "a value, no error outcome, no division by zero" and observed with math.isfinite on the runs; '
              'A-spline. Modelled not verified: base.py check_range, raw_data.py, incomplete.py evaluation wrappers, group_data.py range fold '
              'and sums. Theorems about values assume 0 < range lower end.')
TECHNIQUE = 'Lean 4 proof over hand-written model + correspondence check at range-bound neighbours (warnings and error classes included)'
