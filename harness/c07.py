"""C07 — dimensional results are the non-dimensional ones times R (and T); elemental-entropy offset.

Proof: lean/PGA/Props/C07.lean over the model PGA/Model/Estimate.lean of ThermochemBase.get_H/get_G/get_S/get_Cp/get_GoRT
(pgradd/ThermoChem/base.py) and ThermochemGroupAdditive.get_Selements/get_SoR (group_data.py); table obligations over the
regenerated pmutt tables (harness/gen/pmutt.py -> PGA/Gen/Pmutt.lean).
Tie: every unit string the gas-constant table accepts (and rejected spellings) x estimates and group correlations x T x
S_elements flags against the model driver.  Oracle: the product identities, G = H - T*S, the unit ratios, the hand-written
conversion factors and the elemental offset computed from an independent atom count, directly on the implementation.
"""
import math, json
from fractions import Fraction
from . import common
from . import lib_estimate as L

PROPS = ['PGA.Props.C07']
GEN = ['Pmutt', 'Uq']
OBLIGATIONS = ['PGA.Estimate.' + t for t in [
    'C07_H', 'C07_G', 'C07_S', 'C07_Cp', 'C07_G_eq_H_minus_TS', 'C07_G_exists', 'C07_units_H', 'C07_units_G', 'C07_units_S',
    'C07_units_Cp', 'C07_bad_units', 'C07_selements', 'C07_falsy_flags', 'C07_S_offset', 'C07_G_offset', 'C07_Sdim_offset',
    'C07_sel_error', 'C07_corr_ignores_flag', 'C07_tab_units_ref', 'C07_tab_R_SI', 'C07_tab_exact_ratios', 'C07_tab_keys',
    'C07_tab_doc_units', 'C07_tab_selements', 'C07_conversion', 'C07_tab_conversion']]
RULE = ('case = (correlation object, T, unit string, S_elements flag).  Objects: estimates of molecules decomposed immediately before '
        '(seed list + generated chains with OH/=O/branch/Pt substituents, per library), estimates of random mappings, and the own '
        'correlation of groups of every shipped library.  Unit strings: EVERY key the gas-constant table accepts, every key with the '
        '"/K" suffix removed (what get_H/get_G take) and rejected spellings.  Flags: None, True, False, 0, 1, "", "yes".  T: range '
        'ends, knots, interior, outside.  A case is non-trivial when the object is an estimate of >= 2 descriptors or a group '
        'correlation with heat-capacity data; distinct = distinct (library, object, T).')
ASSUMPTIONS = ['A-pmutt: pmutt.constants.R(u) and S_elements[Z] are the tables dumped by the translator on this run (same process)',
               'A-graph: the atom list of AddHs(MolFromSmiles(name)) is "the molecule" (RDKit); the oracle counts atoms by an independent '
               'route (heavy atoms + GetTotalNumHs) and the two are compared on every molecule',
               'float products are modelled in exact rationals; comparison under 1e-9 relative tolerance',
               'reference conversion factors (PGA/Spec/Estimate.lean refUnitInSI, mirrored in REF_SI below) are hand-written']
TRUSTED = ['modelled, not verified: ThermochemBase.get_GoRT/get_H/get_G/get_S/get_Cp (base.py), get_Selements/get_SoR (group_data.py)',
           'pmutt constant tables (external; dumped, and checked against hand-written reference factors to 1e-7 relative)']

FLAGS = [None, True, False, 0, 1, '', 'yes']
# value of one unit in J/(mol K): the hand-written reference table of PGA/Spec/Estimate.lean
F = Fraction
REF_SI = {'J/mol/K': F(1), 'kJ/mol/K': F(1000), 'L kPa/mol/K': F(1), 'cm3 kPa/mol/K': F(1, 1000), 'm3 Pa/mol/K': F(1),
          'cm3 MPa/mol/K': F(1), 'm3 bar/mol/K': F(100000), 'L bar/mol/K': F(100), 'L torr/mol/K': F(101325, 760000),
          'cal/mol/K': F(4184, 1000), 'kcal/mol/K': F(4184), 'L atm/mol/K': F(101325, 1000), 'cm3 atm/mol/K': F(101325, 1000000),
          'eV/K': F(9648533289, 100000), 'Eh/K': F(2721138602, 100000000) * F(9648533289, 100000),
          'Ha/K': F(2721138602, 100000000) * F(9648533289, 100000)}
SEEDS_GAS = ['C', 'CC', 'CCC', 'CC(C)C', 'CCCC', 'CC(C)(C)C', 'CO', 'CCO', 'OCCO', 'CC(O)C', 'COC', 'CC=O', 'CC(=O)C', 'CC(=O)O', 'C=C',
             'CC=C', 'C=CC=C', 'C#C', 'c1ccccc1', 'Cc1ccccc1', 'C1CCCCC1', 'C1CC1', 'OC=O', 'O', 'C=O', 'OCC(O)CO', 'CC(C)=O', 'CN', 'CCN', 'OO']
# hydrogens written inside bracket atoms (radicals, explicit-H spellings): they are atoms of the molecule like any other
BRACKET_H_GAS = ['C[CH2]', '[CH3]', 'C[CH]C', '[CH3][CH3]', '[CH2]1[CH2][CH2]1', 'C[OH]', '[CH2]=[CH2]', 'CC[CH2]', '[CH4]']
BRACKET_H_SURF = ['[Pt][CH2][Pt]', '[CH3][Pt]', 'O[CH2][Pt]', '[Pt][CH]([Pt])C', '[CH3][CH2][Pt]']
SEEDS_SURF = ['C[Pt]', 'C([Pt])([Pt])', 'C([Pt])([Pt])[Pt]', 'CC[Pt]', 'CC([Pt])[Pt]', 'C([Pt])C[Pt]', 'OC[Pt]', 'O[Pt]', 'OCC[Pt]', 'O=C[Pt]',
              'CC(=O)[Pt]', 'OC(C)[Pt]', 'C(O)(O)[Pt]', 'OCC(O)[Pt]', '[Pt]OC', 'CC(O[Pt])', 'C([Pt])(O)C(O)[Pt]', 'O=CC[Pt]', 'C(=O)([Pt])O',
              '[Pt]C(=O)C[Pt]', 'OC(=O)[Pt]', 'C(C)(C)[Pt]', 'CCC[Pt]', 'CC([Pt])C', '[Pt]CC(O)C[Pt]', 'C([Pt])([Pt])O[Pt]', '[Ru]C']


def unit_universe():
    """every accepted key, every key without '/K', and rejected spellings (from the live function, via the translator's probe)"""
    from .gen import pmutt as G
    acc, rej = G.r_table()
    keys = [u for u, _ in acc]
    stripped = [u[:-2] for u in keys if u.endswith('/K')]
    return keys, stripped, rej


def random_smiles(rng, surface):
    n = rng.randint(1, 5)
    parts = []
    for i in range(n):
        r = rng.random()
        sub = ''
        if r < 0.22:
            sub = '(O)'
        elif r < 0.32:
            sub = '(C)'
        elif r < 0.38:
            sub = '(=O)' if 0 < i < n - 1 or n == 1 else ''
        elif surface and r < 0.62:
            sub = '([Pt])'
        parts.append('C' + sub)
    s = ''.join(parts)
    if surface and rng.random() < 0.3:
        s += '[Pt]'
    elif rng.random() < 0.2:
        s += 'O'
    return s


def atom_count_oracle(smiles):
    """{Z: count} by a route independent of AddHs: heavy atoms plus their total hydrogen counts"""
    from rdkit import Chem
    m = Chem.MolFromSmiles(smiles)
    cnt = {}
    for a in m.GetAtoms():
        cnt[a.GetAtomicNum()] = cnt.get(a.GetAtomicNum(), 0) + 1
        h = a.GetTotalNumHs()
        if h:
            cnt[1] = cnt.get(1, 0) + h
    return cnt


def rel_close(a, b, rel=1e-9, scale=0.0):
    return abs(float(a) - float(b)) <= rel * (abs(float(a)) + abs(float(b)) + scale) + 1e-300


# ---------------------------------------------------------------------- the oracle (implementation vs the statement)
def oracle_object(ctx, inp, ev, T, units, flags, keys, sel_sum=None, is_estimate=True, f12=False):
    """ev = L.eval_object(...) of one correlation object"""
    import pgradd.ThermoChem.base as base
    Tf = float(T)

    def R(u):
        try:
            return base.c.R(u)
        except KeyError:
            return None

    def expect(nd, factor):
        if nd[0] == 'err':
            # which of two due errors is raised is not part of the statement (the tie with the model pins the order)
            return nd if factor is not None else ('err', 'any')
        if factor is None:
            return ('err', 'KeyError')
        return ('ok', float(nd[1]) * factor)

    def check(what, got, exp, scale=0.0):
        if exp[0] == 'err':
            if got[0] != 'err' or (exp[1] in ('incomplete', 'KeyError', 'noMolecule') and got[1] != exp[1]):
                ctx.violation(what + ': wrong outcome', inp, exp, got)
                return False
            return True
        if got[0] != 'ok':
            if f12 and got[1] == 'unitsF12':
                return True
            ctx.violation(what + ': error although the non-dimensional value exists and the unit is supported', inp, exp, got)
            return False
        if not rel_close(got[1], exp[1], scale=scale):
            ctx.violation(what + ' is not the non-dimensional value times R (and T)', inp, exp[1], float(got[1]))
            return False
        return True

    for ui, u in enumerate(units):
        rk, r1 = R(u + '/K'), R(u)
        for fi, f in enumerate(flags):
            d = ev['dim'][ui][fi]
            if d is None:
                continue
            ctx.count('dim_cases')
            ctx.count('unit_%s' % ('HG' if rk is not None else 'SCp' if r1 is not None else 'rejected'))
            w = ' units=%r flag=%r' % (u, f)
            check('H' + w, d['H'], expect(ev['h'], None if rk is None else Tf * rk))
            check('G' + w, d['G'], expect(ev['g'][fi], None if rk is None else Tf * rk))
            check('S' + w, d['S'], expect(ev['s'][fi], r1))
            check('Cp' + w, d['Cp'], expect(ev['cp'], r1))
    # G = H - T*S(u/K) and G/RT = H/RT - S/R
    for fi, f in enumerate(flags):
        h, s, g = ev['h'], ev['s'][fi], ev['g'][fi]
        if h[0] == s[0] == 'ok':
            if g[0] != 'ok' or not rel_close(g[1], float(h[1]) - float(s[1]), scale=abs(float(h[1])) + abs(float(s[1]))):
                ctx.violation('G/RT is not H/RT - S/R', dict(inp, flag=f), float(h[1]) - float(s[1]), g)
    by_unit = {u: i for i, u in enumerate(units)}
    for u in units:
        if u + '/K' in by_unit and R(u + '/K') is not None:
            for fi, f in enumerate(flags):
                a, b = ev['dim'][by_unit[u]][fi], ev['dim'][by_unit[u + '/K']][fi]
                if a is None or b is None:
                    continue
                if a['H'][0] == a['G'][0] == b['S'][0] == 'ok':
                    ctx.count('G=H-TS')
                    rhs = float(a['H'][1]) - Tf * float(b['S'][1])
                    if not rel_close(a['G'][1], rhs, scale=abs(float(a['H'][1])) + abs(Tf * float(b['S'][1]))):
                        ctx.violation('G(T,u) is not H(T,u) - T*S(T,u/K)', dict(inp, units=u, flag=f), rhs, float(a['G'][1]))
    # two units differ by the ratio of the table entries, and by the hand-written conversion factor
    for fi, f in enumerate(flags):
        for what, key, suffix in (('H', 'H', '/K'), ('G', 'G', '/K'), ('S', 'S', ''), ('Cp', 'Cp', '')):
            vals = []
            for u in units:
                d = ev['dim'][by_unit[u]][fi]
                if d is not None and d[key][0] == 'ok' and (u + suffix) in REF_SI and R(u + suffix) is not None:
                    vals.append((u, float(d[key][1]), R(u + suffix), float(REF_SI[u + suffix])))
            for (u1, v1, r1, f1), (u2, v2, r2, f2) in zip(vals, vals[1:]):
                ctx.count('unit_pairs')
                if not rel_close(v1 * r2, v2 * r1):
                    ctx.violation('%s in two units does not differ by the ratio of the gas-constant entries' % what,
                                  dict(inp, units=[u1, u2], flag=f), v2 * r1, v1 * r2)
                # X(u) * (value of u in SI) is the same quantity in SI for every u (8 significant digits in the table)
                if not rel_close(v1 * f1, v2 * f2, rel=2e-7):
                    ctx.violation('%s in two units does not differ by the conversion factor between the units' % what,
                                  dict(inp, units=[u1, u2], flag=f), v2 * f2, v1 * f1)
    # elemental clause
    s0, g0 = ev['s'][flags.index(None)], ev['g'][flags.index(None)]
    for fi, f in enumerate(flags):
        s, g = ev['s'][fi], ev['g'][fi]
        if not f or not is_estimate:
            # falsy flag (or a group's own correlation, which ignores the argument): identical to the plain value
            for a, b, w in ((s, s0, 'S/R'), (g, g0, 'G/RT')):
                if a[0] != b[0] or (a[0] == 'ok' and float(a[1]) != float(b[1])) or (a[0] == 'err' and a[1] != b[1]):
                    ctx.violation('%s changes with a falsy / ignored S_elements argument' % w, dict(inp, flag=f), b, a)
            continue
        ctx.count('elemental_cases')
        if sel_sum is None:
            continue
        if sel_sum[0] == 'err':
            if s[0] != 'err':
                ctx.violation('S/R relative to the elements returns a value although %s' % sel_sum[1], dict(inp, flag=f), sel_sum, s)
            continue
        if s0[0] == 'ok':
            if s[0] != 'ok' or not rel_close(s[1], float(s0[1]) - sel_sum[1], scale=abs(float(s0[1])) + sel_sum[1]):
                ctx.violation('S/R relative to the elements is not S/R minus the sum of the elemental entropies over all atoms',
                              dict(inp, flag=f), float(s0[1]) - sel_sum[1], s)
        if g0[0] == 'ok':
            if g[0] != 'ok' or not rel_close(g[1], float(g0[1]) + sel_sum[1], scale=abs(float(g0[1])) + sel_sum[1]):
                ctx.violation('G/RT relative to the elements is not G/RT plus the elemental sum', dict(inp, flag=f),
                              float(g0[1]) + sel_sum[1], g)


def elemental_sum(smiles):
    import pgradd.ThermoChem.group_data as gd
    try:
        cnt = atom_count_oracle(smiles)
    except Exception:
        return ('err', 'noMolecule')
    tot = 0.0
    for z, k in sorted(cnt.items()):
        if z not in gd.c.S_elements:
            return ('err', 'KeyError')
        tot += k * gd.c.S_elements[z]
    return ('ok', tot)


def deferred_elemental(ctx):
    """Estimates made right after decomposing their molecules, but evaluated only after further molecules were decomposed with
    the same library: each estimate's elemental offset is still that of ITS molecule (the estimate was made for it)."""
    rng = ctx.rng
    for name in L.shipped_names():
        info = L.shipped(name)
        surface = name not in ('BensonGA', 'PPY')
        made = []
        for smi in rng.sample(SEEDS_SURF if surface else SEEDS_GAS, 6):
            try:
                with L.quiet():
                    desc = info.lib.GetDescriptors(smi)
                    est = info.lib.Estimate(desc, 'thermochem')
                made.append((smi, est))
            except Exception:
                continue
        for smi, est in made:
            sel = elemental_sum(smi)
            if sel[0] != 'ok':
                continue
            try:
                with L.quiet():
                    r = est.get_range()
                    T = 298.15 if r is None else min(max(298.15, float(r[0])), float(r[1]))
                    a, b = float(est.get_SoR(T)), float(est.get_SoR(T, S_elements=True))
            except Exception:
                ctx.count('deferred_eval_error')
                continue
            ctx.case(('deferred', name, smi), None)
            ctx.count('deferred_elemental')
            if not rel_close(a - b, sel[1], scale=abs(a) + sel[1]):
                ctx.violation("an estimate's elemental offset is not that of the molecule it was made for once other molecules "
                              'have been decomposed with the same library', {'library': name, 'smiles': smi,
                              'decomposed_before_evaluation': [m for m, _ in made]}, sel[1], a - b)


# ---------------------------------------------------------------------- generators
def pick_pairs(rng, units, flags, keys, stripped):
    """all units with flags None/True; all flags with two units"""
    pairs = set()
    for ui in range(len(units)):
        pairs.add((ui, flags.index(None)))
        pairs.add((ui, flags.index(True)))
    for ui in rng.sample(range(len(units)), 2):
        for fi in range(len(flags)):
            pairs.add((ui, fi))
    return pairs


def estimate_cases(ctx, batch, keys, stripped, rej):
    rng = ctx.rng
    for name in L.shipped_names():
        info = L.shipped(name)
        surface = name not in ('BensonGA', 'PPY')
        pool = list(SEEDS_GAS) + (list(SEEDS_SURF) if surface else [])
        pool += [random_smiles(rng, surface) for _ in range(ctx.n(30, 200))]
        rng.shuffle(pool)
        br = list(BRACKET_H_SURF if surface else BRACKET_H_GAS)
        rng.shuffle(br)
        pool = br[:4] + pool          # a few bracket-hydrogen spellings always come first
        done = 0
        want = ctx.n(10, 50)
        units = keys + stripped + rng.sample(rej, min(4, len(rej)))
        for smi in pool:
            if done >= want:
                break
            try:
                with L.quiet():
                    desc = info.lib.GetDescriptors(smi)       # decomposition immediately before the estimate
            except Exception as e:
                ctx.count('decompose_fail_' + type(e).__name__)
                continue
            mapping = list(desc.items())
            if any(str(k) not in info.corr for k, _ in mapping):
                ctx.count('decompose_missing_data')
                continue
            T = L.temperatures(info, rng, [str(k) for k, _ in mapping], 1)[0]
            flags = list(FLAGS)
            c = L.run_case(info, mapping, T, units=units, flags=flags, dim_pairs=pick_pairs(rng, units, flags, keys, stripped))
            if 'err' in c.impl:
                ctx.count('estimate_fail_' + c.impl['err']['class'])
                batch.append(('est', c))
                continue
            done += 1
            c.input['smiles'] = smi
            f12 = any(str(k) in info.f12 for k, _ in mapping)
            sel = elemental_sum(smi)
            # A-graph: the independent atom count agrees with the atom list the model is given
            atoms = c.request['lib']['name']
            cnt = {}
            for z in atoms or []:
                cnt[z] = cnt.get(z, 0) + 1
            if getattr(info.lib, 'name', None) != smi:
                # the library's record of the molecule it decomposed last is what the elemental reference is computed from
                ctx.violation('after decomposing a molecule the library does not hold it as the molecule of the estimate that follows '
                              '(the elemental reference is then that of another molecule)', c.input, smi, getattr(info.lib, 'name', None))
                continue
            if atoms is None or cnt != atom_count_oracle(smi):
                raise common.MachineryError('atom count of %r differs between AddHs and the heavy-atom/H-count route' % smi)
            ctx.count('molecules')
            ctx.count('molecule_atoms_%s' % ('1-5' if len(atoms) <= 5 else '6-12' if len(atoms) <= 12 else '13+'))
            ctx.case((name, smi, L.enc_num(T)) if len(mapping) >= 2 else None,
                     {'library': name, 'smiles': smi, 'T': float(T), 'descriptors': {str(k): float(v) for k, v in mapping}}
                     if rng.random() < 0.1 else None)
            oracle_object(ctx, c.input, c.impl['ok'], T, units, flags, keys, sel_sum=sel, is_estimate=True, f12=f12)
            batch.append(('est', c))
        if done < min(3, want):
            raise common.MachineryError('%s: only %d generated molecules could be decomposed and estimated' % (name, done))
        # molecules without an elemental entropy / no molecule at all: the error clause of the offset
        mapping = [(rng.choice([n for n in info.names if n in info.corr]), 1)]
        for bad in ('[Tc]', 'not a smiles', None):
            if bad is None:
                info.lib.name = None
            else:
                try:
                    with L.quiet():
                        info.lib.GetDescriptors(bad)
                except Exception:
                    pass
            T = L.temperatures(info, rng, [mapping[0][0]], 1)[0]
            c = L.run_case(info, mapping, T, units=units[:3], flags=[None, True])
            if 'ok' in c.impl:
                ctx.count('elemental_error_cases')
                ctx.case(None)
                sel = ('err', 'KeyError') if bad == '[Tc]' else ('err', 'noMolecule')
                oracle_object(ctx, dict(c.input, decomposed_before=bad), c.impl['ok'], T, units[:3], [None, True], keys, sel_sum=sel,
                              f12=mapping[0][0] in info.f12)
            batch.append(('est', c))
        info.lib.name = None


def correlation_cases(ctx, batch, keys, stripped, rej):
    """a group's own correlation offers the same getters"""
    rng = ctx.rng
    for name in L.shipped_names():
        info = L.shipped(name)
        pool = [n for n in info.names if n in info.corr]
        pick = pool if ctx.thorough() else rng.sample(pool, min(ctx.n(10, 0), len(pool)))
        units = keys + stripped + rng.sample(rej, min(3, len(rej)))
        for nm in pick:
            for T in L.temperatures(info, rng, [nm], ctx.n(1, 2)):
                flags = [None, True, 0]
                corr = info.corr[nm]
                ev = L.eval_object(corr, T, units, flags, info, [nm])
                inp = {'library': name, 'group': nm, 'T': L.enc_num(T), 'object': 'group correlation'}
                ctx.case((name, nm, L.enc_num(T)) if getattr(corr, 'ND_Cp_data', None) else None, None)
                ctx.count('group_correlations')
                oracle_object(ctx, inp, ev, T, units, flags, keys, sel_sum=None, is_estimate=False, f12=nm in info.f12)
                req = {'op': 'c07.corr', 'corr': info.corr_json(nm, T), 'T': common.jrat(L.exact(T)), 'units': units,
                       'flags': [L.flag_json(f) for f in flags]}
                batch.append(('corr', (info, nm, T, units, flags, ev, inp, req)))


MUT_TABLES = [{300.0: 2.0, 500.0: 2.5, 1000.0: 3.0}, {298.15: 4.0, 400.0: 4.4, 600.0: 5.1, 800.0: 5.5, 1200.0: 6.0}, {350.0: 1.25}]


def mutation_case(ctx, kind, how, ti, T, u):
    """the dimensional getters of an object that was already asked at T, after its data changed in place: they are the
    non-dimensional getters of the SAME object NOW times R (and T) — for a group correlation (update / withdrawn point)
    and for an estimate whose library was revised with overwrite"""
    import warnings
    from pgradd.ThermoChem import ThermochemGroup
    from pgradd.GroupAdd.Library import GroupLibrary
    from pgradd.GroupAdd.Group import Group
    table = dict(MUT_TABLES[ti])
    rngT = (200.0, 1500.0)
    inp = {'object': kind, 'change': how, 'table': sorted(table.items()), 'T': T, 'units': u, 'mutation': True, 'ti': ti}
    with warnings.catch_warnings(), L.quiet():
        warnings.simplefilter('ignore')
        g = ThermochemGroup(-12.5, 3.25, table, 298.15, rngT)
        g2 = ThermochemGroup(7.0, 1.5, dict(table), 298.15, rngT)
        if kind == 'estimate':
            lib = GroupLibrary(None, [(Group.parse(None, 'C(C)(H)3'), {L.SET: g}), (Group.parse(None, 'C(C)2(H)2'), {L.SET: g2})])
            obj = lib.Estimate({'C(C)(H)3': 2, 'C(C)2(H)2': 1}, L.SET)
        else:
            obj = g
        su = u + '/K'

        def dims():
            return {'H': obj.get_H(T, u), 'G': obj.get_G(T, u), 'S': obj.get_S(T, su), 'Cp': obj.get_Cp(T, su)}
        before = dims()
        rev = ThermochemGroup(-9.0, 4.5, dict((t, v + 0.75) for t, v in table.items()), 298.15, rngT)
        if how == 'update':
            if kind == 'estimate':
                lib.Update(GroupLibrary(None, [(Group.parse(None, 'C(C)(H)3'), {L.SET: rev})]), overwrite=True)
            else:
                g.update(rev, overwrite=True)
        else:
            tx = 0.5 * (min(table) + 250.0) if len(table) == 1 else 0.5 * (sorted(table)[0] + sorted(table)[1])
            more = ThermochemGroup(None, None, {tx: 9.5}, 298.15, rngT)
            g.update(more)
            dims()
            g.del_ND_Cp(tx)
            g.update(rev, overwrite=True)
        after = dims()
        R = L.rfactor(su)
        want = {'H': obj.get_HoRT(T) * T * R, 'G': obj.get_GoRT(T) * T * R, 'S': obj.get_SoR(T) * R, 'Cp': obj.get_CpoR(T) * R}
    ctx.count('mutation_cases')
    ctx.case(json.dumps([kind, how, ti, T, u]), None)
    for k in ('H', 'G', 'S', 'Cp'):
        if not rel_close(float(after[k]), float(want[k])):
            ctx.violation('%s of an object whose data changed in place is not its own non-dimensional value times R%s' % (k, '·T' if k in 'HG' else ''),
                          dict(inp, quantity=k), float(want[k]), float(after[k]))
            return
    if all(rel_close(float(before[k]), float(after[k])) for k in ('H', 'S')):
        raise common.MachineryError('mutation case changed nothing: %r' % (inp,))


def mutation_cases(ctx):
    for kind in ('group correlation', 'estimate'):
        for how in ('update', 'withdrawn point'):
            for ti in range(len(MUT_TABLES)):
                for T in (300.0, 512.5) if not ctx.thorough() else (250.0, 298.15, 300.0, 512.5, 1000.0, 1400.0):
                    for u in ('kJ/mol', 'kcal/mol') if not ctx.thorough() else ('kJ/mol', 'kcal/mol', 'J/mol', 'cal/mol', 'eV'):
                        if L.rfactor(u + '/K') is not None:
                            mutation_case(ctx, kind, how, ti, T, u)


def run(ctx):
    batch = []
    keys, stripped, rej = unit_universe()
    ctx.count('units_accepted', len(keys))
    ctx.count('units_rejected_probes', len(rej))
    for fname, rec in common.load_corpus('C07'):
        ctx.count('corpus')
        replay(ctx, rec)
    import time
    t0 = time.time()
    estimate_cases(ctx, batch, keys, stripped, rej)
    t1 = time.time()
    correlation_cases(ctx, batch, keys, stripped, rej)
    deferred_elemental(ctx)
    mutation_cases(ctx)
    t2 = time.time()
    ctx.extra.setdefault('coverage', {})['phase_seconds'] = {'estimates': round(t1 - t0, 1), 'group_correlations': round(t2 - t1, 1)}
    reqs = [dict(x.request, op='c07.estimate') if kind == 'est' else x[7] for kind, x in batch]
    replies = ctx.model(reqs)
    if replies is None:
        return
    for (kind, x), rep in zip(batch, replies):
        ctx.count('corr_' + kind)
        if kind == 'est':
            L.compare(ctx, x, rep, 'c07.estimate', parts=('nd', 'dim'))
        else:
            info, nm, T, units, flags, ev, inp, req = x
            sc = {p: abs(float(info.group_val(nm, p, T)[1] or 0.0)) for p, _ in L.ND_PROPS}

            def bad(what, i, m, inp=inp):
                ctx.disagree('corr:c07.corr', dict(inp, part=what), i, m)
                return False
            L.compare_object(info, ev, rep, sc, float(T), units, flags, 0.0, ('nd', 'dim'), bad)
    L.floors(ctx, {'units_accepted': 16, 'molecules': 60, 'group_correlations': 60, 'dim_cases': 8000, 'unit_HG': 3000, 'unit_SCp': 3000,
                   'unit_rejected': 400, 'G=H-TS': 2000, 'unit_pairs': 8000, 'elemental_cases': 150, 'elemental_error_cases': 18})


def replay(ctx, rec):
    inp = rec.get('input', rec)
    before = len(ctx.violations)
    keys, stripped, rej = unit_universe()
    if inp.get('mutation'):
        mutation_case(ctx, inp['object'], inp['change'], inp['ti'], inp['T'], inp['units'])
        return len(ctx.violations) == before
    if inp.get('object') == 'group correlation':
        info = L.shipped(inp['library'])
        T = L.dec_num(inp['T'])
        units = keys + stripped
        flags = [None, True, 0]
        ev = L.eval_object(info.corr[inp['group']], T, units, flags, info, [inp['group']])
        oracle_object(ctx, inp, ev, T, units, flags, keys, is_estimate=False, f12=inp['group'] in info.f12)
    else:
        info, mapping, T = L.rebuild(inp)
        smi = inp.get('smiles')
        if smi is not None:
            try:
                with L.quiet():
                    mapping = list(info.lib.GetDescriptors(smi).items())
            except Exception:
                info.lib.name = smi
        units = keys + stripped
        c = L.run_case(info, mapping, T, units=units, flags=list(FLAGS))
        if 'ok' in c.impl:
            oracle_object(ctx, c.input, c.impl['ok'], T, units, list(FLAGS), keys,
                          sel_sum=elemental_sum(smi) if smi is not None else None)
        info.lib.name = None
    return len(ctx.violations) == before


LEVEL_TEXT = ('Lean 4 theorems for every correlation object (estimate or group correlation), every temperature, every gas-constant table and '
              'every unit string: H = (H/RT)*T*R(u/K), G = (G/RT)*T*R(u/K), S = (S/R)*R(u), Cp = (Cp/R)*R(u), G = H - T*S(u/K), values in '
              'two units differ exactly by the ratio of the table entries, an unsupported unit is an error; S/R relative to the elements is '
              'lower, G/RT higher, by exactly the sum of the tabulated entropies over all atoms (H included), H and Cp are untouched, a '
              'falsy flag changes nothing.  Kernel-checked table obligations over the regenerated pmutt tables: every accepted unit has a '
              'hand-written reference factor and the entries agree with it to 1e-7, prefixes are exact, the documented energy units are '
              'accepted, the elemental entropies of the elements the schemes cover match reference standard entropies.  Tied to base.py/'
              'group_data.py by a correspondence run over all accepted units.  Right level: the quantifier covers all estimates, units and T.')
LEVEL_NOTE = ('Trusted: Lean kernel; standard axioms; translator of the pmutt tables (probes the live R function for the strings it accepts); '
              'correspondence harness; rational abstraction of float products (1e-9 relative); RDKit atom lists (A-graph); the hand-written '
              'reference factors. Modelled not verified: the five base getters, get_Selements, get_SoR. The history dependence of the '
              'elemental term (F26) is outside this property: molecules are decomposed immediately before the estimate.')
TECHNIQUE = 'Lean 4 proof over hand-written model + table translator + correspondence check'
