"""C10 — unit expressions evaluate to the exact SI value and dimension.

Proof: lean/PGA/Props/C10.lean (model PGA/Model/Units.lean of pgradd/Units/{parser,db,builtin,qty,helpers}.py;
specification PGA/Spec/SI.lean: the hand-written SI reference table, and PGA/Spec/UnitExpr.lean: expression trees).
Tie: translator of the live prefix/unit tables (harness/gen/units.py) + correspondence of eval_qty, the scanner,
Quantity.in_units, with_units/in_units/to_SI_from/from_SI_to against the model driver.
Property oracle: implementation vs the denotation of the generated expression tree over the SI reference.
"""
import itertools, json, math
from fractions import Fraction
from . import common
from . import lib_units as L

PROPS = ['PGA.Props.C10']
GEN = ['Chars', 'Units']
OBLIGATIONS = ['PGA.Units.' + t for t in [
    'C10_tab_db_built', 'C10_tab_names', 'C10_tab_prefixes', 'C10_tab_units', 'C10_tab_collisions', 'C10_tab_gas_constant',
    'C10_tab_db_integral', 'C10_lookup_prefixed',
    'C10_tab_new_units_accepted', 'C10_tab_new_units', 'C10_new_unit_changes_nothing', 'C10_ext_conservative',
    'C10_tab_ext_spellings', 'C10_tab_ext_integral', 'C10_eval_render_ext', 'C10_tab_threshold',
    'C10_exact_spellings_agree', 'C10_live_eq_ext_tree', 'C10_live_eq_ext',
    'C10_no_internal_outcome', 'C10_outcome_trichotomy', 'C10_malformed_rejected', 'C10_no_internal_outcome_text',
    'C10_parse_render', 'C10_eval_render', 'C10_eval_render_live', 'C10_eval_text', 'C10_eval_render_full_false',
    'C10_eval_render_fractional_partial',
    'C10_in_units_ratio', 'C10_in_units_incompatible', 'C10_in_units_incompatible_integral',
    'C10_in_with_units', 'C10_from_to_SI', 'C10_to_from_SI',
]]
RULE = ('cases = unit/quantity expressions given to eval_qty and the conversion helpers: every unit name x every prefix '
        '(exhaustive; a live unit the SI reference does not know is checked against what its definition string means over the '
        'reference extended by the new units before it, provided none of its spellings already had a meaning), every chain of <= 3 factors over a 12-name alphabet with every operator (*, /, juxtaposition) '
        '(bounded exhaustive), random trees of nesting depth <= 4 with numbers, prefixed names, parentheses and integer / '
        'negative / fractional / parenthesised powers, malformed variants (token deletion / insertion / duplication / swap, '
        'unbalanced parentheses, unknown names, inf, nan, 1..2, empty), random character strings for the scanner, and '
        'conversion pairs (compatible and incompatible). Non-trivial = at least one operator, power, prefix or a malformed '
        'text; distinct = distinct text.')
ASSUMPTIONS = ['decimal-literal abstraction: float arithmetic modelled by exact rationals; results compared to 1e-9 relative',
               'number tokens have at most sys.get_int_max_str_digits() digits (hypothesis of C10_no_internal_outcome)',
               'a non-integer power of a magnitude other than 0 and 1 is not computed by the model (carried as a non-zero real of '
               'known sign); its value is checked numerically against the oracle only',
               'CPython: re `\\d` = characters with a Unicode decimal value; float()/int() of a `[.\\d]+` token = its decimal value; '
               'no single character outside `[.\\d]` is accepted by float() (re-validated on every run over all code points)']
TRUSTED = ['modelled, not verified: UnitsParser (scanner, parse_expr/factor/base/name/number), eval_subtree, UnitsDB.lookup, '
           'builtin.py database construction, GenericQuantity.__mul__/__truediv__/__pow__/_build/in_units, helpers.py',
           'PGA/Spec/SI.lean: the hand-written SI reference table (the specification)',
           'PGA/Spec/SIExt.lean: the rule by which a unit the reference does not know gets its meaning from its definition '
           '(no spelling of it may already have a meaning; the definition is read over the reference extended by the earlier new units)']

ALPHA12 = [('name', '', 'm'), ('name', 'k', 'g'), ('name', '', 's'), ('name', '', 'K'), ('name', '', 'mol'), ('name', 'k', 'J'),
           ('name', '', 'cal'), ('name', 'c', 'm'), ('name', '', 'atm'), ('name', '', 'L'), ('name', '', 'min'), ('name', 'da', 'm')]


def impl_eval(text):
    from pgradd.Units import eval_qty
    return L.call(eval_qty, text)


def impl_tokens(text):
    from pgradd.Units.parser import UnitsParser
    try:
        return list(UnitsParser(text).tokens)
    except Exception as e:
        return {'err': L.errclass(e)}


# ------------------------------------------------------------------------------ property oracle
def classify(tree, impl):
    """finding id for a violating (tree, impl outcome), by a precise predicate; None = not a recorded finding"""
    return None


def check_tree(ctx, si, tree, text, batch, kind):
    """implementation vs denotation of the tree (the property), and queue the model request (the tie)"""
    r = impl_eval(text)
    try:
        v, d, tol, exact = L.denote(si, tree)
        exp = {'val': v, 'dim': d, 'tol': tol}
    except L.Domain as dom:
        exp = {'err': dom.kind}
    if exp.get('err') == 'range':
        ctx.count('skipped_magnitude_out_of_double_range')
        return
    nontrivial = tree[0] != 'num' and not (tree[0] == 'name' and tree[1] == '')
    ctx.case(text if nontrivial else None, {'text': text, 'impl': r})
    ctx.count('expr_' + kind)
    ctx.count('impl_' + (r['err'] if 'err' in r else 'value'))
    inp = {'text': text, 'tree': tree}
    if 'err' in exp:
        if exp['err'] == 'complex':
            # the real magnitude does not exist: the property allows an error, not a value
            if 'err' not in r or r['err'].startswith('internal'):
                ctx.violation('a negative number raised to a non-integer power does not end in a units/arithmetic error',
                              inp, 'UnitsParseError or an arithmetic error', r, finding='FU1')
        elif r.get('err') != exp['err']:
            ctx.violation('expression is not rejected with the expected error class', inp, exp['err'], r,
                          finding=classify(tree, r))
    else:
        ok = ('val' in r and L.dim_matches(r['dim'], exp['dim'])
              and abs(r['val'] - float(exp['val'])) <= (exp['tol'] * 1.001 + 1e-9) * abs(float(exp['val'])) + 1e-300)
        if not ok:
            ctx.violation('expression does not evaluate to the SI magnitude and dimension its tree denotes', inp,
                          {'val': float(exp['val']), 'dim': [str(x) for x in exp['dim']], 'rel_tol': exp['tol']}, r,
                          finding=classify(tree, r))
    batch.append(({'op': 'c10.eval', 'text': text}, r, {'text': text}))


def check_text(ctx, text, batch, kind, expect=None):
    """a text with no tree: only the outcome class is constrained (value, UnitsParseError, arithmetic error)"""
    r = impl_eval(text)
    ctx.case('text:' + text, None)
    ctx.count('expr_' + kind)
    ctx.count('impl_' + (r['err'] if 'err' in r else 'value'))
    if 'err' in r and r['err'].startswith('internal'):
        ctx.violation('eval_qty escapes with an exception that is neither the units parse error nor an arithmetic error',
                      {'text': text}, 'value | UnitsParseError | ZeroDivisionError', r, finding=classify_text(text, r))
    elif expect is not None and r.get('err') != expect:
        ctx.violation('malformed expression is not rejected with the units parse error', {'text': text}, expect, r)
    batch.append(({'op': 'c10.eval', 'text': text}, r, {'text': text}))


def classify_text(text, r):
    return None


MALFORMED = ['', ' ', '*', 'm*', 'm/', '*m', '/m', 'm)', '(m', '()', 'm^', 'm^m', 'm^(2', 'm^2)', 'm^(m)', 'm^^2', 'm^2^3', '^2',
             '1..2', '.', '..', '-', '-m', '--3', '1.2.3', 'm;s', 'm_s', 'm+s', 'm-s', 'foo', 'k', 'da', 'dam2x', 'inf', 'nan',
             'Infinity', 'NaN', '-inf', 'inf m', 'm^inf', 'm^nan', '2^(inf)', '1e5', 'm**2', 'm²', '²', 'µm', 'μm', '((m)', '(m))',
             'm (', 'm ( s', 'm ^ ( 2 s )', 'kg m/s^', '1/', '/', '( )', 'm ( )', '2 ^ ( )', 'm^()', 'm^(-)', 'hr', 'ohm', 'inch',
             'T', 'G', 'kT', 'mm m m^', ')(', 'm,s', 'm\x00s', 'm^-', 'm^.', 'm^(.)', '1_0', '0x10', '$', 'm/*s', 'm*/s']


def mutate(rng, toks):
    toks = list(toks)
    pool = ['(', ')', '^', '*', '/', 'm', 's', '2', '-1', '.5', 'foo', '.', '-', ',', 'inf', 'kg', '^', '(', ')']
    for _ in range(rng.choice([1, 1, 1, 2, 3])):
        k = rng.randrange(5)
        if k == 0 and toks:
            del toks[rng.randrange(len(toks))]
        elif k == 1:
            toks.insert(rng.randint(0, len(toks)), rng.choice(pool))
        elif k == 2 and toks:
            i = rng.randrange(len(toks))
            toks.insert(i, toks[i])
        elif k == 3 and len(toks) > 1:
            i, j = rng.randrange(len(toks)), rng.randrange(len(toks))
            toks[i], toks[j] = toks[j], toks[i]
        elif toks:
            toks[rng.randrange(len(toks))] = rng.choice(pool)
    return toks


def scanner_strings(rng, n):
    alphabet = list('mskgKJ ()^*/.-0123456789') + ['10', ' ', '\t', '\n', 'mol', 'µ', 'é', '²', '٣', '１', ' ', '\x0b', '_', ',', '-.', 'e', 'E', 'inf']
    out = []
    for _ in range(n):
        out.append(''.join(rng.choice(alphabet) for _ in range(rng.randint(0, 9))))
    return out


def assumption_float_single(ctx):
    """no single character outside [.\\d] converts with float(); `\\d` = has a Unicode decimal value; isspace table"""
    import re, unicodedata
    bad = []
    for cp in range(0x110000):
        if 0xD800 <= cp <= 0xDFFF:
            continue
        c = chr(cp)
        isd = unicodedata.decimal(c, None) is not None
        if bool(re.fullmatch(r'\d', c)) != isd:
            bad.append(('\\d', cp))
        if not isd:
            try:
                float(c)
                bad.append(('float', cp))
            except ValueError:
                pass
        else:
            if float(c) != unicodedata.decimal(c) or int(c) != unicodedata.decimal(c):
                bad.append(('value', cp))
        if len(bad) > 5:
            break
    ctx.assumption('A-float-token', not bad, 'first counterexamples: %r' % bad[:5] if bad else
                   'all 1 112 064 code points: re \\d = Unicode decimal; float()/int() of a decimal = its value; nothing else converts')


# ------------------------------------------------------------------------------ conversions
def conversion_cases(ctx, si, batch):
    from pgradd.Units import eval_qty, with_units, in_units, to_SI_from, from_SI_to, Quantity
    rng = ctx.rng
    names = L.all_names(si)
    exprs = ['m', 'cm', 'km', 'in', 'ft', 's', 'min', 'h', 'kg', 'g', 'lb', 'J', 'kJ', 'cal', 'kcal', 'eV', 'BTU', 'erg',
             'J/mol', 'kcal/mol', 'kJ/mol', 'cal/(mol K)', 'J/(mol K)', 'K', 'mol', 'molecule', 'Pa', 'atm', 'bar', 'torr', 'psi',
             'L', 'm^3', 'cm^3', 'N', 'dyn', 'lbf', 'W', 'hp', 'P', 'Pa s', 'St', 'm^2/s', 'm/s', 'ft/min', 'V', 'C', 'A s', 'Ohm', 'F',
             'cd', 'A', '1/s', 'm^0.5', 'kg m/s^2', 'g cm/s^2']
    n = ctx.n(700, 20000)
    for i in range(n):
        a = rng.choice(exprs)
        b = rng.choice(exprs) if rng.random() < 0.6 else a
        x = rng.choice([1, 2, -3, 0.5, 12.5, 1000, 1e-3, 7, 273.15, 4.184, 0, 0.0, 0])   # zero is a value like any other (F12)
        # Quantity.in_units / helpers.in_units
        qtext = '%r %s' % (x, a) if x >= 0 else '%r (%s)' % (x, a)
        qa = L.call(eval_qty, qtext)
        ra, rb = L.call(eval_qty, a), L.call(eval_qty, b)
        if 'val' in qa and 'val' in ra and 'val' in rb:
            q = eval_qty(qtext)
            r1 = L.call(lambda: q.in_units(b)) if isinstance(q, Quantity) else None
            r2 = L.call(lambda: in_units(q, b)) if isinstance(q, Quantity) else None
            if r1 is not None:
                ctx.case('in_units:%s:%s' % (qtext, b), {'qty': qtext, 'units': b, 'impl': r1})
                ctx.count('conv_in_units_' + ('err_' + r1['err'] if 'err' in r1 else 'value'))
                same_dim = ra['dim'] == rb['dim']
                inp = {'qty': qtext, 'units': b}
                if r1 != r2:
                    ctx.violation('helpers.in_units differs from Quantity.in_units', inp, r1, r2)
                if same_dim:
                    want = qa['val'] / rb['val']
                    if 'val' not in r1 or not common.close(r1['val'], want) or any(r1['dim']):
                        ctx.violation('conversion to a compatible unit is not the ratio of magnitudes', inp, want, r1)
                elif r1.get('err') != 'unitsError':
                    ctx.violation('conversion to an incompatible unit does not raise the units error', inp, 'unitsError', r1)
                batch.append(({'op': 'c10.in_units', 'qty': qtext, 'units': b}, r1, inp))
        # with_units / in_units round trip; to_SI_from / from_SI_to there and back
        if 'val' in ra and any(ra['dim']):
            w = L.call(with_units, x, a)
            inp = {'x': x, 'units': a}
            ctx.case('with_units:%r:%s' % (x, a), None)
            ctx.count('conv_with_units')
            back = L.call(lambda: in_units(with_units(x, a), a))
            if 'val' not in back or not common.close(back['val'], x):
                ctx.violation('in_units(with_units(x, u), u) is not x', inp, x, back)
            if 'val' not in w or not common.close(w['val'], x * ra['val']) or w['dim'] != ra['dim']:
                ctx.violation('with_units(x, u) is not x times the unit', inp, {'val': x * ra['val'], 'dim': ra['dim']}, w)
            batch.append(({'op': 'c10.with_units', 'x': common.jrat(common.frac_of_float(x)), 'units': a}, w, inp))
            t = L.call(to_SI_from, x, a)
            f = L.call(from_SI_to, x, a)
            tf = L.call(lambda: from_SI_to(to_SI_from(x, a), a))
            ft = L.call(lambda: to_SI_from(from_SI_to(x, a), a))
            ctx.count('conv_SI')
            for nm, rr in (('from_SI_to(to_SI_from(x,u),u)', tf), ('to_SI_from(from_SI_to(x,u),u)', ft)):
                if 'val' not in rr or not common.close(rr['val'], x):
                    ctx.violation('%s is not x' % nm, inp, x, rr)
            if 'val' not in t or not common.close(t['val'], x * ra['val']):
                ctx.violation('to_SI_from(x, u) is not x times the SI magnitude of u', inp, x * ra['val'], t)
            batch.append(({'op': 'c10.to_SI', 'x': common.jrat(common.frac_of_float(x)), 'units': a}, t, inp))
            batch.append(({'op': 'c10.from_SI', 'x': common.jrat(common.frac_of_float(x)), 'units': a}, f, inp))
            # the unit given as a (short-lived) quantity object instead of a string: same conversions
            from pgradd.Units import eval_qty
            t_obj = L.call(lambda: to_SI_from(x, eval_qty(a)))
            f_obj = L.call(lambda: from_SI_to(x, eval_qty(a)))
            ctx.count('conv_SI_object_units')
            prev_units = getattr(ctx, '_c10_prev_units', [])
            if t_obj != t or f_obj != f:
                ctx.violation('a conversion with the unit given as a quantity object differs from the one with the unit string',
                              dict(inp, units_as='eval_qty(%r)' % a, object_units_converted_before=list(prev_units)),
                              {'to_SI': t, 'from_SI': f}, {'to_SI': t_obj, 'from_SI': f_obj})
            ctx._c10_prev_units = (prev_units + [a])[-8:]


# ------------------------------------------------------------------------------ conversions between different float routes
# Two expressions are compatible when the exponents that follow from the definitions are the same NUMBERS, however they are
# written: m^0.1 m^0.2, (m^0.1)^3, m^0.5/m^0.2 and m^0.3 are all m^(3/10), although the doubles the package accumulates
# (0.30000000000000004, 0.30000000000000004, 0.3, 0.3) differ in the last bits.  Every conversion entry point must treat them alike.
ROUTE_PARTS = ['0.1', '0.2', '0.3', '0.7', '1.1', '2.2', '0.15', '0.35', '1.3', '0.6', '0.9', '2.7', '0.05', '1.7', '3.3', '0.45',
               '0.8', '0.4', '1.9', '0.01', '0.07']
ROUTE_BASES = [('', 'm'), ('', 's'), ('', 'K'), ('', 'mol'), ('k', 'm'), ('c', 'm'), ('', 'kg'), ('m', 's'), ('', 'A'), ('', 'cd'),
               ('', 'min'), ('', 'g'), ('da', 'm')]
ROUTE_EXTRA = [None, None, None, ('name', '', 'J'), ('name', 'k', 'J'), ('name', '', 'cal'), ('name', '', 'atm'), ('name', '', 'N')]
ROUTE_WAYS = ['Quantity.in_units(str)', 'Quantity.in_units(Quantity)', 'helpers.in_units(q,str)', 'helpers.in_units(q,Quantity)',
              'Quantity.fmt_in_units(str)', 'ArrayQuantity.in_units(str)', 'ArrayQuantity.in_units(Quantity)',
              'ArrayQuantity.fmt_in_units(str)', 'there-and-back']
ROUTE_ARR = [1.0, 2.0, -0.5]
# hand-written pairs that are always run (the reach of the class does not depend on the seed)
ROUTE_FIXED = [('m^0.1 m^0.2', 'm^0.3'), ('3 s^1.1 s^2.2', 's^3.3'), ('2 km^0.1 km^0.2', 'm^0.3'), ('7 K^0.3', 'K^0.1 K^0.2'),
               ('(mol^0.1)^3', 'mol^0.3'), ('5 J/(m^0.1 m^0.2)', 'J/m^0.3'), ('4 m^0.5 m^0.5', 'm'), ('6 m^0.25 m^0.5', 'cm^0.75'),
               ('2 m^0.7 m^0.2 m^0.1', 'cm'), ('3 s^0.7/s^0.4', 'ms^0.3'), ('m^0.1 m^0.2', 'm^0.31'), ('m^0.3', 'm^0.1 m^0.201'),
               ('2 kg^-0.1 kg^-0.2', 'g^-0.3'), ('(A^0.6)^0.5 A^0.4', 'A^0.7')]


def _dec(q):
    """a rational with a finite decimal expansion as the shortest positional literal of the unit grammar"""
    from decimal import Decimal
    q = Fraction(q)
    s = format(Decimal(q.numerator) / Decimal(q.denominator), 'f')
    if '.' in s:
        s = s.rstrip('0').rstrip('.')
    return s or '0'


def _finite_decimal(q, places=4):
    return (Fraction(q) * 10 ** places).denominator == 1


def route_tree(rng, base, e):
    """(route name, tree) of base^e written by one of several routes whose exponents add/multiply up to exactly e"""
    b = ('name',) + tuple(base)
    e = Fraction(e)
    lit = lambda x: ('pow', b, _dec(x), rng.random() < 0.25)
    for _ in range(20):
        k = rng.choice(['literal', 'sum2', 'sum2', 'sum3', 'quot', 'powpow', 'powpow'])
        if k == 'literal':
            return k, (b if e == 1 and rng.random() < 0.5 else lit(e))
        if k == 'sum2':
            a = Fraction(rng.choice(ROUTE_PARTS)) * rng.choice([1, 1, 1, -1])
            if a != e and a != 0:
                return k, ('chain', lit(a), [(rng.choice('*j'), lit(e - a))])
        if k == 'sum3':
            a, c = Fraction(rng.choice(ROUTE_PARTS)), Fraction(rng.choice(ROUTE_PARTS))
            if e - a - c != 0:
                return k, ('chain', lit(a), [(rng.choice('*j'), lit(c)), (rng.choice('*j'), lit(e - a - c))])
        if k == 'quot':
            c = Fraction(rng.choice(ROUTE_PARTS))
            if e + c != 0:
                return k, ('chain', lit(e + c), [('/', lit(c))])
        if k == 'powpow':
            m = Fraction(rng.choice(['2', '3', '4', '5', '0.5', '2.5', '0.2', '1.5', '-1', '-2', '6', '7']))
            if _finite_decimal(e / m) and e / m != 0:
                return k, ('pow', ('paren', lit(e / m)), _dec(m), rng.random() < 0.25)
    return 'literal', lit(e)


def route_pair(rng):
    """two trees with exactly the same dimension (some exponent not an integer, reached by independently chosen routes), or --
    one time in six -- with one exponent moved by 0.01 / 0.001 (incompatible: far outside the documented 1e-7 grid)"""
    bases = rng.sample(ROUTE_BASES, rng.choice([1, 1, 2]))
    # one physical base dimension per factor (m, km, cm, dam share one): keep the first of each
    seen, keep = set(), []
    for p, u in bases:
        d = {'min': 's', 'g': 'kg'}.get(u, u)
        if d not in seen:
            seen.add(d)
            keep.append((p, u))
    sides, kinds = [[], []], []
    off = rng.random() < 1 / 6
    for i, (p, u) in enumerate(keep):
        while True:
            e = Fraction(rng.choice(ROUTE_PARTS)) + Fraction(rng.choice(ROUTE_PARTS + ['0', '0', '1'])) * rng.choice([1, 1, -1])
            if e != 0:
                break
        e *= rng.choice([1, 1, 1, -1])
        for s in (0, 1):
            pu = (p, u)
            if s == 1 and rng.random() < 0.4:     # the target in another prefix of the same unit
                pu = (rng.choice(['', 'k', 'c', 'm']), u) if u in ('m', 's', 'g', 'mol', 'K', 'A') else pu
            ee = e + (Fraction(rng.choice(['0.01', '0.001', '-0.01'])) if (off and s == 1 and i == 0) else 0)
            if ee == 0:
                ee = e + Fraction('0.01')
            kind, t = route_tree(rng, pu, ee)
            kinds.append(kind)
            sides[s].append(t)
    extra, extra_op = rng.choice(ROUTE_EXTRA), rng.choice('*/')
    out = []
    for s in (0, 1):
        fs = list(sides[s])
        rng.shuffle(fs)
        t = fs[0] if len(fs) == 1 else ('chain', fs[0], [(rng.choice('*j'), f) for f in fs[1:]])
        if extra is not None:
            t = ('chain', extra, [(extra_op, ('paren', t) if t[0] == 'chain' else t)])
        out.append(t)
    x = rng.choice(['2', '3', '0.5', '12', '7', '2.54', '1'])
    qty = ('chain', ('num', x), [('j', ('paren', out[0]) if out[0][0] == 'chain' else out[0])])
    return qty, out[1], '+'.join(kinds)


def convert_way(way, qtext, utext):
    """canonical outcome of one conversion entry point: {'val': number} | {'arr': [...]} | {'err': class}"""
    import numpy as np
    from pgradd.Units import eval_qty, in_units, with_units

    def parse_fmt(text, tail):
        if not isinstance(text, str) or not text.endswith(' ' + tail):
            raise TypeError('fmt_in_units: %r' % (text,))
        return text[:-len(tail) - 1]

    def go():
        q = eval_qty(qtext)
        if way == 'Quantity.in_units(str)':
            return q.in_units(utext)
        if way == 'Quantity.in_units(Quantity)':
            return q.in_units(eval_qty(utext))
        if way == 'helpers.in_units(q,str)':
            return in_units(q, utext)
        if way == 'helpers.in_units(q,Quantity)':
            return in_units(q, eval_qty(utext))
        if way == 'Quantity.fmt_in_units(str)':
            return float(parse_fmt(q.fmt_in_units(utext), utext))
        if way == 'ArrayQuantity.in_units(str)':
            return np.asarray((np.array(ROUTE_ARR) * q).in_units(utext))
        if way == 'ArrayQuantity.in_units(Quantity)':
            return np.asarray((np.array(ROUTE_ARR) * q).in_units(eval_qty(utext)))
        if way == 'ArrayQuantity.fmt_in_units(str)':
            body = parse_fmt((np.array(ROUTE_ARR) * q).fmt_in_units(utext), utext)
            return np.array([float(t) for t in body.replace('[', ' ').replace(']', ' ').split()])
        if way == 'there-and-back':
            # x [qty's unit] -> number in the target unit -> quantity -> number in the first unit
            return in_units(with_units(in_units(q, utext), utext), qtext)
        raise common.MachineryError('unknown conversion way %r' % way)
    return L.call(go)


def route_verdict(si, qtree, utree, way, r):
    """None if outcome r of `way` is what the property demands for converting qtree to utree, else the expected outcome"""
    v1, d1, t1, _ = L.denote(si, qtree)
    v2, d2, t2, _ = L.denote(si, utree)
    if d1 != d2:
        return None if r.get('err') == 'unitsError' else 'unitsError'
    ratio = float(v1) / float(v2)
    rel = (t1 + t2) * 1.001 + 1e-9
    if way.endswith('fmt_in_units(str)'):
        rel += 2e-5      # '%g' keeps six significant digits
    if way == 'there-and-back':
        want = [1.0]
    elif way.startswith('Array'):
        want = [ratio * a for a in ROUTE_ARR]
    else:
        want = [ratio]
    got = r.get('arr') if 'arr' in r else ([r['val']] if 'val' in r else None)
    # numpy's str() of an array keeps eight places after the point of the largest element (fixed or scientific notation)
    slack = 1e-3 * max(abs(w) for w in want) if way == 'ArrayQuantity.fmt_in_units(str)' else 0.0
    ok = (got is not None and len(got) == len(want) and not any(r.get('dim', [0])) and
          all(abs(g - w) <= rel * abs(w) + slack + 1e-300 for g, w in zip(got, want)))
    return None if ok else {('arr' if len(want) > 1 else 'val'): want if len(want) > 1 else want[0], 'rel_tol': rel}


def route_conversions(ctx, si, batch):
    from pgradd.Units import eval_qty
    rng = ctx.rng
    pairs = [(None, None, qt, ut, 'fixed') for qt, ut in ROUTE_FIXED]
    for _ in range(ctx.n(350, 6000)):
        qtree, utree, kinds = route_pair(rng)
        pairs.append((qtree, utree, L.join_tokens(rng, L.tokens_of(qtree), tight=rng.choice([0.0, 0.5, 1.0])),
                      L.join_tokens(rng, L.tokens_of(utree), tight=rng.choice([0.0, 0.5, 1.0])), kinds))
    for qtree, utree, qtext, utext, kinds in pairs:
        if qtree is None:
            qtree, utree = parse_simple(qtext), parse_simple(utext)
        try:
            d1, d2 = L.denote(si, qtree)[1], L.denote(si, utree)[1]
        except L.Domain:
            ctx.count('route_skipped_out_of_range')
            continue
        if not any(d1) or not any(d2):
            continue
        ctx.case('route:%s:%s' % (qtext, utext), {'qty': qtext, 'units': utext, 'routes': kinds})
        ctx.count('route_pairs_' + ('compatible' if d1 == d2 else 'incompatible'))
        a, b = L.call(eval_qty, qtext), L.call(eval_qty, utext)
        if d1 == d2 and 'dim' in a and 'dim' in b and a['dim'] != b['dim']:
            ctx.count('route_pairs_compatible_with_different_float_exponents')
        first = None
        for way in ROUTE_WAYS:
            if way == 'there-and-back' and d1 != d2:
                continue
            r = convert_way(way, qtext, utext)
            ctx.count('route_way_' + way)
            first = r if first is None else first
            want = route_verdict(si, qtree, utree, way, r)
            if want is not None:
                inp = {'qty': qtext, 'units': utext, 'way': way, 'routes': kinds, 'qty_tree': qtree, 'units_tree': utree,
                       'exponents_by_definition': [str(x) for x in d1],
                       'float_exponents': {'qty': a.get('dim'), 'units': b.get('dim')}}
                ctx.violation('conversion between two expressions of the same dimension (non-integer exponents written by '
                              'different routes) is not the ratio of magnitudes' if d1 == d2 else
                              'conversion to an incompatible unit (exponents differ by 0.001 or more) does not raise the units error',
                              inp, want, r)
        batch.append(({'op': 'c10.in_units', 'qty': qtext, 'units': utext}, first, {'qty': qtext, 'units': utext}))


def parse_simple(text):
    """tree of one of the hand-written ROUTE_FIXED texts (numbers, names with the prefixes k/c/m, ^, *, /, juxtaposition, one level
    of parentheses): a small reader of the harness's own, so that the expected dimension never comes from the package"""
    import re
    toks = re.findall(r'-?[.\d]+|[a-zA-Z]+|\S', text)
    pos = [0]

    units = ('m', 's', 'K', 'mol', 'kg', 'g', 'A', 'J', 'cd', 'min')

    def name(t):
        if t in units:                     # the name itself first, then prefix + name (the lookup order of the package)
            return ('name', '', t)
        for p in ('da', 'k', 'c', 'm'):
            if t.startswith(p) and t[len(p):] in units:
                return ('name', p, t[len(p):])
        raise common.MachineryError('parse_simple: name %r' % t)

    def base():
        t = toks[pos[0]]
        pos[0] += 1
        if t == '(':
            e = expr()
            pos[0] += 1
            return ('paren', e)
        return ('num', t) if t[0] in '-.0123456789' else name(t)

    def factor():
        b = base()
        if pos[0] < len(toks) and toks[pos[0]] == '^':
            x = toks[pos[0] + 1]
            pos[0] += 2
            return ('pow', b, x, False)
        return b

    def expr():
        first, rest = factor(), []
        while pos[0] < len(toks) and toks[pos[0]] != ')':
            op = 'j'
            if toks[pos[0]] in '*/':
                op = toks[pos[0]]
                pos[0] += 1
            rest.append((op, factor()))
        return ('chain', first, rest) if rest else first
    t = expr()
    if pos[0] != len(toks):
        raise common.MachineryError('parse_simple: %r' % text)
    return t


def gas_constant_check(ctx, si):
    from pgradd import Consts
    R = Consts.GAS_CONSTANT
    v, d, tol = si.R
    r = L.canon_value(R)
    ctx.case('GAS_CONSTANT', {'R': r})
    if 'val' not in r or not L.dim_matches(r['dim'], d) or abs(r['val'] - float(v)) > tol * float(v):
        ctx.violation('GAS_CONSTANT is not the molar gas constant in J/(mol K)', {'const': 'GAS_CONSTANT'},
                      {'val': float(v), 'dim': [str(x) for x in d]}, r)
    for nm, text in (('PLANCK_CONSTANT', '6.62607015*10^-34 J s'), ('BOLTZMANN_CONSTANT', '1.380649*10^-23 J/K'),
                     ('AVOGADRO_NUMBER', '6.02214076*10^23 mol^-1')):
        c = L.canon_value(getattr(Consts, nm))
        w = impl_eval(text)
        if 'val' not in c or 'val' not in w or c['dim'] != w['dim'] or abs(c['val'] - w['val']) > 1e-5 * abs(w['val']):
            ctx.violation('%s is not the SI value' % nm, {'const': nm}, w, c)


# ------------------------------------------------------------------------------ names x prefixes; units the reference does not know
def _plain(rep):
    """a driver value as floats, for a violation record"""
    if isinstance(rep, dict) and 'val' in rep:
        return {'val': float(common.unjrat(rep['val'])), 'dim': [float(common.unjrat(x)) for x in rep['dim']]}
    return rep


def _differs(impl, rep, tol=0.0):
    """the implementation's outcome is not the driver's value `rep` (relative tolerance `tol`)"""
    if 'val' not in rep:
        return impl.get('err') != rep.get('err')
    want = float(common.unjrat(rep['val']))
    return not ('val' in impl and L.dim_matches(impl['dim'], rep['dim'])
                and abs(impl['val'] - want) <= (tol * 1.001 + 1e-9) * abs(want) + 1e-300)


def new_unit_verdicts(ctx, si):
    """a live unit the reference does not know means what its definition means over the reference extended by the new units
    before it (PGA/Spec/SIExt.lean; the driver gives the verdicts).  Accepted ones join the table the oracle uses; a
    definition that does not evaluate, or a name one of whose spellings already had a meaning, is a violation whose input is
    that text."""
    cov = {'new, consistent with their definitions': [], 'rejected': []}
    for v in si.verdicts:
        u, dfn = v['name'], v['definition']
        if v['verdict'] == 'accepted':
            ctx.count('new_units_consistent_with_their_definitions')
            cov['new, consistent with their definitions'].append(
                {'unit': u, 'definition': dfn, 'means': _plain({'val': v['value'], 'dim': v['dim']}), 'rel_tol': float(common.unjrat(v['tol']))})
            continue
        ctx.count('new_units_' + v['verdict'])
        cov['rejected'].append({'unit': u, 'definition': dfn, 'verdict': v['verdict'], 'spelling': v.get('spelling'), 'outcome': v.get('outcome')})
        if v['verdict'] == 'ambiguous':
            sp = v['spelling']
            reqs = [{'op': 'c10.eval_ext', 'text': sp}]
            if isinstance(dfn, str):
                reqs.append({'op': 'c10.eval_ext', 'text': dfn})
            reps = ctx.model(reqs)
            already = _plain(reps[0])
            k = si.prefixes.get(sp[:len(sp) - len(u)], 0) if sp != u else 0
            as_new = _plain(reps[1]) if len(reps) > 1 else None
            if as_new and 'val' in as_new:
                as_new = dict(as_new, val=as_new['val'] * 10.0 ** k)
            ctx.case('new-unit:' + u, None)
            ctx.violation('a new unit name takes over a spelling that already has a meaning' if sp == u else
                          'a prefixed spelling of a new unit already has a meaning: one of the two readings is hidden',
                          {'text': sp, 'new_unit': u, 'definition': dfn},
                          {'already means': already, 'as the new unit (prefix x definition)': as_new}, impl_eval(sp))
        elif v['verdict'] == 'bad_definition':
            ctx.case('new-unit:' + u, None)
            ctx.violation('the definition of a new unit does not evaluate over the units that have a meaning before it',
                          {'text': dfn if isinstance(dfn, str) else u, 'new_unit': u, 'definition': dfn},
                          'a value: the definition evaluates over the SI reference extended by the new units registered before it',
                          {'definition over the extended reference': v.get('outcome'), 'package, %r' % u: impl_eval(u)})
        elif v['verdict'] == 'not_a_word':
            ctx.case('new-unit:' + u, None)
            rep = ctx.model([{'op': 'c10.eval_ext', 'text': dfn}])[0] if isinstance(dfn, str) else {'definition': dfn}
            ctx.violation('a new unit has a name that is not a word of the unit grammar ([a-zA-Z]+): no text denotes it',
                          {'text': u, 'new_unit': u, 'definition': dfn}, {'as its definition': _plain(rep)}, impl_eval(u))
        # 'unsupported' (irrational magnitude, non-positive magnitude or fractional exponent): nothing to compare exactly; the
        # table obligation C10_tab_new_units_accepted does not hold and the run ends without a failing input
    ctx.extra.setdefault('coverage', {})['new_units'] = cov
    return cov


def names_and_prefixes(ctx, si, batch):
    from .gen.units import live
    lv = live()
    live_prefixes = [''] + [p for p, _ in lv['prefixes']]
    live_units = list(lv['db_names'])
    new_unit_verdicts(ctx, si)
    judged = {v['name'] for v in si.verdicts}
    undefined = []
    for u in sorted(set(live_units) | set(si.units)):
        for p in sorted(set(live_prefixes) | set(si.prefixes) | {''}):
            text = p + u
            if p != '' and p not in si.prefixes:
                # a prefix the reference does not know
                ctx.violation('prefix without an SI reference entry', {'text': text}, 'entry in PGA/Spec/SI.lean', impl_eval(text))
            elif u in si.units:
                # a reference unit (against the reference value) or an accepted new unit (against what its definition means)
                check_tree(ctx, si, ('name', p, u), text, batch, 'name' if u in si.ref_units else 'new_name')
            elif u in judged:
                pass        # rejected: reported once by new_unit_verdicts
            else:
                # in the live database, not registered by builtin.py's lists: there is no definition to read.  The spelling
                # must at least not change a meaning the extended reference gives
                undefined.append(text)
    if undefined:
        reps = ctx.model([{'op': 'c10.eval_ext', 'text': t} for t in undefined])
        for text, rep in zip(undefined, reps):
            ctx.case('undefined:' + text, None)
            ctx.count('units_registered_outside_builtin_lists')
            r = impl_eval(text)
            if 'val' in rep and _differs(r, rep, 1e-6):
                ctx.violation('a unit registered outside the definition lists of builtin.py changes the meaning of a spelling the reference defines',
                              {'text': text}, _plain(rep), r)
    if set(live_units) != set(si.units) or set(live_prefixes) != set(si.prefixes) | {''}:
        ctx.count('table_name_mismatch')


# ------------------------------------------------------------------------------ run
def run(ctx):
    with L.quiet():
        _run(ctx)


def _run(ctx):
    if not L.importable(ctx):
        return
    rng = ctx.rng
    si = L.SI(ctx)
    batch = []
    assumption_float_single(ctx)
    # corpus first
    for fname, rec in common.load_corpus('C10'):
        ctx.count('corpus')
        _replay(ctx, si, rec, batch)
    # 1. every unit name x every prefix, exhaustively (names of the reference AND of the live tables)
    names_and_prefixes(ctx, si, batch)
    # 2. bounded exhaustive: chains of <= 3 factors over a 12-name alphabet, every operator
    ops = ['*', '/', 'j']
    for a in ALPHA12:
        for b in ALPHA12:
            for o1 in ops:
                t = ('chain', a, [(o1, b)])
                check_tree(ctx, si, t, L.join_tokens(rng, L.tokens_of(t)), batch, 'chain2')
    triples = [(a, b, c, o1, o2) for a in ALPHA12 for b in ALPHA12 for c in ALPHA12 for o1 in ops for o2 in ops]
    if not ctx.thorough():
        triples = rng.sample(triples, min(len(triples), ctx.n(3000, 0)))
    for a, b, c, o1, o2 in triples:
        t = ('chain', a, [(o1, b), (o2, c)])
        check_tree(ctx, si, t, L.join_tokens(rng, L.tokens_of(t)), batch, 'chain3')
    # 2b. every name with every exponent, every number with a name
    for a in ALPHA12:
        for x in L.EXPS + L.EXPS_NEAR:
            for par in (False, True):
                t = ('pow', a, x, par)
                check_tree(ctx, si, t, L.join_tokens(rng, L.tokens_of(t)), batch, 'pow')
        for nlit in L.NUMS:
            t = ('chain', ('num', nlit), [('j', a)])
            check_tree(ctx, si, t, L.join_tokens(rng, L.tokens_of(t)), batch, 'qty')
            t = ('pow', ('num', nlit), rng.choice(L.EXPS), False)
            check_tree(ctx, si, t, L.join_tokens(rng, L.tokens_of(t)), batch, 'numpow')
    # 3. random deeper trees (all names x prefixes as leaves), some with unknown names / zero divisors
    names = L.all_names(si)
    trees = []
    for i in range(ctx.n(5000, 400000)):
        depth = rng.choice([1, 2, 2, 3, 4])
        bad = rng.random() < 0.08
        t = L.gen_expr(rng, si, depth, names, allow_bad=bad)
        if rng.random() < 0.03:
            t = ('chain', t, [('/', ('num', rng.choice(['0', '0.0', '.0'])))])
        toks = L.tokens_of(t)
        trees.append(toks)
        check_tree(ctx, si, t, L.join_tokens(rng, toks, tight=rng.choice([0.0, 0.5, 1.0])), batch, 'tree_d%d' % depth)
        if ctx.time_left() < 120:
            break
    # 4. malformed: fixed list (expected: UnitsParseError), token mutations of valid expressions (outcome class only)
    # (a text of the list that has a value over the extended reference is a unit a maintainer has added, not a malformed text)
    ext = ctx.model([{'op': 'c10.eval_ext', 'text': t} for t in MALFORMED])
    for text, rep in zip(MALFORMED, ext):
        if 'val' in rep:
            ctx.count('malformed_fixed_now_a_unit')
        check_text(ctx, text, batch, 'malformed_fixed', expect=None if 'val' in rep else 'unitsParse')
    for i in range(ctx.n(2500, 120000)):
        toks = mutate(rng, rng.choice(trees))
        if any(len(t) > 4000 for t in toks):
            continue
        check_text(ctx, L.join_tokens(rng, toks, tight=rng.choice([0.0, 0.5, 1.0])), batch, 'malformed_mutation')
    # 5. the scanner on random character strings
    for text in scanner_strings(rng, ctx.n(1500, 60000)):
        r = impl_tokens(text)
        ctx.case(None)
        ctx.count('scanner')
        batch.append(({'op': 'c10.tokens', 'text': text}, r, {'text': text}))
        check_text(ctx, text, batch, 'scanner_text')
    # 5b. probe of the interpreter's recursion limit (recorded finding FU2; the model has no such limit)
    recursion_probe(ctx)
    # 6. conversions and constants
    conversion_cases(ctx, si, batch)
    route_conversions(ctx, si, batch)
    gas_constant_check(ctx, si)
    # the tie
    replies = ctx.model([b[0] for b in batch])
    if replies is not None:
        for (req, impl, inp), rep in zip(batch, replies):
            ctx.count('corr_' + req['op'])
            if req['op'] == 'c10.tokens':
                ok = (rep == impl)
            elif L.out_of_range(rep) or rep.get('flags', {}).get('extreme') or (
                    rep.get('flags', {}).get('inexactSub') and not L.same_outcome(impl, rep)
                    and (impl.get('err') == 'math' or impl.get('val') == 0.0 or ('val' in impl and math.isinf(impl['val'])))):
                # some sub-expression has a magnitude beyond 1e+-150 (exactly known), or an irrational power whose size the
                # model does not track and the implementation shows the symptom of overflow/underflow (OverflowError, inf,
                # 0.0): doubles leave their range there, which is outside the decimal-literal abstraction (DESIGN 2.3)
                ctx.count('corr_skipped_out_of_double_range')
                continue
            else:
                ok = L.same_outcome(impl, rep)
                ctx.count('model_' + (rep['err'] if 'err' in rep else ('inexact' if 'inexact' in rep else 'value')))
            if not ok:
                ctx.disagree('corr:' + req['op'], inp, impl, rep)


def recursion_probe(ctx):
    for label, text in (('chain of 3000 factors', 'm ' * 3000), ('1500 nested parentheses', '(' * 1500 + 'm' + ')' * 1500)):
        r = impl_eval(text)
        ctx.case(None)
        ctx.count('recursion_probe_' + (r['err'] if 'err' in r else 'value'))
        if 'err' in r and r['err'].startswith('internal'):
            ctx.violation('a long or deeply nested (well-formed) unit expression escapes with an unrelated exception',
                          {'text': label}, 'a value', r, finding='FU2' if r['err'] == 'internal:RecursionError' else None)


def big_intermediate(text):
    """the model gives a moderate exact value but an intermediate may leave the double range (e.g. (Ym^9)/(Ym^9)):
    accepted only when the text contains a power, where intermediates can be astronomically larger than the result"""
    return '^' in text


def _replay(ctx, si, rec, batch):
    inp = rec.get('input', rec)
    before = len(ctx.violations)
    if 'new_unit' in inp:
        # holds iff the driver (built from the tables of the last run) no longer rejects that unit
        for v in si.verdicts:
            if v['name'] == inp['new_unit'] and v['verdict'] != 'accepted':
                ctx.violation('new unit %r: %s' % (v['name'], v['verdict']), inp, 'accepted', v)
    elif 'tree' in inp:
        tree = json.loads(json.dumps(inp['tree']), object_hook=None)
        tree = to_tuple(tree)
        check_tree(ctx, si, tree, inp['text'], batch, 'replay')
    elif 'qty' in inp or 'x' in inp or 'const' in inp:
        conversion_replay(ctx, si, inp)
    else:
        check_text(ctx, inp['text'], batch, 'replay', expect=inp.get('expect'))
    return len(ctx.violations) == before


def to_tuple(t):
    if isinstance(t, list):
        if t and t[0] == 'chain':
            return ('chain', to_tuple(t[1]), [(op, to_tuple(f)) for op, f in t[2]])
        return tuple(to_tuple(x) for x in t)
    return t


def conversion_replay(ctx, si, inp):
    from pgradd.Units import eval_qty, with_units, in_units, to_SI_from, from_SI_to
    if 'const' in inp:
        return gas_constant_check(ctx, si)
    if 'way' in inp:
        qtree, utree = to_tuple(inp['qty_tree']), to_tuple(inp['units_tree'])
        r = convert_way(inp['way'], inp['qty'], inp['units'])
        want = route_verdict(si, qtree, utree, inp['way'], r)
        if want is not None:
            ctx.violation('conversion between expressions whose exponents are written by different routes: %s' % inp['way'], inp, want, r)
    elif 'qty' in inp:
        r = L.call(lambda: eval_qty(inp['qty']).in_units(inp['units']))
        a, b = L.call(eval_qty, inp['qty']), L.call(eval_qty, inp['units'])
        if 'val' in a and 'val' in b:
            if a['dim'] == b['dim']:
                if 'val' not in r or not common.close(r['val'], a['val'] / b['val']):
                    ctx.violation('conversion to a compatible unit is not the ratio of magnitudes', inp, a['val'] / b['val'], r)
            elif r.get('err') != 'unitsError':
                ctx.violation('conversion to an incompatible unit does not raise the units error', inp, 'unitsError', r)
    elif 'units_as' in inp:
        x, u = inp['x'], inp['units']
        for pu in inp.get('object_units_converted_before', []):
            L.call(lambda: to_SI_from(1.0, eval_qty(pu)))
            L.call(lambda: from_SI_to(1.0, eval_qty(pu)))
        got = {'to_SI': L.call(lambda: to_SI_from(x, eval_qty(u))), 'from_SI': L.call(lambda: from_SI_to(x, eval_qty(u)))}
        want = {'to_SI': L.call(to_SI_from, x, u), 'from_SI': L.call(from_SI_to, x, u)}
        if got != want:
            ctx.violation('a conversion with the unit given as a quantity object differs from the one with the unit string', inp, want, got)
    else:
        x, u = inp['x'], inp['units']
        for nm, fn in (('in_units(with_units(x,u),u)', lambda: in_units(with_units(x, u), u)),
                       ('from_SI_to(to_SI_from(x,u),u)', lambda: from_SI_to(to_SI_from(x, u), u)),
                       ('to_SI_from(from_SI_to(x,u),u)', lambda: to_SI_from(from_SI_to(x, u), u))):
            rr = L.call(fn)
            if 'val' not in rr or not common.close(rr['val'], x):
                ctx.violation('%s is not x' % nm, inp, x, rr)


def replay(ctx, rec):
    with L.quiet():
        if 'import' in rec.get('input', rec):
            return L.importable(ctx)
        ctx.driver_ok = True
        si = L.SI(ctx)
        return _replay(ctx, si, rec, [])


LEVEL_TEXT = ('Lean 4 theorems over an executable model of pgradd/Units: (tables, kernel-decided on the regenerated live tables) every '
              'unit name x every prefix resolves to 10^k times the hand-written SI reference value with the reference dimension, the '
              'name collisions resolve to the unit, the prefix table is the SI one, the gas constant is R; every live unit the reference '
              'does not know takes over no existing spelling and has, with every prefix, the value its definition string means over the '
              'extended reference; (general, all inputs) a unit none of whose spellings had a meaning changes the value of no expression, '
              'the extended reference is a conservative extension of the reference by construction, the package and the extended reference '
              'agree exactly on every expression over exactly defined units; the '
              'parser and evaluator are correct on every expression tree of any depth built from numbers, names, *, /, juxtaposition, '
              'parentheses and integer powers (render/parse round trip), every token list of any length ends in a value, the units '
              'parse error or an arithmetic error (no other outcome), conversion is the ratio of magnitudes and the there-and-back laws '
              'hold. Tied to the code by the table translator and a correspondence run of eval_qty, the scanner and the conversion '
              'helpers. Right level: the quantifier is over all expressions and all names x prefixes, which only proof + exhaustive tables cover.')
LEVEL_NOTE = ('Trusted: Lean kernel; standard axioms; translator of the live unit tables; the correspondence harness; the decimal-literal '
              'abstraction (float arithmetic as exact rationals, so rounding/overflow are not exhibited); PGA/Spec/SI.lean (the '
              'reference table, with stated relative tolerances for units tied to measured constants) and PGA/Spec/SIExt.lean (a unit the '
              'reference does not know means what its definition string means over the reference extended by the earlier new units, '
              'provided none of its 21 spellings had a meaning: a unit with another value than its author intended is correct by '
              'definition). Partial: non-integer powers are proved for magnitude-1 bases only (otherwise the value is irrational and only '
              'compared numerically); a new unit with an irrational or non-positive magnitude or a fractional exponent, and a unit '
              'registered outside the definition lists of builtin.py, is outside the table obligations (reported without a failing input '
              'unless one of its spellings changes a meaning).')
TECHNIQUE = 'Lean 4 proof over hand-written model + correspondence check + table translator'
