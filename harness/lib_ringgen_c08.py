"""Grammar-directed generator of RING fragments (C08; the structured form is reused by the oracle `lib_embeds`).

A fragment is a plain dict, *independent of the implementation's parser and reader*:
  {'molprefix': [words], 'name': str,
   'items': [('atom', {'label', 'prefix', 'sym', 'suffix', 'chain': [cons], 'bond': None | (word, to_label)}),
             ('ringbond', l1, word, l2), ('stereo', l1, neg, kind, l2, l3, l4)]}
  cons = ('conn', neg, cn|None, {'prefix','sym','suffix'}, bondword|None) | ('ringsize', neg, cn)
       | ('radical', neg, cn) | ('nring', neg, cn);   cn = (op|None, digit)
`render(frag, rng)` writes it as RING text with random layout; `relabel(frag, rng)` renames the labels."""
import copy

CHARGE_PREFIX = ['positive', 'negative', 'neutral']
KIND_PREFIX = ['aromatic', 'olefinic', 'paraffinic']
RING_PREFIX = ['cyclic', 'linear']
ATOM_PREFIX = ['aromatic', 'nonaromatic', 'ringatom', 'nonringatom', 'allylic']
SUFFIX = ['+', '-', '.', ':', '+.', '-.', '*', '?', ':.']
BONDS = ['single', 'double', 'triple', 'quadruple', 'ring', 'nonring', 'aromatic', 'any', 'strong', 'partial']
OPS = ['>', '=', '<', '>=', '<=']
CLASS_SYMS = ['$', '&', 'X', 'M', 'any atom', 'heteroatom', 'heavy atom']
ELEM_SYMS = ['C', 'O', 'N', 'H', 'Pt', 'S', 'P', 'Cl', 'Si', 'Ru']
LOWER_SYMS = ['c', 'n', 'o']
# `AtomLabel` (the grammar's own rule name) is an ordinary label since the repair of FM2; it is in the pool so that random
# fragments and alpha-renamings use it in every position
LABEL_POOL = ['c1', 'c2', 'c3', 'a', 'b', 'x_1', 'Atom2', '_z', 'q9', 'C', 'H1', 'o', 'n7', 'lab', 'r2d2', 'A_b_C', 'm', 'k0', 'AtomLabel']


def atomtype_text(t):
    s = ''
    if t.get('prefix'):
        s += t['prefix'] + ' '
    s += t['sym']
    if t.get('suffix'):
        s += t['suffix']
    return s


def cn_text(cn):
    return (cn[0] or '') + str(cn[1])


def cons_tokens(c):
    neg = ['!'] if c[1] else []
    if c[0] == 'conn':
        _, _, cn, t, bw = c
        toks = neg + ['connected to'] + ([cn_text(cn)] if cn else []) + [atomtype_text(t)]
        if bw:
            toks += ['with', bw, 'bond']
        return toks
    if c[0] == 'ringsize':
        return neg + ['in ring of size', cn_text(c[2])]
    if c[0] == 'radical':
        return neg + ['has', cn_text(c[2]), 'radical electrons']
    if c[0] == 'nring':
        return neg + ['in', cn_text(c[2]), 'ring']
    raise ValueError(c)


def tokens(frag):
    """token list; the strings '{', '}', ',' may be glued to their neighbours, all others need white space between"""
    toks = list(frag['molprefix']) + ['fragment', frag['name'], '{']
    for it in frag['items']:
        if it[0] == 'atom':
            a = it[1]
            toks += [atomtype_text(a), 'labeled', a['label']]
            if a['bond']:
                toks += [a['bond'][0], 'bond to', a['bond'][1]]
            if a['chain']:
                toks.append('{')
                for k, c in enumerate(a['chain']):
                    if k:
                        toks.append(',')
                    toks += cons_tokens(c)
                toks.append('}')
        elif it[0] == 'ringbond':
            toks += ['ringbond', it[1], it[2], 'bond to', it[3]]
        elif it[0] == 'stereo':
            _, l1, neg, kind, l2, l3, l4 = it
            toks += ['stereo double bond', l1] + (['!'] if neg else []) + [kind, 'to', l2, 'for double bond between', l3, 'and', l4]
    toks.append('}')
    return toks


def render(frag, rng=None, plain=False):
    return render_gaps(frag, rng, plain)[0]


def render_gaps(frag, rng=None, plain=False):
    """(text, lead, gaps): gaps[k] is the filler written after token k (the last one is the trailing filler) - the
    `Layout` of PGA/Spec/RingLayout.lean"""
    toks = tokens(frag)
    gaps = []
    for k in range(1, len(toks)):
        t = toks[k]
        glue_ok = t in '{},' or toks[k - 1] in '{},!'
        if plain or rng is None:
            gaps.append(' ')
        elif glue_ok and rng.random() < 0.4:
            gaps.append('')
        else:
            gaps.append(''.join(rng.choice([' ', ' ', ' ', '\n', '\t', '  ', '\n    ']) for _ in range(rng.choice([1, 1, 1, 2]))))
    lead, trail = '', ''
    if rng is not None and not plain:
        lead, trail = rng.choice(['', ' ', '\n', '\n  \t']), rng.choice(['', ' ', '\n'])
    gaps.append(trail)
    text = lead + ''.join(t + g for t, g in zip(toks, gaps))
    return text, lead, gaps


def opaque(g):
    """PGA.Ring.Opaque for the shipped filler list: two or more filler characters, or a newline / tab among them"""
    return len(g) >= 2 or '\n' in g or '\t' in g


def gaps_alike(g1, g2):
    """PGA.C08.GapsAlike: the pair of layouts falls under the proved theorem C08_layout_irrelevant_partial"""
    return len(g1) == len(g2) and all(a == b or (opaque(a) and opaque(b)) for a, b in zip(g1[:-1], g2[:-1]))


def labels_of(frag):
    return [it[1]['label'] for it in frag['items'] if it[0] == 'atom']


def relabel(frag, rng):
    """the same fragment with fresh distinct label names (alpha-renaming) and another fragment name"""
    old = labels_of(frag)
    new = rng.sample(LABEL_POOL, len(set(old)))
    mp = dict(zip(sorted(set(old), key=old.index), new))
    g = copy.deepcopy(frag)
    g['name'] = rng.choice(['a', 'frag1', 'Q_', 'x9'])
    items = []
    for it in g['items']:
        if it[0] == 'atom':
            a = it[1]
            a['label'] = mp[a['label']]
            if a['bond']:
                a['bond'] = (a['bond'][0], mp.get(a['bond'][1], a['bond'][1]))
            items.append(('atom', a))
        elif it[0] == 'ringbond':
            items.append(('ringbond', mp.get(it[1], it[1]), it[2], mp.get(it[3], it[3])))
        else:
            _, l1, neg, kind, l2, l3, l4 = it
            items.append(('stereo', mp.get(l1, l1), neg, kind, mp.get(l2, l2), mp.get(l3, l3), mp.get(l4, l4)))
    g['items'] = items
    return g


# ------------------------------------------------------------------ random generation
def rand_cn(rng, small=True):
    op = rng.choice(OPS + [None])
    return (op, rng.choice([0, 1, 1, 2, 2, 3, 4, 5, 6] if small else list(range(10))))


def rand_sym(rng, lower_ok=True, weights=None):
    r = rng.random()
    if r < 0.62:
        return rng.choice(['C', 'C', 'C', 'C', 'O', 'N', 'H', 'H', 'Pt'] + ELEM_SYMS)
    if r < 0.94:
        return rng.choice(CLASS_SYMS)
    if lower_ok and r < 0.98:
        return rng.choice(LOWER_SYMS)
    return rng.choice(['C', 'Qq', 'Cl'])


def rand_atomtype(rng, lower_ok=True, star_ok=True):
    t = {'prefix': None, 'sym': rand_sym(rng, lower_ok), 'suffix': None}
    if rng.random() < 0.25:
        t['prefix'] = rng.choice(ATOM_PREFIX)
    r = rng.random()
    if r < 0.35:
        sfx = [s for s in SUFFIX if star_ok or s != '*']
        t['suffix'] = rng.choice(sfx + ['?', '.', '+', '-'])
    return t


def rand_cons(rng, lower_ok=True):
    k = rng.random()
    neg = rng.random() < 0.35
    if k < 0.5:
        return ('conn', neg, rand_cn(rng) if rng.random() < 0.75 else None, rand_atomtype(rng, lower_ok),
                rng.choice(BONDS) if rng.random() < 0.5 else None)
    if k < 0.7:
        return ('ringsize', neg, (rng.choice(OPS + [None]), rng.choice([0, 3, 3, 4, 5, 6, 6, 7])))
    if k < 0.85:
        return ('radical', neg, (rng.choice(OPS + [None]), rng.choice([0, 0, 1, 1, 2, 3])))
    return ('nring', neg, (rng.choice(OPS + [None]), rng.choice([0, 1, 1, 2, 3])))


def rand_molprefix(rng):
    out = []
    if rng.random() < 0.12:
        out.append(rng.choice(CHARGE_PREFIX))
    if rng.random() < 0.12:
        out.append(rng.choice(KIND_PREFIX))
    if rng.random() < 0.12:
        out.append(rng.choice(RING_PREFIX))
    return out


def rand_fragment(rng, natoms=None, lower_ok=True, stereo_ok=True):
    n = natoms or rng.choice([1, 1, 2, 2, 2, 3, 3, 3, 4, 4, 5, 6, 7, 8])
    labels = rng.sample(LABEL_POOL, n)
    items = []
    bonds = set()
    bondword = {}
    for i in range(n):
        t = rand_atomtype(rng, lower_ok)
        if n >= 5 and t['sym'] in ('$', 'any atom', 'X', 'heavy atom') and rng.random() < 0.7:
            t['sym'] = 'C'          # keep the candidate sets of big fragments small
        a = dict(t, label=labels[i], chain=[], bond=None)
        if i:
            j = rng.randrange(i) if rng.random() < 0.5 else i - 1
            w = rng.choice(['single'] * 5 + BONDS + ['any', 'double'])
            a['bond'] = (w, labels[j])
            bonds.add(frozenset((i, j)))
            bondword[frozenset((i, j))] = w
        nc = rng.choice([0, 0, 0, 1, 1, 2, 3]) if n <= 4 else rng.choice([0, 0, 0, 1])
        a['chain'] = [rand_cons(rng, lower_ok) for _ in range(nc)]
        items.append(('atom', a))
        if i >= 2 and rng.random() < 0.15:
            x, y = rng.sample(range(i + 1), 2)
            if frozenset((x, y)) not in bonds:
                w = rng.choice(['ring', 'single', 'any', 'aromatic', 'double'] + BONDS)   # every bond word can close a ring
                items.append(('ringbond', labels[x], w, labels[y]))
                bonds.add(frozenset((x, y)))
                bondword[frozenset((x, y))] = w
    frag = {'molprefix': rand_molprefix(rng), 'name': rng.choice(['a', 'f1', 'Grp_2', 'x']), 'items': items}
    if stereo_ok and n >= 4 and rng.random() < 0.5:
        add_stereo(frag, rng, labels, bonds, bondword)
    return frag


def add_stereo(frag, rng, labels, bonds, bondword):
    """append a `stereo double bond` statement over a declared double bond with a substituent on each end (if any)"""
    dbl = [b for b in bonds if bondword[b] == 'double']
    rng.shuffle(dbl)
    for b in dbl:
        i3, i4 = sorted(b)
        if rng.random() < 0.5:
            i3, i4 = i4, i3
        n3 = [next(iter(x - {i3})) for x in bonds if i3 in x and x != b]
        n4 = [next(iter(x - {i4})) for x in bonds if i4 in x and x != b]
        n3 = [x for x in n3 if frozenset((x, i4)) not in bonds]
        n4 = [x for x in n4 if frozenset((x, i3)) not in bonds]
        if n3 and n4:
            frag['items'].append(('stereo', labels[rng.choice(n3)], rng.random() < 0.3,
                                  rng.choice(['cis', 'trans', 'cis', 'trans', 'notspecified']),
                                  labels[rng.choice(n4)], labels[i3], labels[i4]))
            return True
    return False


def stereo_fragment(rng):
    """X-C=C-Y skeleton with a stereo statement (targets the stereo branch deliberately)"""
    l = rng.sample(LABEL_POOL, 4)
    s1, s2 = rng.choice(['C', 'C', 'H', '$', 'O', 'X']), rng.choice(['C', 'C', 'H', '$', 'O', 'X'])
    items = [('atom', dict(prefix=None, sym='C', suffix=None, label=l[0], chain=[], bond=None)),
             ('atom', dict(prefix=None, sym='C', suffix=None, label=l[1], chain=[], bond=('double', l[0]))),
             ('atom', dict(prefix=None, sym=s1, suffix=None, label=l[2], chain=[], bond=('single', l[0]))),
             ('atom', dict(prefix=None, sym=s2, suffix=None, label=l[3], chain=[], bond=('single', l[1]))),
             ('stereo', l[2], rng.random() < 0.3, rng.choice(['cis', 'trans', 'notspecified']), l[3],
              *rng.choice([(l[0], l[1]), (l[1], l[0])]))]
    return {'molprefix': [], 'name': 'st', 'items': items}


def dup_label_fragment(rng):
    """a label declared twice, as in the shipped `C. labeled c1  C? labeled c1 triple bond to c1`: later references go to
    the first declaration"""
    l = rng.choice(LABEL_POOL)
    l2 = rng.choice([x for x in LABEL_POOL if x != l])
    w = rng.choice(['single', 'double', 'triple', 'any', 'aromatic'])
    items = [('atom', dict(prefix=None, sym=rng.choice(['C', 'C', 'O', '$']), suffix=rng.choice([None, '.', '?']), label=l, chain=[], bond=None)),
             ('atom', dict(prefix=None, sym=rng.choice(['C', 'C', 'N', 'X']), suffix=rng.choice([None, '?']), label=l, chain=[], bond=(w, l)))]
    if rng.random() < 0.6:
        items.append(('atom', dict(prefix=None, sym=rng.choice(['H', 'C', '$']), suffix=None, label=l2, chain=[], bond=(rng.choice(['single', 'any']), l))))
    return {'molprefix': [], 'name': 'dup', 'items': items}


def atomlabel_fragment(rng):
    """an atom that is called `AtomLabel` with bonded atoms after it (the class of the repaired finding FM2), also declared
    twice / referred to from a ring bond"""
    l2, l3 = rng.sample([x for x in LABEL_POOL if x != 'AtomLabel'], 2)
    items = [('atom', dict(prefix=None, sym='C', suffix=rng.choice([None, None, '?']), label='AtomLabel', chain=[], bond=None))]
    if rng.random() < 0.9:
        items.append(('atom', dict(prefix=None, sym=rng.choice(['C', 'H', 'O']), suffix=None, label=l2, chain=[], bond=('single', 'AtomLabel'))))
        r = rng.random()
        if r < 0.3:
            items.append(('atom', dict(prefix=None, sym=rng.choice(['C', 'H', '$']), suffix=None, label=l3, chain=[], bond=(rng.choice(['single', 'any']), rng.choice([l2, 'AtomLabel'])))))
        elif r < 0.5:
            items.append(('atom', dict(prefix=None, sym='C', suffix='?', label='AtomLabel', chain=[], bond=(rng.choice(['single', 'double', 'any']), l2))))
        elif r < 0.65:
            items.append(('atom', dict(prefix=None, sym='C', suffix='?', label=l3, chain=[], bond=('any', l2))))
            items.append(('ringbond', l3, 'any', 'AtomLabel'))
    return {'molprefix': [], 'name': 'al', 'items': items}


# ------------------------------------------------------------------ bounded-exhaustive small fragments
def small_fragments(thorough=False):
    """every fragment with one atom and at most one constraint / one prefix / one suffix / one molecule prefix, and
    every two-atom fragment over a small symbol set with every bond word (one feature varied at a time, and pairs)"""
    out = []

    def atom(sym='C', prefix=None, suffix=None, chain=(), bond=None, label='c1'):
        return ('atom', dict(prefix=prefix, sym=sym, suffix=suffix, label=label, chain=list(chain), bond=bond))

    def frag(items, mp=()):
        return {'molprefix': list(mp), 'name': 'a', 'items': list(items)}
    syms = ['C', 'O', 'H', 'Pt', '$', '&', 'X', 'M', 'any atom', 'heteroatom', 'heavy atom', 'N']
    # 1 atom: symbol x suffix, symbol x prefix
    for s in syms:
        for sf in [None] + SUFFIX:
            out.append(frag([atom(s, suffix=sf)]))
        for p in ATOM_PREFIX:
            out.append(frag([atom(s, prefix=p)]))
    # lower-case (aromatic) element symbols (F22, repaired): symbol x suffix / prefix, pairs over an aromatic / any bond
    for s in LOWER_SYMS + ['pt']:
        for sf in [None] + SUFFIX:
            out.append(frag([atom(s, suffix=sf)]))
        for p in ATOM_PREFIX:
            out.append(frag([atom(s, prefix=p)]))
        for s2 in ['c', 'C', 'H', 'n']:
            for bw in ['aromatic', 'any', 'single', 'ring']:
                out.append(frag([atom(s, suffix='?', label='c1'), atom(s2, suffix='?', label='c2', bond=(bw, 'c1'))]))
        for neg in (False, True):
            out.append(frag([atom('C', suffix='?', chain=[('conn', neg, ('>=', 1), dict(prefix=None, sym=s, suffix='?'), 'any')])]))
    # molecule prefixes: every legal combination
    for c in [None] + CHARGE_PREFIX:
        for k in [None] + KIND_PREFIX:
            for r in [None] + RING_PREFIX:
                mp = [w for w in (c, k, r) if w]
                if mp:
                    out.append(frag([atom('C')], mp))
                    if thorough:
                        out.append(frag([atom('$', suffix='?')], mp))
    # one constraint: every form x negation x operator x number
    for neg in (False, True):
        for op in OPS + [None]:
            for n in ([0, 1, 2, 3, 4] if not thorough else range(0, 7)):
                for form in ('ringsize', 'radical', 'nring'):
                    num = n + 3 if form == 'ringsize' and n else n
                    out.append(frag([atom('C', suffix='?', chain=[(form, neg, (op, num))])]))
                for tsym, bw in [('H', None), ('C', None), ('C', 'double'), ('$', 'any'), ('O', 'strong')]:
                    out.append(frag([atom('C', suffix='?', chain=[('conn', neg, (op, n), dict(prefix=None, sym=tsym, suffix=None), bw)])]))
        # defaults: no number, every bond word, prefixed / suffixed target
        for bw in [None] + BONDS:
            out.append(frag([atom('C', chain=[('conn', neg, None, dict(prefix=None, sym='C', suffix=None), bw)])]))
            out.append(frag([atom('$', suffix='?', chain=[('conn', neg, (None, 1), dict(prefix=None, sym='$', suffix='?'), bw)])]))
        for p in ATOM_PREFIX:
            out.append(frag([atom('C', chain=[('conn', neg, ('>=', 1), dict(prefix=p, sym='C', suffix=None), 'any')])]))
        for sf in SUFFIX:
            out.append(frag([atom('C', suffix='?', chain=[('conn', neg, ('>=', 1), dict(prefix=None, sym='C', suffix=sf), 'any')])]))
    # 2 atoms: symbols x bond word
    for s1 in ['C', 'O', '$', 'X', 'Pt', 'H']:
        for s2 in ['C', 'H', '$', '&', 'M']:
            for bw in BONDS:
                out.append(frag([atom(s1, label='c1'), atom(s2, label='c2', bond=(bw, 'c1'))]))
    # 2 atoms with one constraint / prefix / suffix on either atom
    for bw in ['single', 'double', 'any', 'ring', 'aromatic']:
        for sf in SUFFIX:
            out.append(frag([atom('C', suffix=sf), atom('C', label='c2', bond=(bw, 'c1'))]))
            out.append(frag([atom('C'), atom('$', suffix=sf, label='c2', bond=(bw, 'c1'))]))
        for p in ATOM_PREFIX:
            out.append(frag([atom('C', prefix=p), atom('C', label='c2', bond=(bw, 'c1'))]))
            out.append(frag([atom('C'), atom('C', prefix=p, label='c2', bond=(bw, 'c1'))]))
    return out


def alike_variant(frag, lead, gaps, rng):
    """another layout of the same tokens that `gaps_alike` relates to (lead, gaps): every opaque gap replaced by a random opaque
    gap, single blanks and closed gaps kept, lead and trail redrawn - the class the proved layout theorem covers"""
    toks = tokens(frag)
    pool = ['\n', '\t', '  ', '\n    ', ' \n', '\t\t', '\n\n  ', ' \t ']
    g2 = [rng.choice(pool) if opaque(g) else g for g in gaps[:-1]] + [rng.choice(['', ' ', '\n', '  \n\t'])]
    lead2 = rng.choice(['', ' ', '\n', '\t  ', '\n\n'])
    return lead2 + ''.join(t + g for t, g in zip(toks, g2)), lead2, g2


def reroot(frag, root):
    """the same fragment written from another end: the atoms declared in breadth-first order from the atom labelled `root`,
    every atom bonded to the atom it was reached from, the bonds that close cycles as `ringbond` items, the stereo items last.
    Same atoms (type, constraints), same bonds, same stereo clauses - it denotes the same embeddings up to the order of the
    atoms in a match, hence the same SETS of matched atoms.  None when the fragment's bond graph is not connected from `root`
    or a label is declared twice."""
    atoms = {}
    order = []
    for it in frag['items']:
        if it[0] == 'atom':
            if it[1]['label'] in atoms:
                return None
            atoms[it[1]['label']] = it[1]
            order.append(it[1]['label'])
    if root not in atoms:
        return None
    edges = []
    for it in frag['items']:
        if it[0] == 'atom' and it[1]['bond']:
            edges.append((it[1]['label'], it[1]['bond'][1], it[1]['bond'][0]))
        elif it[0] == 'ringbond':
            edges.append((it[1], it[3], it[2]))
    if any(a not in atoms or b not in atoms for a, b, _ in edges):
        return None
    used = [False] * len(edges)
    seen, queue, items = [root], [root], []
    items.append(('atom', dict(atoms[root], bond=None)))
    while queue:
        x = queue.pop(0)
        for k, (a, b, w) in enumerate(edges):
            if used[k] or x not in (a, b):
                continue
            y = b if a == x else a
            if y in seen:
                continue
            used[k] = True
            seen.append(y)
            queue.append(y)
            items.append(('atom', dict(atoms[y], bond=(w, x))))
    if len(seen) != len(order):
        return None
    for k, (a, b, w) in enumerate(edges):
        if not used[k]:
            items.append(('ringbond', a, w, b))
    items += [it for it in frag['items'] if it[0] == 'stereo']
    g = copy.deepcopy(frag)
    g['items'] = copy.deepcopy(items)
    return g
