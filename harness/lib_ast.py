"""Parse trees of the implementation's own RING parser, serialised for the model driver.

`parse_to_json(text)` runs `pgradd.RINGParser.Parser.parse` (the real parser of $REPO) and turns the token tree
`[RINGToken(name), child, ...]` into `{"n": name, "c": [children]}`; `str` leaves stay JSON strings and the `int`
leaves of `Digit`/`Number` become their decimal ASCII rendering (the convention of `PGA/Model/Ast.lean`)."""


def ast_to_json(t):
    if isinstance(t, list):
        head = t[0]
        name = getattr(head, 'name', None)
        if name is None:
            raise TypeError('tree node without a RINGToken head: %r' % (head,))
        return {'n': name, 'c': [ast_to_json(c) for c in t[1:]]}
    if isinstance(t, bool):
        raise TypeError('unexpected bool leaf')
    if isinstance(t, int):
        return str(t)
    if isinstance(t, str):
        return t
    raise TypeError('unexpected leaf %r' % (t,))


def parse_to_json(text):
    from pgradd.RINGParser import Parser
    return ast_to_json(Parser.parse(text))
