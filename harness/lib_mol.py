"""Molecule graphs for the model (assumption A-graph).

`mol_to_json(rdkit_mol)` extracts what `PGA/Model/Mol.lean` holds from an RDKit molecule using RDKit calls only
— nothing of the repository under verification is imported here, so the same extraction serves C02-C04, C08, C16.
`check_graph(rdkit_mol, j)` re-validates the consistency facts the model relies on (part of the A-graph check)."""
from rdkit import Chem

_BT = Chem.BondType
KIND = {_BT.SINGLE: 'single', _BT.DOUBLE: 'double', _BT.TRIPLE: 'triple', _BT.QUADRUPLE: 'quadruple',
        _BT.AROMATIC: 'aromatic', _BT.ZERO: 'zero', _BT.DATIVE: 'dative', _BT.OTHER: 'other'}
_BS = Chem.BondStereo
STEREO = {_BS.STEREONONE: 'none', _BS.STEREOANY: 'any', _BS.STEREOZ: 'z', _BS.STEREOE: 'e',
          _BS.STEREOCIS: 'cis', _BS.STEREOTRANS: 'trans'}


class UnsupportedGraph(Exception):
    """the molecule has a feature the graph model does not represent (an UNSPECIFIED bond type)"""


def kind_of(bond):
    bt = bond.GetBondType()
    if bt == _BT.UNSPECIFIED:
        raise UnsupportedGraph('bond of type UNSPECIFIED (the library turns these into ZERO before matching)')
    return KIND.get(bt, 'misc')


def mol_to_json(mol):
    """RDKit molecule -> {"atoms": [[Z, charge, radicals, aromatic, total valence or -1]], "bonds": [[a, b, kind,
    in ring, stereo, [stereo atoms]]], "rings": [[atom indices]]}; explicit hydrogens are ordinary atoms, implicit
    ones are not represented (callers pass `Chem.AddHs(mol)` when the code under test does)."""
    atoms = []
    for a in mol.GetAtoms():
        try:
            v = int(a.GetTotalValence())
        except Exception:
            v = -1
        atoms.append([a.GetAtomicNum(), a.GetFormalCharge(), a.GetNumRadicalElectrons(), 1 if a.GetIsAromatic() else 0, v])
    ri = mol.GetRingInfo()
    try:
        rings = [list(r) for r in ri.AtomRings()]
        ring_ok = True
    except Exception:
        rings, ring_ok = [], False
    bonds = []
    for b in mol.GetBonds():
        bonds.append([b.GetBeginAtomIdx(), b.GetEndAtomIdx(), kind_of(b), 1 if (ring_ok and b.IsInRing()) else 0,
                      STEREO.get(b.GetStereo(), 'any'), [int(x) for x in b.GetStereoAtoms()]])
    return {'atoms': atoms, 'bonds': bonds, 'rings': rings}


def check_graph(mol, j):
    """consistency facts of RDKit the model uses: returns a list of violated ones (empty = fine)"""
    bad = []
    # stability: querying ring membership must not change the ring information (it does when RDKit does not regard the
    # stored rings as an SSSR, e.g. straight after Chem.RenumberAtoms)
    for a in mol.GetAtoms():
        a.IsInRing()
    for b in mol.GetBonds():
        b.IsInRing()
    if mol_to_json(mol) != j:
        bad.append('ring information changes when atom.IsInRing()/bond.IsInRing() are called')
        return bad
    n = mol.GetNumAtoms()
    rings = j['rings']
    for a in mol.GetAtoms():
        i = a.GetIdx()
        if a.IsInRing() != any(i in r for r in rings):
            bad.append('atom.IsInRing != membership in AtomRings at %d' % i)
        if [b.GetIdx() for b in a.GetBonds()] != [k for k, b in enumerate(j['bonds']) if i in (b[0], b[1])]:
            bad.append('atom.GetBonds order at %d' % i)
    ring_edges = set()
    for r in rings:
        if len(set(r)) != len(r):
            bad.append('ring with a repeated atom')
        for k in range(len(r)):
            ring_edges.add(frozenset((r[k], r[(k + 1) % len(r)])))
    for b in j['bonds']:
        if (b[3] == 1) != (frozenset((b[0], b[1])) in ring_edges):
            bad.append('bond.IsInRing != consecutive in an AtomRing at %d-%d' % (b[0], b[1]))
        if not (0 <= b[0] < n and 0 <= b[1] < n and b[0] != b[1]):
            bad.append('bond endpoints')
    if len(set(frozenset((b[0], b[1])) for b in j['bonds'])) != len(j['bonds']):
        bad.append('parallel bonds')
    if mol.GetRingInfo().NumRings() != len(rings):
        bad.append('NumRings != len(AtomRings)')
    return bad
