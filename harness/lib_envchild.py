"""The package under another interpreter mode: a child process started with given interpreter options (`-O`, `-OO`,
`-W error`, a fixed hash seed ...) that answers requests over a JSON line protocol, so that a check can ask "what does the
real code return for this input in THAT environment" and compare it with what the property demands.

Used by C08 (fragment x molecule), C16 (rule x reactant) and C17 (rules x seeds).  The child imports only the package under
test, RDKit and the standard library - none of the harness's oracles - and reports results in the canonical forms the
checks use in-process.  Run as `python <options> -m harness.lib_envchild`.

Modes the checks start (name -> interpreter options / environment):"""
import sys, os, json, base64, subprocess

MODES = {
    'O': {'argv': ['-O'], 'env': {}},                          # assert statements compiled away, __debug__ False
    'OO': {'argv': ['-OO'], 'env': {}},                        # ... and docstrings dropped
    'Werror': {'argv': ['-W', 'error'], 'env': {}},            # every warning raised as an exception
    'OO+hash': {'argv': ['-OO'], 'env': {'PYTHONHASHSEED': '12345'}},
    'O+Werror': {'argv': ['-O', '-W', 'error'], 'env': {}},
    'plain': {'argv': [], 'env': {}},                          # control: the child itself changes nothing
}


def _child_env(m):
    env = dict(os.environ)
    env.pop('PYTHONOPTIMIZE', None)
    env.pop('PYTHONWARNINGS', None)
    env.pop('PYTHONHASHSEED', None)
    env.update(m['env'])
    return env


def spawn_batch(mode, request_file, reply_file):
    """a child in `mode` that answers the requests of a JSON-lines file into another file; returns the Popen object"""
    m = MODES[mode]
    here = os.path.dirname(os.path.dirname(os.path.abspath(__file__)))
    return subprocess.Popen([sys.executable] + m['argv'] + ['-m', 'harness.lib_envchild'], cwd=here, env=_child_env(m),
                            stdin=open(request_file), stdout=open(reply_file, 'w'), stderr=subprocess.DEVNULL)


class EnvChild(object):
    """a running child interpreter in one mode; `ask(req)` -> reply dict"""

    def __init__(self, mode):
        m = MODES[mode]
        self.mode = mode
        env = _child_env(m)
        here = os.path.dirname(os.path.dirname(os.path.abspath(__file__)))
        self.p = subprocess.Popen([sys.executable] + m['argv'] + ['-m', 'harness.lib_envchild'], cwd=here, env=env,
                                  stdin=subprocess.PIPE, stdout=subprocess.PIPE, stderr=subprocess.DEVNULL, text=True)
        hello = self.ask({'op': 'hello'})
        self.facts = hello

    def ask(self, req):
        self.p.stdin.write(json.dumps(req) + '\n')
        self.p.stdin.flush()
        line = self.p.stdout.readline()
        if not line:
            from . import common
            raise common.MachineryError('the %s child interpreter ended unexpectedly (exit %r)' % (self.mode, self.p.poll()))
        return json.loads(line)

    def ask_many(self, reqs):
        return [self.ask(r) for r in reqs]

    def close(self):
        try:
            self.p.stdin.close()
            self.p.wait(timeout=20)
        except Exception:
            self.p.kill()


# ------------------------------------------------------------------------------------------------ child side
def _exc(e):
    from pgradd.Error import RINGSyntaxError, RINGReaderError
    for t, name in [(RINGSyntaxError, 'syntax'), (RINGReaderError, 'reader'), (NotImplementedError, 'notImplemented')]:
        if isinstance(e, t):
            return name
    return 'internal:' + type(e).__name__


def _mol(req):
    from rdkit import Chem
    if 'molpkl' in req:
        return Chem.Mol(base64.b64decode(req['molpkl']))
    return Chem.MolFromSmiles(req['smiles'])


def _canon_sets(product_sets):
    """product sets as sorted lists of canonical SMILES (hydrogens as atoms removed where RDKit can), in the order returned"""
    from rdkit import Chem
    out = []
    for ps in product_sets:
        names = []
        for m in ps:
            try:
                m2 = Chem.Mol(m)
                Chem.SanitizeMol(m2)
                names.append(Chem.MolToSmiles(Chem.RemoveHs(m2)))
            except Exception:
                names.append('?' + Chem.MolToSmiles(m))
        out.append(sorted(names))
    return out


def _serve():
    import io, contextlib, warnings
    from rdkit import Chem, RDLogger
    RDLogger.DisableLog('rdApp.*')
    reads = {}
    for line in sys.stdin:
        req = json.loads(line)
        op = req.get('op')
        try:
            if op == 'hello':
                try:
                    assert False
                    asserts = False
                except AssertionError:
                    asserts = True
                rep = {'asserts': asserts, 'debug': __debug__, 'optimize': sys.flags.optimize,
                       'warnoptions': list(sys.warnoptions), 'hashseed': os.environ.get('PYTHONHASHSEED')}
            elif op == 'match':
                # C08: Read(text).GetQueryMatches(mol), sorted; the read outcome as the class enum of the check
                from pgradd.RINGParser.Reader import Read
                text = req['text']
                if text not in reads:
                    try:
                        reads[text] = (Read(text), 'ok')
                    except Exception as e:
                        reads[text] = (None, _exc(e))
                q, cls = reads[text]
                rep = {'read': cls}
                if q is not None:
                    try:
                        with contextlib.redirect_stdout(io.StringIO()):
                            r = q.GetQueryMatches(_mol(req))
                        rep['matches'] = sorted([int(x) for x in t] for t in r)
                    except Exception as e:
                        rep['matches'] = ['exc', type(e).__name__]
            elif op == 'rule':
                # C16: Read(rule text).RunReactants(mol) -> product sets in the canonical form of harness/c16.py (run_sets)
                from . import c16
                c16.rd()
                rq, cls = c16.impl_read(req['text'])
                rep = {'read': cls}
                if rq is not None:
                    with contextlib.redirect_stdout(io.StringIO()):
                        r = c16.run_sets(rq, _mol(req))
                    rep['products'] = r[1] if r[0] == 'ok' else ['exc', r[1]]
            elif op == 'net':
                # C17: GenerateRxnNet(seeds, rule texts) in the canonical form of harness/c17.py (run_impl)
                from . import c17
                with contextlib.redirect_stdout(io.StringIO()):
                    st, keys = c17.run_impl(list(req['seeds']), list(req['rules']))
                rep = {'status': st, 'keys': keys}
            else:
                rep = {'error': 'unknown op'}
        except Exception as e:      # the child's own failure: reported as such, never as a result of the package
            rep = {'childerror': '%s: %s' % (type(e).__name__, e)}
        sys.stdout.write(json.dumps(rep) + '\n')
        sys.stdout.flush()


if __name__ == '__main__':
    _serve()
