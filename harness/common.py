"""Shared machinery of the checks (DESIGN.md 2.5): translate -> build -> audit -> corpus ->
correspondence + property oracle -> search -> known findings -> evidence.

Exit codes: 0 held, 1 violation (a `VIOLATION property=<id> replay=<path>` line was printed),
2 machinery failure / timeout.
"""
import os, sys, json, time, random, subprocess, hashlib, re, fcntl, tempfile, shutil, collections, traceback

HERE = os.path.dirname(os.path.abspath(__file__))
VERIF = os.path.dirname(HERE)
LEAN_DIR = os.path.join(VERIF, 'lean')
REPO = os.environ.get('REPO', '/repo')
GUARD = 'PGRADD_VERIF'
DRIVER = os.path.join(LEAN_DIR, '.lake', 'build', 'bin', 'pgadriver')
ALLOWED_AXIOMS = {'propext', 'Classical.choice', 'Quot.sound'}
FORBIDDEN = re.compile(r'\bsorry\b|\badmit\b|^\s*axiom\s|native_decide|bv_decide|implemented_by|\bunsafe\s|maxHeartbeats\s+0\b', re.M)

TRUSTED_BASE = [
    'Lean 4.33 kernel (leanchecker re-check in the thorough tier)',
    'axioms: propext, Classical.choice, Quot.sound only (audited with #print axioms on every run); no native_decide/bv_decide/sorry',
    'translator harness/translate.py (prints live objects of the working tree as Lean literals)',
    'correspondence harness (differential run of the compiled model driver and the implementation)',
    'Lean compiler/runtime for the driver executable (executes the model; proves nothing)',
    'decimal-literal abstraction: floats read as the exact decimal of their shortest repr, arithmetic modelled in Rat',
]


def setup_imports():
    """Make `import pgradd` resolve to $REPO with hooks on."""
    os.environ[GUARD] = '1'
    if sys.path[0] != REPO:
        sys.path.insert(0, REPO)
    import warnings
    warnings.filterwarnings('ignore')


def strip_lean_comments(src):
    out = []
    i, n, depth = 0, len(src), 0
    while i < n:
        if src.startswith('/-', i):
            depth += 1
            i += 2
        elif depth and src.startswith('-/', i):
            depth -= 1
            i += 2
        elif depth:
            if src[i] == '\n':
                out.append('\n')
            i += 1
        elif src.startswith('--', i):
            while i < n and src[i] != '\n':
                i += 1
        elif src[i] == '"':
            j = i + 1
            while j < n and src[j] != '"':
                j += 2 if src[j] == '\\' else 1
            out.append('""')
            i = j + 1
        else:
            out.append(src[i])
            i += 1
    return ''.join(out)


class Lock:
    def __init__(self):
        self.path = os.path.join(LEAN_DIR, '.lake.lock')

    def __enter__(self):
        os.makedirs(LEAN_DIR, exist_ok=True)
        self.f = open(self.path, 'w')
        fcntl.flock(self.f, fcntl.LOCK_EX)
        return self

    def __exit__(self, *a):
        fcntl.flock(self.f, fcntl.LOCK_UN)
        self.f.close()


def run_cmd(cmd, cwd=None, timeout=None, env=None, input=None):
    try:
        p = subprocess.run(cmd, cwd=cwd, timeout=timeout, env=env, input=input,
                           stdout=subprocess.PIPE, stderr=subprocess.STDOUT, text=True)
        return p.returncode, p.stdout
    except subprocess.TimeoutExpired as e:
        return 124, (e.stdout or '') if isinstance(e.stdout, str) else ''


class MachineryError(Exception):
    pass


class ImplFailure(Exception):
    """The implementation refused or crashed on an input the harness builds as part of its set-up (a constructor call with
    valid arguments, a load of a file the harness wrote, ...).  That is a failure of the code under test on a concrete input —
    reported as a violation with that input — not a failure of the machinery."""

    def __init__(self, what, input, exc):
        Exception.__init__(self, what)
        self.what, self.input, self.exc = what, input, exc


class Ctx:
    def __init__(self, prop, tier, seed):
        self.prop = prop
        self.tier = tier
        self.seed = seed
        self.rng = random.Random((hash(prop) & 0) + seed * 1000003 + sum(map(ord, prop)))
        self.t0 = time.time()
        self.deadline = self.t0 + (float(os.environ.get('VERIF_BUDGET_S', 0)) or (3000 if tier == 'thorough' else 840))
        self.obligations = []          # theorem names
        self.discharged = []
        self.broken = []               # [{'kind': 'obligation'|'tie'|'translator'|'driver', 'name':..., 'detail':...}]
        self.violations = []           # unknown violations
        self.known_seen = collections.OrderedDict()
        self.disagreements = []
        self.stats = collections.Counter()
        self.samples = []
        self.evaluations = 0
        self.nontrivial = set()
        self.rule = ''
        self.assumption_checks = {}
        self.extra = {}
        self.driver_ok = False
        self.props_ok = False
        self.known = load_known()
        self.scratch = tempfile.mkdtemp(prefix='pga-%s-' % prop)
        import atexit
        atexit.register(shutil.rmtree, self.scratch, True)      # also on a machinery error or an exception: nothing stays under /tmp
        self.searching = False

    # ------------------------------------------------------------------ bookkeeping
    def time_left(self):
        return self.deadline - time.time()

    def thorough(self):
        return self.tier == 'thorough'

    def n(self, quick, thorough):
        """size parameter by tier (multiplied while searching for a failing input)"""
        v = thorough if self.tier == 'thorough' else quick
        return v * 4 if self.searching else v

    def count(self, key, k=1):
        self.stats[key] += k

    def case(self, key=None, sample=None):
        """one evaluated case; `key` identifies it for distinct/non-trivial counting (None = trivial)"""
        self.evaluations += 1
        if key is not None:
            self.nontrivial.add(key if isinstance(key, (str, int, tuple)) else json.dumps(key, sort_keys=True, default=str))
        if sample is not None and len(self.samples) < 12:
            self.samples.append(sample)

    # ------------------------------------------------------------------ build steps
    def translate(self, names):
        from . import translate
        try:
            with Lock():
                res = translate.generate(names)
            self.extra['translated'] = {k: ('changed' if v[1] else 'same') for k, v in res.items()}
            return True
        except Exception as e:
            self.broken.append({'kind': 'translator', 'name': 'translate:' + ','.join(names),
                                'detail': ''.join(traceback.format_exception_only(type(e), e)).strip()[-2000:]})
            return False

    def lake_build(self, targets):
        with Lock():
            rc, out = run_cmd(['lake', 'build'] + list(targets), cwd=LEAN_DIR, timeout=max(60, min(3000, self.time_left())))
        return rc, out

    def build(self, props_modules, obligations):
        """Build the property modules (proof obligations) and the driver."""
        self.obligations = list(obligations)
        from . import mkdriver
        with Lock():
            mkdriver.main()
        rc, out = self.lake_build(props_modules)
        if rc == 124:
            raise MachineryError('lake build timed out')
        if rc != 0:
            names = failing_theorems(out)
            if not names:
                raise MachineryError('lake build failed without a Lean error position: ' + out[-1500:])
            for nm, detail in names:
                self.broken.append({'kind': 'obligation', 'name': nm, 'detail': detail})
            self.props_ok = False
        else:
            self.props_ok = True
        rc, out = self.lake_build(['pgadriver'])
        if rc == 124:
            raise MachineryError('driver build timed out')
        self.driver_ok = (rc == 0 and os.path.exists(DRIVER))
        if not self.driver_ok:
            names = failing_theorems(out)
            if not names:
                raise MachineryError('driver build failed without a Lean error position: ' + out[-1500:])
            for nm, detail in names:
                self.broken.append({'kind': 'driver', 'name': nm, 'detail': detail})
        if self.props_ok:
            self.audit(props_modules)
            if self.tier == 'thorough':
                # independent re-check of the compiled proofs by the toolchain's leanchecker
                rc, out = run_cmd(['lake', 'env', 'leanchecker'] + list(props_modules), cwd=LEAN_DIR, timeout=1500)
                self.extra.setdefault('coverage', {})['leanchecker'] = 'ok' if rc == 0 else ('failed: ' + out[-400:])
                if rc == 124:
                    raise MachineryError('leanchecker timed out')
                if rc != 0:
                    self.broken.append({'kind': 'obligation', 'name': 'leanchecker:' + ','.join(props_modules), 'detail': out[-800:]})

    def audit(self, props_modules):
        # 1. forbidden tokens in the sources
        bad = []
        for root, _, files in os.walk(os.path.join(LEAN_DIR, 'PGA')):
            for f in files:
                if f.endswith('.lean'):
                    p = os.path.join(root, f)
                    if os.sep + 'Gen' + os.sep in p and os.path.getsize(p) > 400000:
                        continue
                    src = strip_lean_comments(open(p, encoding='utf-8').read())
                    m = FORBIDDEN.search(src)
                    if m:
                        bad.append('%s: %s' % (os.path.relpath(p, LEAN_DIR), m.group(0).strip()))
        if bad:
            raise MachineryError('forbidden construct in Lean sources: ' + '; '.join(bad))
        # 2. axioms of every obligation
        lines = ['import %s' % m for m in props_modules]
        lines += ['#print axioms %s' % t for t in self.obligations]
        path = os.path.join(self.scratch, 'Audit.lean')
        with open(path, 'w') as f:
            f.write('\n'.join(lines) + '\n')
        rc, out = run_cmd(['lake', 'env', 'lean', path], cwd=LEAN_DIR, timeout=600)
        if rc != 0 and 'depends on' not in out and 'does not depend' not in out:
            raise MachineryError('axiom audit could not run: ' + out[-800:])
        found = {}
        for m in re.finditer(r"'([^']+)' (does not depend on any axioms|depends on axioms: \[([^\]]*)\])", out):
            ax = set(a.strip() for a in (m.group(3) or '').replace('\n', ' ').split(',') if a.strip())
            found[m.group(1)] = ax
        self.extra['axioms'] = {}
        for t in self.obligations:
            full = [k for k in found if k == t or k.endswith('.' + t)]
            if not full:
                self.broken.append({'kind': 'obligation', 'name': t, 'detail': 'theorem not found by the audit: ' + out[-800:]})
                continue
            ax = found[full[0]]
            self.extra['axioms'][t] = sorted(ax)
            if ax - ALLOWED_AXIOMS:
                raise MachineryError('theorem %s depends on axioms %s' % (t, sorted(ax - ALLOWED_AXIOMS)))
            self.discharged.append(t)

    # ------------------------------------------------------------------ driver
    def model(self, requests):
        """Run the model driver on a batch of requests; returns list of replies (dicts)."""
        if not self.driver_ok:
            return None
        if not requests:
            return []
        data = '\n'.join(json.dumps(r, ensure_ascii=True) for r in requests) + '\n'
        p = subprocess.run([DRIVER], input=data, stdout=subprocess.PIPE, stderr=subprocess.PIPE, text=True,
                           timeout=max(30, self.time_left()))
        outs = [l for l in p.stdout.split('\n') if l.strip()]
        if p.returncode != 0 or len(outs) != len(requests):
            raise MachineryError('driver failed rc=%s, %d replies for %d requests: %s' %
                                 (p.returncode, len(outs), len(requests), p.stderr[-500:]))
        res = [json.loads(l) for l in outs]
        for r, q in zip(res, requests):
            if isinstance(r, dict) and 'driver_error' in r:
                raise MachineryError('driver error %r on %r' % (r['driver_error'], q))
        return res

    # ------------------------------------------------------------------ findings
    def violation(self, what, input, expected=None, observed=None, finding=None, kind='property'):
        """The *property* fails on the real code at `input`. `finding` = id in known_findings.json (or None)."""
        ent = self.known.get(finding) if finding else None
        if ent and ent.get('status') == 'known' and self.prop in ent.get('properties', [ent.get('property')]):
            if finding not in self.known_seen:
                self.known_seen[finding] = {'what': ent['what'], 'count': 0, 'example': input}
            self.known_seen[finding]['count'] += 1
            return False
        self.violations.append({'what': what, 'input': input, 'expected': expected, 'observed': observed,
                                'kind': kind, 'finding': finding})
        return True

    def disagree(self, what, input, impl, model):
        """Model and implementation differ on `input` (the tie is broken; not by itself a violation)."""
        self.disagreements.append({'what': what, 'input': input, 'impl': impl, 'model': model})
        if not any(b['kind'] == 'tie' and b['name'] == what for b in self.broken):
            self.broken.append({'kind': 'tie', 'name': what, 'detail': json.dumps({'input': input, 'impl': impl, 'model': model}, default=str)[:1500]})

    def assumption(self, name, ok, detail=''):
        self.assumption_checks[name] = {'ok': bool(ok), 'detail': detail}
        if not ok:
            raise MachineryError('assumption check %s failed: %s' % (name, detail))

    # ------------------------------------------------------------------ finish
    def write_replay(self, rec):
        os.makedirs(os.path.join(VERIF, 'replays'), exist_ok=True)
        blob = json.dumps(rec, sort_keys=True, default=str)
        h = hashlib.sha1(blob.encode()).hexdigest()[:12]
        rel = os.path.join('replays', '%s-%s.json' % (self.prop, h))
        with open(os.path.join(VERIF, rel), 'w') as f:
            json.dump(rec, f, indent=1, sort_keys=True, default=str)
        return rel

    def finish(self):
        rc = 0
        for fid, k in self.known_seen.items():
            print('KNOWN-FINDING: property=%s %s [%s; seen %d time(s), e.g. %s]' %
                  (self.prop, k['what'], fid, k['count'], json.dumps(k['example'], default=str)[:200]))
        if self.violations:
            rc = 1
            seen = set()
            for v in self.violations:
                key = (v['what'], v.get('finding'))
                if key in seen:
                    continue
                seen.add(key)
                rec = dict(v, property=self.prop, seed=self.seed, tier=self.tier,
                           broken=self.broken, how='./check %s --replay <this file>' % self.prop)
                rel = self.write_replay(rec)
                print('VIOLATION property=%s replay=%s' % (self.prop, rel))
                if len(seen) >= 5:
                    break
        elif self.broken:
            rc = 1
            rec = {'property': self.prop, 'seed': self.seed, 'tier': self.tier, 'kind': 'no-failing-input-found',
                   'no_longer_checks': self.broken,
                   'disagreements': self.disagreements[:5],
                   'note': 'a proof obligation or the model/implementation correspondence no longer checks; '
                           'the search found no input on which the property itself fails'}
            rel = self.write_replay(rec)
            print('VIOLATION property=%s replay=%s no-failing-input-found' % (self.prop, rel))
        self.write_evidence()
        shutil.rmtree(self.scratch, ignore_errors=True)
        return rc

    def write_evidence(self):
        os.makedirs(os.path.join(VERIF, 'evidence'), exist_ok=True)
        ev = {
            'property_id': self.prop, 'tier': self.tier, 'seed': self.seed, 'level': 'proof',
            'coverage': {
                'obligations': len(self.obligations),
                'discharged': len(self.discharged),
                'obligation_names': self.obligations,
                'not_discharged': [t for t in self.obligations if t not in self.discharged],
                'checker_cmd': 'cd lean && lake build PGA.Props.%s && lake env lean <audit file with #print axioms for every obligation>' % self.prop,
                'trusted_base': TRUSTED_BASE + self.extra.get('trusted_base', []),
                'axioms': self.extra.get('axioms', {}),
                'evaluations': self.evaluations,
                'distinct_nontrivial': len(self.nontrivial),
                'rule': self.rule,
                'samples': self.samples or [{'note': 'no correspondence case ran'}],
                'distribution': dict(sorted(self.stats.items())),
                'disagreements_model_vs_impl': len(self.disagreements),
                'assumption_checks': self.assumption_checks,
                'known_findings_seen': {k: v['count'] for k, v in self.known_seen.items()},
                'broken': self.broken,
                'translated': self.extra.get('translated', {}),
            },
            'assumptions': self.extra.get('assumptions', []),
            'wall_s': round(time.time() - self.t0, 2),
            'violations': len(self.violations) + (1 if (self.broken and not self.violations) else 0),
        }
        for k, v in self.extra.get('coverage', {}).items():
            ev['coverage'][k] = v
        ev['coverage']['repository'] = repo_state()
        with open(os.path.join(VERIF, 'evidence', '%s.json' % self.prop), 'w') as f:
            json.dump(ev, f, indent=1, default=str)


def failing_theorems(out):
    """Map `error: PGA/X.lean:L:C: ...` lines of a lake build to enclosing theorem names."""
    res = []
    seen = set()
    for m in re.finditer(r'error: (\S+\.lean):(\d+):(\d+): (.*)', out):
        path, line, msg = m.group(1), int(m.group(2)), m.group(4)
        full = path if os.path.isabs(path) else os.path.join(LEAN_DIR, path)
        name = None
        try:
            src = open(full, encoding='utf-8').read().split('\n')
            for i in range(min(line, len(src)) - 1, -1, -1):
                mm = re.match(r'\s*(?:@\[[^\]]*\]\s*)?(?:private\s+|protected\s+)?(theorem|lemma|def|example|instance|abbrev)\s+(\S+)?', src[i])
                if mm:
                    name = '%s:%s' % (os.path.relpath(full, LEAN_DIR), mm.group(2) or ('example@%d' % (i + 1)))
                    break
        except OSError:
            pass
        name = name or '%s:%d' % (path, line)
        if name not in seen:
            seen.add(name)
            res.append((name, msg[:400]))
    return res


def repo_state():
    """which tree this run looked at: path, HEAD and whether the working tree differs from HEAD (the checks read the working tree)"""
    repo = os.environ.get('REPO', '/repo')
    def git(*a):
        try:
            return subprocess.run(('git', '-C', repo) + a, capture_output=True, text=True, timeout=30).stdout.strip()
        except Exception:
            return ''
    return {'path': os.path.realpath(repo), 'head': git('rev-parse', 'HEAD')[:12],
            'working_tree_differs_from_head': bool(git('status', '--porcelain', '--untracked-files=no'))}


def load_known():
    p = os.path.join(VERIF, 'known_findings.json')
    if not os.path.exists(p):
        return {}
    data = json.load(open(p))
    return {e['id']: e for e in data.get('findings', [])}


def load_corpus(prop):
    d = os.path.join(VERIF, 'corpus', prop)
    out = []
    if os.path.isdir(d):
        for f in sorted(os.listdir(d)):
            if f.endswith('.json'):
                out.append((f, json.load(open(os.path.join(d, f)))))
    return out


class Timeout(Exception):
    pass


def call_with_alarm(seconds, fn, *a, **kw):
    """Run fn under SIGALRM; raises Timeout."""
    import signal

    def handler(signum, frame):
        raise Timeout()
    old = signal.signal(signal.SIGALRM, handler)
    signal.setitimer(signal.ITIMER_REAL, seconds)
    try:
        return fn(*a, **kw)
    finally:
        signal.setitimer(signal.ITIMER_REAL, 0)
        signal.signal(signal.SIGALRM, old)


# ---------------------------------------------------------------------- numeric / rational helpers (DESIGN 2.3)
def frac_of_float(x):
    """exact decimal rational of the shortest round-trip repr of a float (the decimal-literal abstraction)"""
    from fractions import Fraction
    from decimal import Decimal
    if isinstance(x, Fraction):
        return x
    if isinstance(x, int) and not isinstance(x, bool):
        return Fraction(x)
    return Fraction(Decimal(repr(float(x))))


def exact_of_float(x):
    """exact dyadic rational value of a double (for handing oracle values to the driver)"""
    from fractions import Fraction
    return Fraction(float(x))


def jrat(q):
    from fractions import Fraction
    q = Fraction(q)
    return {'n': str(q.numerator), 'd': str(q.denominator)}


def unjrat(j):
    from fractions import Fraction
    return Fraction(int(j['n']), int(j['d']))


def close(impl, model, scale=0.0, rel=1e-9):
    """|impl - model| <= rel*(|model| + scale) + 1e-300 ; model may be a Fraction"""
    m = float(model)
    return abs(float(impl) - m) <= rel * (abs(m) + float(scale)) + 1e-300


def shrink_list(items, fails, max_steps=400):
    """delta-debugging: smallest sub-list (order kept) on which fails(sub) is still True"""
    items = list(items)
    n = 2
    steps = 0
    while len(items) >= 2 and steps < max_steps:
        chunk = max(1, len(items) // n)
        reduced = False
        for i in range(0, len(items), chunk):
            cand = items[:i] + items[i + chunk:]
            steps += 1
            if cand and fails(cand):
                items = cand
                n = max(n - 1, 2)
                reduced = True
                break
        if not reduced:
            if chunk == 1:
                break
            n = min(n * 2, len(items))
    return items


def exc_class(e, table):
    """map an exception to a small enum: table = [(ExceptionType, 'name'), ...] in priority order"""
    for t, name in table:
        if isinstance(e, t):
            return name
    return 'internal:' + type(e).__name__
