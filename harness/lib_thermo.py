"""Shared pieces of the C05 / C06 checks: correlation specs, running the real classes, extracting oracle values
from the live SciPy objects, canonical outcomes, independent integrators for the property oracle, generators.

A *spec* is a plain dict: {'kind': 'raw'|'inc'|'grp', 'href', 'sref' (float|None), 'pts': [[T, Cp], ...] in supply
order, 'tref', 'range': None | [lo, hi]}.  Everything is a Python float (an exact dyadic rational), so the
model's exact comparisons coincide with the implementation's float comparisons.
"""
import math, warnings, json
from fractions import Fraction
from . import common

WHICH = ('cp', 'h', 's', 'g')
GETTER = {'cp': 'get_CpoR', 'h': 'get_HoRT', 's': 'get_SoR', 'g': 'get_GoRT'}


def J(x):
    return common.jrat(Fraction(x))


# ----------------------------------------------------------------------------- implementation side
def exc_name(e):
    from pgradd.Error import OutsideCorrelationError, IncompleteDataError
    if isinstance(e, OutsideCorrelationError):
        return 'outside'
    if isinstance(e, IncompleteDataError):
        return 'incomplete'
    if isinstance(e, ZeroDivisionError):
        return 'nonfinite'
    if isinstance(e, AssertionError):
        return 'assertion'
    if isinstance(e, ValueError):
        return 'value'
    return 'internal:' + type(e).__name__


def build_impl(spec):
    """-> (object | None, 'ok' | error class)"""
    from pgradd.ThermoChem import ThermochemRawData, ThermochemIncomplete, ThermochemGroup
    pts = spec['pts']
    rng = tuple(spec['range']) if spec['range'] is not None else None
    try:
        if spec.get('via_yaml'):
            return load_yaml(spec), 'ok'
        if spec['kind'] == 'raw':
            obj = ThermochemRawData(spec['href'], spec['sref'], [p[0] for p in pts], [p[1] for p in pts],
                                    T_ref=spec['tref'], range=rng)
        else:
            cls = ThermochemGroup if spec['kind'] == 'grp' else ThermochemIncomplete
            obj = cls(spec['href'], spec['sref'], dict((p[0], p[1]) for p in pts), spec['tref'], rng)
            if spec.get('via_update') and pts:
                obj = reach(cls, spec, obj, pts, rng)
        return obj, 'ok'
    except Exception as e:
        return None, exc_name(e)


YAML_TAG = {'raw': '!ThermochemRawData', 'inc': '!ThermochemIncomplete', 'grp': '!ThermochemGroup'}


def yf(x):
    """a float as PyYAML reads a float (YAML 1.1 wants a dot in the mantissa of an exponent form)"""
    r = repr(float(x))
    if 'e' in r and '.' not in r.split('e')[0]:
        m, e = r.split('e')
        r = m + '.0e' + (e if e[0] in '+-' else '+' + e)
    return r


def yaml_text(spec):
    """the correlation of `spec` as the YAML text of the class's own schema, non-dimensional keys (ND_H_ref, ND_S_ref,
    ND_Cp_data).  The dimensional keys are the subject of C12 (what a value with units means); here the route only has to
    deliver the numbers of the spec to the class, bit for bit."""
    lines = ['T_ref: %s K' % yf(spec['tref'])]
    if spec['href'] is not None:
        lines.append('ND_H_ref: %s' % yf(spec['href']))
    if spec['sref'] is not None:
        lines.append('ND_S_ref: %s' % yf(spec['sref']))
    if spec['pts']:
        lines.append('ND_Cp_data: [%s]' % ', '.join('[%s K, %s]' % (yf(t), yf(c)) for t, c in spec['pts']))
    if spec['range'] is not None:
        lines.append('range: [%s K, %s K]' % (yf(spec['range'][0]), yf(spec['range'][1])))
    return YAML_TAG[spec['kind']] + '\n' + '\n'.join(lines) + '\n'


def load_yaml(spec):
    """the object the package's own YAML loader builds from the text (yaml_construct of the class)"""
    import io, sys
    from pgradd import yaml_io
    import pgradd.ThermoChem  # noqa: registers the classes
    out = sys.stdout
    sys.stdout = io.StringIO()
    try:
        return yaml_io.load(yaml_io.parse(yaml_text(spec)))
    finally:
        sys.stdout = out


WAYS = [True, 'range', 'pre-eval', 'del-point', 'set-range', 'refs-late', 'del-refs', 'refused-update']


def pre_evaluate(o, temps):
    """use an object before it is changed: every getter at the probe temperatures, the YAML text, a copy (results are
    discarded; whatever an implementation remembers from these calls must not survive the change that follows)"""
    with warnings.catch_warnings():
        warnings.simplefilter('ignore')
        for T in temps:
            for name in ('get_CpoR', 'get_HoRT', 'get_SoR', 'get_GoRT'):
                try:
                    getattr(o, name)(T)
                except Exception:
                    pass
            for name, u in (('get_H', 'kJ/mol'), ('get_G', 'kJ/mol'), ('get_S', 'J/mol/K'), ('get_Cp', 'J/mol/K')):
                try:
                    getattr(o, name)(T, u)
                except Exception:
                    pass
        for call in (lambda: o.yaml_format(), lambda: o.yaml_format({'H': 'kJ/mol', 'S': 'J/(mol K)', 'Cp': 'J/(mol K)', 'T': 'K'}),
                     lambda: o.copy(), lambda: o.get_range()):
            try:
                call()
            except Exception:
                pass


def reach(cls, spec, direct, pts, rng):
    """The same correlation reached through a history of the public API instead of one constructor call; the result must
    behave exactly like the directly constructed object `direct` (DESIGN 9.9: whatever is remembered between calls —
    interpolants, memoised values, formatted texts — has to follow every change of the data)."""
    way = spec['via_update']
    href, sref, tref = spec['href'], spec['sref'], spec['tref']
    table = dict((p[0], p[1]) for p in pts)
    ts = sorted(table) + [tref]
    probes = sorted(set(ts + [0.5 * (a + b) for a, b in zip(ts, ts[1:])] + ([rng[0], rng[1]] if rng else [])))
    narrow = None if rng is None else (max(rng[0], min(ts)), min(rng[1], max(ts)))
    if way == 'range':
        # identical data, only the range grows with the merge
        first = cls(href, sref, table, tref, narrow)
        first.update(direct)
    elif way in (True, 'pre-eval'):
        # other heat capacities on the same temperature grid and a narrower range first, then the final data merged in
        first = cls(None if href is None else href + 1.0, sref, dict((T, v + 0.5) for T, v in table.items()), tref, narrow)
        if way == 'pre-eval':
            pre_evaluate(first, probes)
        first.update(direct, overwrite=True)
    elif way == 'del-point':
        # one more tabulated point, used, then withdrawn
        lo, hi = min(table), max(table)
        if len(table) > 1:
            tx = 0.5 * (sorted(table)[0] + sorted(table)[1])
        elif rng is not None and lo + 1.0 <= rng[1]:
            tx = lo + 1.0
        elif rng is not None and lo - 1.0 >= rng[0]:
            tx = lo - 1.0
        else:
            tx = None
        if tx is None or tx in table:
            return direct
        more = dict(table)
        more[tx] = table[lo] + 0.75
        first = cls(href, sref, more, tref, rng)
        pre_evaluate(first, probes + [tx])
        first.del_ND_Cp(tx)
    elif way == 'set-range':
        if rng is None:
            return direct
        first = cls(href, sref, table, tref, (rng[0] - 40.0, rng[1] + 55.0))
        pre_evaluate(first, probes + [rng[0] - 20.0, rng[1] + 30.0])
        first.set_range(rng)
    elif way == 'refs-late':
        # heat capacities first, the reference values merged in afterwards
        first = cls(None, None, table, tref, rng)
        pre_evaluate(first, probes)
        first.update(cls(href, sref, {}, tref, rng))
    elif way == 'del-refs':
        # other reference values, used, withdrawn, then the final ones merged in
        first = cls(None if href is None else href - 2.5, None if sref is None else sref + 1.25, table, tref, rng)
        pre_evaluate(first, probes)
        first.del_ND_H_ref()
        first.del_ND_S_ref()
        first.update(cls(href, sref, {}, tref, rng))
    elif way == 'refused-update':
        # a merge that must be refused (one point conflicts) after new points were offered: nothing of it may stay
        from pgradd.Error import ReadOnlyDataError
        first = direct
        pre_evaluate(first, probes)
        t0 = max(table)
        # new points first, the conflicting one last (whatever order the merge walks the table in, something is offered
        # before the conflict is met: sorted and insertion order both end with t0)
        offer = dict((0.5 * (a + b), table[a] + 0.3) for a, b in zip(sorted(table), sorted(table)[1:]))
        offer.update((T, v) for T, v in sorted(table.items()) if T != t0)
        offer[t0] = table[t0] + 1.0
        try:
            first.update(cls(None, None, offer, tref, rng))
        except ReadOnlyDataError:
            pass
        else:
            raise AssertionError('an update with a conflicting heat capacity was not refused')
    else:
        raise ValueError(way)
    return first


def held_data_problem(obj, spec):
    """after a history of API calls: does the object HOLD the data of `spec` (table, reference values, T_ref, range)?  Returns a
    description of the first difference or None.  Reference values merged in through update() come back as
    value*T_ref/T_ref, so they are compared to 1e-12 relative."""
    if spec['kind'] == 'raw':
        return None
    table = dict((float(p[0]), float(p[1])) for p in spec['pts'])
    held = dict((float(k), float(v)) for k, v in (getattr(obj, 'ND_Cp_data', None) or {}).items())
    if held != table:
        extra = sorted(set(held) - set(table))
        return 'table differs: extra temperatures %r, missing %r, changed %r' % (
            extra, sorted(set(table) - set(held)), sorted(t for t in table if t in held and held[t] != table[t]))
    for name, want in (('ND_H_ref', spec['href']), ('ND_S_ref', spec['sref'])):
        have = getattr(obj, name, None)
        if (have is None) != (want is None) or (want is not None and abs(float(have) - want) > 1e-12 * max(1.0, abs(want))):
            return '%s is %r, given %r' % (name, have, want)
    if float(obj.T_ref) != float(spec['tref']):
        return 'T_ref is %r, given %r' % (obj.T_ref, spec['tref'])
    r = obj.get_range()
    want = None if spec['range'] is None else (float(spec['range'][0]), float(spec['range'][1]))
    if (None if r is None else (float(r[0]), float(r[1]))) != want:
        return 'range is %r, given %r' % (r, want)
    return None


def eval_impl(obj, which, T, stats=None):
    """canonical outcome of obj.get_X(T): {'ok': float, 'warn': bool} | {'err': class, 'warn': bool};
    warn = an IncompleteDataWarning was issued."""
    from pgradd.Error import IncompleteDataWarning
    with warnings.catch_warnings(record=True) as rec:
        warnings.simplefilter('always')
        try:
            v = getattr(obj, GETTER[which])(T)
            out = None
        except Exception as e:
            out = {'err': exc_name(e)}
    warn = any(issubclass(w.category, IncompleteDataWarning) for w in rec)
    if stats is not None:
        for w in rec:
            if not issubclass(w.category, IncompleteDataWarning):
                stats('other_warning_' + w.category.__name__)
    if out is None:
        try:
            f = float(v)
        except Exception as e:
            out = {'err': 'internal:' + type(e).__name__}
        else:
            out = {'ok': f} if math.isfinite(f) else {'err': 'nonfinite'}
    out['warn'] = warn
    return out


def inner(obj):
    """the table correlation behind an object (itself for ThermochemRawData), or None"""
    from pgradd.ThermoChem import ThermochemRawData
    if isinstance(obj, ThermochemRawData):
        return obj
    return getattr(obj, '_correlation', None)


# ----------------------------------------------------------------------------- oracle values for the model
def table_ends(spec):
    ts = [p[0] for p in spec['pts']]
    return (min(ts), max(ts)) if ts else (None, None)


def eff_range(spec):
    """range the table correlation works with (declared, else the tabulated span)"""
    if spec['range'] is not None:
        return tuple(spec['range'])
    return table_ends(spec)


_jcache = {}


def quad_J(spline, a, b):
    from scipy.integrate import quad
    key = (id(spline), a, b)
    if key not in _jcache:
        if len(_jcache) > 200000:
            _jcache.clear()
        with warnings.catch_warnings():
            warnings.simplefilter('ignore')
            _jcache[key] = (quad(lambda t: spline(t) / t, a, b)[0], spline)   # keep the spline alive: id() stays unique
    return _jcache[key][0]


def oracle_for(spec, obj, T, want):
    """values of the live SciPy objects the model may consult for this evaluation (exact rationals of the doubles).
    The points are derived from the *spec* (sorted table ends), the values from the object's own spline."""
    import numpy as np
    rd = inner(obj) if obj is not None else None
    orc = {'val': [], 'I': [], 'J': [], 'lg': []}
    if rd is None or not spec['pts']:
        return orc
    lo, hi = eff_range(spec)
    if not (lo <= T <= hi):
        return orc
    mn, mx = table_ends(spec)
    tref = spec['tref']
    clamp = lambda t: max(mn, min(t, mx))
    P = sorted(set([clamp(tref), clamp(T), mn, mx]))
    Q = sorted(set([tref, T, mn, mx]))
    sp = rd.spline
    if 'cp' in want and mn <= T <= mx:
        orc['val'].append([J(T), J(float(sp(T)))])
    if 'h' in want or 'g' in want:
        for a in P:
            for b in P:
                orc['I'].append([J(a), J(b), J(float(sp.integral(a, b)))])
    if 's' in want or 'g' in want:
        a, b = clamp(tref), clamp(T)
        orc['J'].append([J(a), J(b), J(float(quad_J(sp, a, b)))])
        for a in Q:
            for b in Q:
                if a > 0 and b > 0:
                    orc['lg'].append([J(a), J(b), J(float(np.log(b / a)))])
    return orc


def jspec(spec, orc):
    return {'kind': 'raw' if spec['kind'] == 'raw' else 'inc',
            'href': None if spec['href'] is None else J(spec['href']),
            'sref': None if spec['sref'] is None else J(spec['sref']),
            'pts': [[J(p[0]), J(p[1])] for p in spec['pts']],
            'tref': J(spec['tref']),
            'range': None if spec['range'] is None else [J(spec['range'][0]), J(spec['range'][1])],
            'oracle': orc}


def scale_of(spec, which, T):
    """Σ|terms| of DESIGN 2.3 for the numeric comparison of one property"""
    cps = [abs(p[1]) for p in spec['pts']] or [0.0]
    ts = [abs(p[0]) for p in spec['pts']] + [abs(spec['tref']), abs(T)]
    if spec['range'] is not None:
        ts += [abs(spec['range'][0]), abs(spec['range'][1])]
    cmax, tmax = max(cps), max(ts)
    tmin = min(t for t in ts if t > 0) if any(t > 0 for t in ts) else 1.0
    h = (abs(spec['href'] or 0.0) * abs(spec['tref']) + 4 * cmax * tmax) / max(abs(T), 1e-300)
    s = abs(spec['sref'] or 0.0) + 4 * cmax * (abs(math.log(tmax / tmin)) + 1.0)
    return {'cp': cmax, 'h': h, 's': s, 'g': h + s}[which]


def same_outcome(impl, model, scale):
    """impl: eval_impl outcome; model: driver outcome ({'ok': {'n','d'}, 'warn'} | {'err', 'warn'})"""
    if bool(impl.get('warn')) != bool(model.get('warn')):
        return False
    if 'err' in impl or 'err' in model:
        return impl.get('err') == model.get('err')
    return common.close(impl['ok'], common.unjrat(model['ok']), scale)


def model_range(rep):
    r = rep.get('range')
    return None if r is None else [float(common.unjrat(r[0])), float(common.unjrat(r[1]))]


def impl_range(obj):
    r = obj.get_range()
    return None if r is None else [float(r[0]), float(r[1])]


# ----------------------------------------------------------------------------- independent integration (property oracle)
def ppoly_of(rd):
    """piecewise-polynomial form of the object's spline (None for a one-point table)"""
    from scipy.interpolate import PPoly
    sp = rd.spline
    if not hasattr(sp, '_eval_args'):
        return None
    return PPoly.from_spline(sp._eval_args)


def _pieces(pp, a, b):
    """(x_i, lo, hi, coeffs high→low in (t - x_i)) of the pieces of pp meeting [a, b], a <= b"""
    xs = pp.x
    out = []
    for i in range(len(xs) - 1):
        if xs[i + 1] <= xs[i]:
            continue
        lo, hi = max(a, xs[i]), min(b, xs[i + 1])
        if hi > lo:
            out.append((float(xs[i]), float(lo), float(hi), [float(c) for c in pp.c[:, i]]))
    return out


def exact_int(pp, a, b, over_t):
    """∫_a^b p(t) dt or ∫_a^b p(t)/t dt of the piecewise polynomial, in exact rational arithmetic on its double
    coefficients (the logarithm by mpmath at 40 digits); a, b inside the knots span"""
    import mpmath
    if a == b:
        return 0.0
    if a > b:
        return -exact_int(pp, b, a, over_t)
    tot = mpmath.mpf(0)
    mpmath.mp.dps = 40
    for x, lo, hi, cs in _pieces(pp, a, b):
        X, LO, HI = Fraction(x), Fraction(lo), Fraction(hi)
        deg = len(cs) - 1
        # p(t) = Σ_j cs[deg-j] (t - X)^j  → coefficients in powers of t
        poly = [Fraction(0)] * (deg + 1)
        for j in range(deg + 1):
            cj = Fraction(cs[deg - j])
            for k in range(j + 1):   # (t - X)^j = Σ_k C(j,k) t^k (-X)^(j-k)
                poly[k] += cj * math.comb(j, k) * (-X) ** (j - k)
        if over_t:
            acc = Fraction(0)
            for k in range(1, deg + 1):
                acc += poly[k] * (HI ** k - LO ** k) / k
            tot += mpmath.mpf(acc.numerator) / mpmath.mpf(acc.denominator)
            a0 = mpmath.mpf(poly[0].numerator) / mpmath.mpf(poly[0].denominator)
            tot += a0 * (mpmath.log(mpmath.mpf(hi)) - mpmath.log(mpmath.mpf(lo)))
        else:
            acc = Fraction(0)
            for k in range(deg + 1):
                acc += poly[k] * (HI ** (k + 1) - LO ** (k + 1)) / (k + 1)
            tot += mpmath.mpf(acc.numerator) / mpmath.mpf(acc.denominator)
    return float(tot)


class SpecIntegrals:
    """∫ CpExt and ∫ CpExt/t straight from the property text: the tabulated interpolant inside the span (integrated
    independently of FITPACK/QUADPACK from its PPoly form), Cp held at the end values outside."""

    def __init__(self, spec, rd):
        pts = sorted(spec['pts'], key=lambda p: p[0])
        self.mn, self.mx = pts[0][0], pts[-1][0]
        self.cmn, self.cmx = pts[0][1], pts[-1][1]
        self.pp = ppoly_of(rd) if len(pts) > 1 else None
        self.c1 = pts[0][1]

    def _mid(self, a, b, over_t):
        if self.pp is None:
            return self.c1 * (math.log(b / a) if over_t else (b - a))
        return exact_int(self.pp, a, b, over_t)

    def anti(self, t, over_t):
        if t <= self.mn:
            return self.cmn * (math.log(t / self.mn) if over_t else (t - self.mn))
        if t >= self.mx:
            return self._mid(self.mn, self.mx, over_t) + self.cmx * (math.log(t / self.mx) if over_t else (t - self.mx))
        return self._mid(self.mn, t, over_t)

    def int_cp(self, a, b):
        return self.anti(b, False) - self.anti(a, False)

    def int_cp_over_t(self, a, b):
        return self.anti(b, True) - self.anti(a, True)


# ----------------------------------------------------------------------------- generators
def gen_table(rng, n, spacing=None):
    """n points with positive, strictly increasing temperatures (exact small dyadics) and random Cp/R"""
    spacing = spacing or rng.choice(['equal', 'unequal'])
    t0 = float(rng.choice([100, 200, 250, 298, 300, 350]))
    if spacing == 'equal':
        step = float(rng.choice([25, 50, 100, 125]))
        ts = [t0 + i * step for i in range(n)]
    else:
        ts = [t0]
        for _ in range(n - 1):
            ts.append(ts[-1] + float(rng.choice([12.5, 20, 50, 75, 100, 200, 300, 37.25])))
    style = rng.random()
    if style < 0.15:
        cps = [float(rng.choice([-2, 0, 1.5, 3]))] * n
    else:
        base = rng.uniform(-3, 12)
        cps = [round(base + rng.uniform(-2, 2) + 0.004 * (t - t0), rng.choice([1, 2, 3, 6])) for t in ts]
    return [[t, c] for t, c in zip(ts, cps)]


def between(rng, a, b):
    """a dyadic-friendly float strictly between a < b when one exists, else a"""
    if not a < b:
        return a
    for _ in range(8):
        x = round(a + (b - a) * rng.uniform(0.05, 0.95), rng.choice([0, 1, 2]))
        if a < x < b:
            return x
    x = (a + b) / 2
    return x if a < x < b else a


PLACEMENTS = ('below', 'at_min', 'between', 'at_knot', 'at_max', 'above')


def place(rng, cls, pts_sorted, lo, hi):
    """a temperature of placement class `cls` w.r.t. the sorted table and the range [lo, hi]; falls back to the nearest
    existing class for tiny tables / degenerate ranges (returns (T, actual class))"""
    ts = [p[0] for p in pts_sorted]
    mn, mx = ts[0], ts[-1]
    if cls == 'below':
        x = between(rng, lo, mn)
        return (x, 'below') if lo <= x < mn else (mn, 'at_min')
    if cls == 'above':
        x = between(rng, mx, hi)
        return (x, 'above') if mx < x <= hi else (mx, 'at_max')
    if cls == 'at_min':
        return mn, 'at_min'
    if cls == 'at_max':
        return mx, 'at_max'
    if cls == 'at_knot':
        if len(ts) >= 3:
            return rng.choice(ts[1:-1]), 'at_knot'
        return (mx, 'at_max') if rng.random() < 0.5 else (mn, 'at_min')
    if cls == 'between':
        if len(ts) >= 2:
            i = rng.randrange(len(ts) - 1)
            x = between(rng, ts[i], ts[i + 1])
            if ts[i] < x < ts[i + 1]:
                return x, 'between'
        return mn, 'at_min'
    raise ValueError(cls)


def shuffled(rng, pts):
    q = list(pts)
    rng.shuffle(q)
    return q


def nexta(x, up):
    return math.nextafter(x, math.inf if up else -math.inf)


def bound_neighbours(lo, hi):
    """temperatures just inside / at / just outside / far outside each bound, zero and negative"""
    out = [lo, hi, nexta(lo, True), nexta(lo, False), nexta(hi, True), nexta(hi, False),
           lo - 1.0, hi + 1.0, lo / 2, hi * 2, 0.0, -1.0, -lo, 1e-300, 1e6]
    return out


def in_rng(T, r):
    return r is None or (r[0] <= T <= r[1])


# ----------------------------------------------------------------------------- reach of the generators (DESIGN Appendix B)
class Reach:
    """line coverage of the anchored functions while the harness calls into pgradd (coverage.py); the functions are
    located through the live objects (inspect), not by line numbers"""

    def __init__(self, funcs):
        self.funcs = funcs          # list of (label, function object)
        self.cov = None

    def __enter__(self):
        try:
            import coverage, os
            os.environ.setdefault('COVERAGE_CORE', 'sysmon')     # sys.monitoring: low overhead on CPython 3.12
            files = sorted(set(f.__code__.co_filename for _, f in self.funcs))
            self.cov = coverage.Coverage(data_file=None, include=files, branch=False, config_file=False)
            self.cov.start()
        except Exception:
            self.cov = None
        return self

    def __exit__(self, *a):
        if self.cov is not None:
            self.cov.stop()
        return False

    def report(self):
        """{label: {'lines': n, 'missed': [line numbers]}} or None when coverage.py is unavailable"""
        import inspect
        if self.cov is None:
            return None
        data = self.cov.get_data()
        out = {}
        for label, f in self.funcs:
            fn = f.__code__.co_filename
            executed = set(data.lines(fn) or [])
            try:
                _, stmts, _, missing, _ = self.cov.analysis2(fn)
            except Exception:
                continue
            src, start = inspect.getsourcelines(f)
            rng = range(start, start + len(src))
            mine = [l for l in stmts if l in rng]
            out[label] = {'statements': len(mine), 'missed': [l for l in mine if l not in executed and l != start]}
        return out
