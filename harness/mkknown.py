"""Assemble known_findings.json from findings/*.json (run by hand before committing; never by a check).
Each findings/<name>.json is a list of entries:
  {"id": "F3", "properties": ["C03"], "status": "known"|"fixed", "what": "...", "match": "<precise description of the
   input / call site / history class the check's classifier assigns this id to>", "witness": {...}, "commit": "<sha for fixed>"}
python -m harness.mkknown"""
import json, os
from . import common


def main():
    d = os.path.join(common.VERIF, 'findings')
    out, seen = [], set()
    for f in sorted(os.listdir(d)):
        if f.endswith('.json'):
            for e in json.load(open(os.path.join(d, f))):
                assert e['id'] not in seen, 'duplicate finding id ' + e['id']
                assert e['status'] in ('known', 'fixed')
                seen.add(e['id'])
                e.setdefault('line', ('fixed: property=%s %s %s' % (','.join(e['properties']), e.get('commit', '?'), e['what']))
                             if e['status'] == 'fixed' else ('known: property=%s %s' % (','.join(e['properties']), e['what'])))
                out.append(e)
    doc = {'_comment': 'Committed list of findings, assembled from findings/*.json by harness/mkknown.py (never at check run time). '
                       'status=known: genuine defect recorded rather than repaired; the check prints KNOWN-FINDING and exits 0 only for '
                       'inputs its classifier maps to that id (see match). status=fixed: repaired by the named fix: commit in /repo; '
                       'suppresses nothing — its witness is in corpus/ and fails again if the defect returns.',
           'findings': out}
    json.dump(doc, open(os.path.join(common.VERIF, 'known_findings.json'), 'w'), indent=1)
    print('%d findings (%d known, %d fixed)' % (len(out), sum(e['status'] == 'known' for e in out), sum(e['status'] == 'fixed' for e in out)))


if __name__ == '__main__':
    main()
