"""C04 — a mixture's descriptors are the sum of its components'.

Proof: lean/PGA/Props/C04.lean — (above the matcher) the disjoint union of two inputs of one scheme decomposes to the
name-wise sum, and fails exactly when a component fails (every size); (end to end) every pattern the reader returns is
connected, an embedding of a connected pattern without molecule-level prefix into A ⊔ B lies in one component, the Benson
perception works component by component, hence `decompose S (A ⊔ B)` is additive (`C04_decompose_union`), also for the graph
numbered as RDKit numbers a mixture (`C04_decompose_mixture`, via C03).
Oracle (relational): implementation on 'A.B' vs implementation on A and on B.
"""
import itertools, collections
from rdkit import Chem
from . import common, lib_scheme as S, lib_molgen as G, lib_pipeline as P

PROPS = ['PGA.Props.C04', 'PGA.Props.Pipeline']
GEN = ['Chars', 'MolQuery']
OBLIGATIONS = ['PGA.Scheme.' + t for t in [
    'C04_cnt_union', 'C04_centres_union', 'C04_groupCount_union', 'C04_distinctSets_union',
    'C04_remap_additive', 'C04_descriptors_union']] + ['PGA.C04.' + t for t in [
    'C04_load_connected', 'C04_embeds_union', 'C04_aromatize_union', 'C04_decompose_union', 'C04_decompose_mixture']] + [
    'PGA.Pipeline.' + t for t in P.OBLIGATIONS_C04]
RULE = ('cases = (scheme, A, B[, C]): all ordered pairs (incl. self-pairs) from a pool of fixed and grown molecules per scheme, '
        'some triples, pairs with an out-of-vocabulary component (failure propagation), for the nine shipped schemes. '
        'distinct = distinct (scheme, A, B); non-trivial = both components have >= 2 heavy atoms or one fails. '
        'Pipeline step (C04 ∘ C01/C20/C07): for a bounded number of these pairs per library the whole call chain '
        'lib.Estimate(lib.GetDescriptors(x), "thermochem") is run on A, B and A.B at three temperatures (reference temperature, a table knot, '
        'a random one) — on the shipped libraries and on one variant per library (a descriptor cut from the uncertainty basis, two '
        'descriptors given disjoint ranges) that reaches the ValueError / AssertionError stages.')
ASSUMPTIONS = ['A-graph for mixtures: RDKit\'s explicit-H graph of "A.B" is the disjoint union of the graphs of A and B renumbered by an explicit '
               'permutation (heavy atoms of all parts first, then the hydrogens part by part): atoms identical, bonds identical as a multiset '
               '(listed in another order), rings in the same order — hypothesis MolIso of C04_decompose_mixture, measured on every mixture of the '
               'full tie (lib_scheme.mixture_is_union); the exceptions (bridged bicycles whose symmetrised extra ring RDKit lists last) are counted']
TRUSTED = ['pipeline step: the constituents\' own correlation values at T are data of the composed model (evaluated by the real per-group '
           'objects, handed over as exact dyadic rationals), as in C01']


def run(ctx):
    rng = ctx.rng
    libs_ = S.load_schemes()
    for fname, rec in common.load_corpus('C04'):
        ctx.count('corpus')
        replay(ctx, rec)
    batch = []

    def chain_witness(name, lib, k, t, ab, ba, a, b):
        ra, rb = S.impl_descriptors(lib, a), S.impl_descriptors(lib, b)
        check_pair(ctx, name, lib, [a, b], [ra, rb], batch)
        check_pair(ctx, name, lib, [b, a], [rb, ra], batch)
    S.chain_free_hypothesis(ctx, libs_, chain_witness)
    # parts whose atoms lie beyond index 256 in the mixture (see c03.high_index_spellings)
    for name, lib in libs_:
        if name in ('BensonGA', 'GRWSurface2018'):
            big = 'C' * 262
            for small in ('C/C=C(/C)CC', 'C/C=C\\C', 'C1CC1C', 'CC(C)(C)C(C)(C)C', 'COCOC'):
                rs = [S.impl_descriptors(lib, big), S.impl_descriptors(lib, small)]
                ctx.count('high_index_mixtures')
                check_pair(ctx, name, lib, [big, small], rs, batch)
                check_pair(ctx, name, lib, [small, big], rs[::-1], batch)
    big_mixtures(ctx, libs_, batch)
    full = S.FullTie(ctx, max_cases=ctx.n(160, 2000))      # per library
    pipe = P.PipeTie(ctx, max_cases=ctx.n(45, 500))        # per library: the composed pipeline (decompose, then estimate)
    pipe.mixtures = collections.Counter()
    for name, lib in libs_:
        kind = 'gas' if name in ('BensonGA', 'PPY') else 'surface'
        pool = list(G.MIX_GAS if kind == 'gas' else G.MIX_SURFACE)
        if kind == 'gas':
            # fused / linked C6 rings: RDKit's Kekule form gives their second ring the other alternation phase (DOUBLE first),
            # which a lone benzene ring never has
            pool += ['c1ccc2ccccc2c1', 'c1ccc(cc1)c1ccccc1', 'Cc1ccc2ccccc2c1', 'CC1(C2=C(C3=CC=CC=C3)C=CC=C2)CC1']
        if ctx.thorough():
            pool += list((G.FIXED_GAS if kind == 'gas' else G.FIXED_SURFACE)[:40])
        for _ in range(ctx.n(8, 60)):
            pool.append(G.gen_smiles(rng, kind, rng.choice([2, 4, 7, 10])))
        pool.append(G.gen_smiles(rng, kind, 4, oov=True))
        pool = [s for s in dict.fromkeys(pool) if '.' not in s]
        res = {s: S.impl_descriptors(lib, s) for s in pool}
        pairs = list(itertools.product(pool, pool))
        rng.shuffle(pairs)
        for a, b in pairs[:ctx.n(260, 4000)]:
            if ctx.time_left() < 60:
                break
            check_pair(ctx, name, lib, [a, b], [res[a], res[b]], batch, full, pipe)
        for _ in range(ctx.n(10, 200)):
            t = [rng.choice(pool) for _ in range(3)]
            check_pair(ctx, name, lib, t, [res[x] for x in t], batch, full, pipe)
        full.run()
        variant_step(ctx, name, lib, pipe)
        pipe.run()
    full.run()
    pipe.run()
    # table observation behind C04_decompose_union: no pattern of any shipped scheme carries a molecule-level prefix (nor `*`)
    ctx.assumption('shipped_schemes_without_molecule_level_prefix_and_star', bool(full.flags) and all(f['nomolprefix'] and f['nostar'] for f in full.flags),
                   '%d scheme transmissions, all read by the model reader: noMolPrefix and noStar hold for each' % len(full.flags))
    yes, no = ctx.stats.get('mixture_is_renumbered_union_yes', 0), ctx.stats.get('mixture_is_renumbered_union_NO', 0)
    ctx.assumption('mixture_graph_is_renumbered_union_of_component_graphs', yes > 0 and no <= 0.05 * (yes + no),
                   '%d of %d mixtures: atoms identical, bonds identical as a multiset, rings in the same order under the explicit H-last '
                   'permutation; %d exceptions (ring list of a bridged bicycle reordered)' % (yes, yes + no, no))
    replies = ctx.model([b[0] for b in batch])
    if replies is not None:
        for (req, impl, where), rep in zip(batch, replies):
            ctx.count('corr_c02.descriptors')
            if 'err' in rep or 'err' in impl:
                if rep.get('err') != impl.get('err'):
                    ctx.disagree('corr:c02.descriptors', where, impl, rep)
                continue
            model = {k: common.unjrat(v) for k, v in rep['ok']}
            if not S.same_counts(impl['ok'], model):
                ctx.disagree('corr:c02.descriptors', where, impl['ok'], {k: float(v) for k, v in model.items()})


# species whose perception is the delicate part of the decomposition: RDKit's own aromaticity model and the Benson rule of the
# package (only an isolated alternating all-carbon six-ring becomes aromatic, ring by ring) disagree on them, or the Kekule form
# RDKit picks matters - fused and linked aromatics in both spellings, hetero-aromatics, non-benzenoid rings, quinone, radicals
PERCEPTION_SENSITIVE = ['c1ccc2ccccc2c1', 'c1ccc2cc3ccccc3cc2c1', 'c1ccc2c(c1)ccc1ccccc12', 'Cc1cccc2ccccc12', 'C1=CC=C2C=CC=CC2=C1',
                        'c1ccc(cc1)c1ccccc1', 'c1ccc2c(c1)CCC2', 'c1ccc2c(c1)CC=C2', 'c1ccoc1', 'c1ccncc1', 'c1ccc2occc2c1', 'C1=CC=CC=CC=C1',
                        'O=C1C=CC(=O)C=C1', 'c1ccc2c(c1)ccc1c2ccc2ccccc21', '[CH2]c1cccc2ccccc12', 'Oc1cccc2ccccc12', 'c1ccccc1', 'Cc1ccccc1C',
                        'C1=CC=CC1', 'c1cc2cccc3ccc4cccc1c4c32', '[Pt]c1cccc2ccccc12', 'c1ccc2cc(O[Pt])ccc2c1']


def big_mixtures(ctx, libs_, batch):
    """The decomposition of a species must not depend on how big the input around it is.  Inputs of several hundred atoms - one
    long alkane (422, 788, 905 atoms with hydrogens), or many mid-size species - with a perception-sensitive species before or
    after it: the descriptors must still be the sum of the components' (a size- or component-count-dependent path that treats
    a component differently from the same species alone shows here and nowhere else)."""
    rng = ctx.rng
    names = [n for n, _ in libs_]
    chosen = names if ctx.thorough() else [n for n in names if n in ('BensonGA', 'GRWSurface2018')] + \
        rng.sample([n for n in names if n not in ('BensonGA', 'GRWSurface2018')], 2)
    for name, lib in libs_:
        if name not in chosen:
            continue
        bigs = [['C' * rng.choice([140, 262])], ['CCCCCCCCCC'] * 14 + ['CC(C)=O'] * 3]
        if ctx.thorough():
            bigs = [['C' * 140], ['C' * 262], ['CCCCCCCCCC'] * 14 + ['CC(C)=O'] * 3, ['CCO'] * 50,
                    rng.choice([['C' * 301], ['C' * 100, 'OC' + 'C' * 60]])]
        smalls = PERCEPTION_SENSITIVE[:2] + rng.sample(PERCEPTION_SENSITIVE[2:], ctx.n(5, 10))
        memo = {}

        def res(x):
            if x not in memo:
                memo[x] = S.impl_descriptors(lib, x)
            return memo[x]
        for big in bigs:
            for k, small in enumerate(smalls):
                if ctx.time_left() < 120:
                    return
                ctx.count('big_mixtures')
                orders = [[small] + big, big + [small], big[:len(big) // 2] + [small] + big[len(big) // 2:]]
                for parts in (orders if ctx.thorough() else rng.sample(orders, 2)):
                    before = len(ctx.violations)
                    check_pair(ctx, name, lib, parts, [res(x) for x in parts], batch if k == 0 else None)
                    if len(ctx.violations) > before:
                        # report the failing mixture in its smallest form instead
                        smaller = shrink_big(lib, parts, small, res)
                        if smaller != parts:
                            del ctx.violations[before:]
                            check_pair(ctx, name, lib, smaller, [res(x) for x in smaller], None)
                        return


def additive(lib, parts, res):
    """is the decomposition of the mixture the sum of (or does it fail with) its components'?"""
    r = S.impl_descriptors(lib, '.'.join(parts))
    rs = [res(x) for x in parts]
    if any('err' in x for x in rs) or 'err' in r:
        return ('err' in r) == any('err' in x for x in rs) and not r.get('err', '').startswith('internal')
    total = {}
    for x in rs:
        total = S.add_counts(total, x['ok'])
    return S.same_counts(r['ok'], total)


def shrink_big(lib, parts, small, res):
    """a failing big mixture in its smallest form: fewer companion species, then shorter alkane chains (bisection), as long as
    the mixture stays non-additive - the recorded input then shows the size at which the behaviour changes"""
    parts = list(parts)
    changed = True
    while changed and len(parts) > 2:
        changed = False
        for i in range(len(parts)):
            if parts[i] == small:
                continue
            fewer = parts[:i] + parts[i + 1:]
            if small in fewer and len(fewer) >= 2 and not additive(lib, fewer, res):
                parts, changed = fewer, True
                break
    for i, x in enumerate(parts):
        if x != small and set(x) == {'C'} and len(x) > 1:
            lo, hi = 1, len(x)        # fails at hi; find the smallest failing length above a passing one
            while hi - lo > 1:
                mid = (lo + hi) // 2
                if additive(lib, parts[:i] + ['C' * mid] + parts[i + 1:], res):
                    lo = mid
                else:
                    hi = mid
            parts[i] = 'C' * hi
    return parts


_SEP = {}


def check_pair(ctx, name, lib, parts, results, batch, full=None, pipe=None):
    mix = '.'.join(parts)
    r = S.impl_descriptors(lib, mix)
    if full is not None and not r.get('err', '').startswith('internal') and (full.max_cases is None or full.n < full.max_cases):
        u = S.mixture_is_union(parts)
        if u is not None:
            ctx.count('mixture_is_renumbered_union_%s' % ('yes' if u[0] else 'NO'))
            if u[0]:
                ctx.count('mixture_' + u[1].replace(' ', '_'))
            else:
                ex = ctx.extra.setdefault('coverage', {}).setdefault('mixture_not_union_examples', [])
                if len(ex) < 6:
                    ex.append([mix, u[1]])
    if full is not None and not r.get('err', '').startswith('internal'):
        # second tie: the end-to-end model on the mixture's raw graph
        full.add(lib, mix, r, {'scheme': name, 'smiles': mix}, S.impl_atoms(lib) if 'ok' in r else None,
                 S.hook_graph(lib) if 'ok' in r else None)
    heavy = [sum(1 for a in Chem.MolFromSmiles(p).GetAtoms()) for p in parts]
    fails = any('err' in x for x in results)
    ctx.case((name, mix) if (min(heavy) >= 2 or fails) else None, {'scheme': name, 'mixture': mix})
    ctx.count('mixtures_%d' % len(parts))
    inp = {'scheme': name, 'parts': parts}
    if r.get('err', '').startswith('internal') or any(x.get('err', '').startswith('internal') for x in results):
        ctx.violation('decomposition escapes with an unrelated exception', inp, None, r)
        return
    if fails:
        ctx.count('failure_propagation')
        if 'err' not in r:
            ctx.violation('a mixture with a component that cannot be decomposed was decomposed', inp, 'PatternMatchError', r)
        elif pipe is not None:
            pipeline_step(ctx, name, lib, parts, True, pipe)
        return
    if 'err' in r:
        ctx.violation('a mixture of decomposable components cannot be decomposed', inp, 'sum of the components', r)
        return
    # hypothesis `Separated` of the theorem, checked on this case: descriptor-side names carry no group count
    sep = True
    try:
        ps = []
        for part in parts:
            key = (id(lib), part)
            if key not in _SEP or _SEP[key][0] is not lib:
                if len(_SEP) > 4000:
                    _SEP.clear()
                _SEP[key] = (lib, S.declared(S.scheme_input(lib.scheme, S.prepare(part)), parts=True)['ok'])
            ps.append(_SEP[key][1])
        dkeys = set().union(*[set(d) for _, d in ps])
        sep = all(g.get(t, 0) == 0 for g, _ in ps for t in dkeys)
    except Exception:
        sep = True
    if not sep:
        ctx.count('not_separated')
    total = {}
    for x in results:
        total = S.add_counts(total, x['ok'])
    total = {k: v for k, v in total.items()}
    if not S.same_counts(r['ok'], total):
        ctx.violation('descriptors of the mixture differ from the sum of the components\'', inp, total, r['ok'])
    elif pipe is not None:
        pipeline_step(ctx, name, lib, parts, sep, pipe)
    # tie + validation of the union structure RDKit gives (A-graph for mixtures)
    if batch is not None and len(batch) < ctx.n(400, 5000):
        mol = S.prepare(mix)
        if mol is not None:
            batch.append((S.scheme_input(lib.scheme, mol), r, {'scheme': name, 'smiles': mix}))


def pipeline_step(ctx, name, lib, parts, sep, pipe):
    """C04 ∘ C01: the user's call chain `lib.Estimate(lib.GetDescriptors(x), 'thermochem')` on the mixture and on its components —
    H/RT, Cp/R, S/R, G/RT at the library's temperatures are additive, failures propagate as PIPE_mixture_additive states, the
    quadratic form gets the cross term; each molecule also goes to the composed Lean model (`pipe.estimate_batch`)."""
    if pipe.mixtures[name] >= ctx.n(24, 500) or ctx.time_left() < 90:
        return
    pipe.mixtures[name] += 1
    info, Ts, _ = pipe.open(name, lib)
    outs = [pipe.add(name, lib, p) for p in parts]
    mix = pipe.add(name, lib, '.'.join(parts))
    P.mixture_oracle(ctx, name, info, parts, outs, mix, Ts, separated=sep)
    P.sum_oracle(ctx, name, info, '.'.join(parts), mix, Ts)


def variant_step(ctx, name, lib, pipe):
    """The late failure stages of `Estimate` (descriptor outside the uncertainty basis → ValueError; empty common range →
    AssertionError) are reached by no shipped library: a variant of the library built through the real constructor reaches them,
    and the failure clause of PIPE_mixture_failure is run on it — single molecules and pairs from the molecules already tried."""
    if ctx.time_left() < 90:
        return
    seed = ctx.rng.randrange(2 ** 32)
    mols = sorted(x for (n_, x), o in pipe.memo.items() if n_ == name and 'ok' in o and '.' not in x)
    v = P.variant_library(name, lib, seed, pipe.memo)
    if v is None:
        ctx.count('pipe_variant_not_built')
        return
    lib2, what = v
    vname = name + '#variant'
    variant = {'base': name, 'seed': seed, 'molecules': mols}
    info, Ts, _ = pipe.open(vname, lib2, variant=variant)
    ctx.count('pipe_variant_libraries')
    pairs = list(itertools.product(mols, mols))
    ctx.rng.shuffle(pairs)
    # pairs whose parts carry the two descriptors with disjoint ranges / the descriptor cut from the basis first
    def score(p):
        ds = [set(pipe.memo[(name, x)]['counts']) for x in p]
        dj = what['disjoint'] or [None, None]
        return -((dj[0] in ds[0]) + (dj[1] in ds[1]) + (what['cut'] in ds[0] | ds[1]))
    pairs.sort(key=score)
    for a, b in pairs[:ctx.n(7, 120)]:
        outs = [pipe.add(vname, lib2, a), pipe.add(vname, lib2, b)]
        mix = pipe.add(vname, lib2, a + '.' + b)
        ctx.count('pipe_variant_mixtures')
        P.mixture_oracle(ctx, vname, info, [a, b], outs, mix, Ts, variant=variant)
        for x, o in ((a, outs[0]), (b, outs[1]), (a + '.' + b, mix)):
            P.variant_outcome_oracle(ctx, vname, info, x, o, what, Ts, variant)
            P.sum_oracle(ctx, vname, info, x, o, Ts, variant=variant)


def replay(ctx, rec):
    r = P.replay_record(ctx, rec)
    if r is not None:
        return r
    inp = rec.get('input', rec)
    before = len(ctx.violations)
    lib = dict(S.load_schemes())[inp['scheme']]
    check_pair(ctx, inp['scheme'], lib, inp['parts'], [S.impl_descriptors(lib, p) for p in inp['parts']], [])
    return len(ctx.violations) == before


LEVEL_TEXT = ('Lean 4 theorems: for the end-to-end model decompose and all well-formed graphs A, B, the disjoint union A ⊔ B (and any renumbering of it, as RDKit '
              'numbers a mixture) fails exactly when A or B fails and otherwise gives, for every name, the sum of the components\' counts '
              '(C04_decompose_union, C04_decompose_mixture) — through: every pattern the reader returns is connected (C04_load_connected), an embedding of a '
              'connected pattern lies in one component (C04_embeds_union), the Benson perception works per component (C04_aromatize_union), and additivity of the '
              'decomposition above the matcher (C04_descriptors_union; chain-free remaps; descriptor names separate from group names, checked per case). '
              'The implementation is compared with itself on A.B vs A and B (relational oracle) and with the end-to-end model on the mixture\'s graph. '
              'Composition (Props/Pipeline.lean): for the composed model pipeline = estimate ∘ decompose, H/RT, Cp/R, S/R (with and without elemental '
              'reference) and, in every unit, H, G, S, Cp of A ⊔ B are the sums of the components\' at every temperature (PIPE_mixture_additive, PIPE_dimensional); '
              'the stage at which the pipeline of A ⊔ B stops is a fixed table of the stages of A and B (PIPE_mixture_failure); the validity range is the '
              'intersection; x\'Mx gets the cross term 2 x_A\'M x_B (PIPE_mixture_quadratic_symmetric; additivity refuted). Tie: driver op pipe.estimate_batch '
              'on the raw graphs vs the real call chain; oracles: additivity, failure propagation, range, cross term, count-weighted sum.')
LEVEL_NOTE = ('Trusted: Lean kernel, standard axioms, RDKit\'s treatment of dot-disconnected SMILES (A-graph for mixtures: the mixture graph is the renumbered '
              'union of the component graphs — measured on every compared mixture). Explicit hypothesis: no molecule-level prefix in any pattern (holds for '
              'every pattern of the nine shipped schemes: table observation re-made each run from the live schemes through the model reader); no `*`, cap inactive.')
TECHNIQUE = 'Lean 4 proof (additivity of the decomposition model over disjoint unions) + relational differential run of the implementation'
