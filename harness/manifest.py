"""Regenerate MANIFEST.json from the per-property harness modules (python -m harness.manifest)."""
import json, os, importlib, sys
from . import common

ALL = ['C%02d' % i for i in range(1, 21)]
NOT_BUILT = 'check not built yet in this round (design in DESIGN.md section 3); nothing is claimed for it'


def main():
    checks, na = [], []
    for pid in ALL:
        path = os.path.join(common.HERE, pid.lower() + '.py')
        if not os.path.exists(path):
            na.append({'property_id': pid, 'reason': NOT_BUILT})
            continue
        mod = importlib.import_module('harness.' + pid.lower())
        if getattr(mod, 'NOT_APPLICABLE', None):
            na.append({'property_id': pid, 'reason': mod.NOT_APPLICABLE})
            continue
        checks.append({
            'property_id': pid,
            'quick_cmd': './check %s --tier quick' % pid,
            'thorough_cmd': './check %s --tier thorough' % pid,
            'evidence_file': 'evidence/%s.json' % pid,
            'replay_cmd_template': './check %s --replay {path}' % pid,
            'engine': 'lean4-model+correspondence',
            'level_claimed': {'category': 'proof', 'text': mod.LEVEL_TEXT, 'design_ref': 'DESIGN.md section 3, ' + pid},
            'level_note': mod.LEVEL_NOTE,
            'technique': mod.TECHNIQUE,
        })
    man = {
        'version': 1,
        'setup_cmd': './check --setup',
        'hooks': {
            'guard': 'PGRADD_VERIF',
            'enable': 'environment variable PGRADD_VERIF=1 (set by ./check); pure-Python package, nothing to rebuild',
            'baseline_off_cmd': 'cd /repo && env -u PGRADD_VERIF /venv/bin/python -m pytest -ra -q -p no:cacheprovider --timeout=900 --continue-on-collection-errors',
            'source_commits': json.load(open(os.path.join(common.VERIF, 'hooks.json')))['source_commits'] if os.path.exists(os.path.join(common.VERIF, 'hooks.json')) else [],
            'add_only': True,
        },
        'engines': [{
            'name': 'lean4-model+correspondence', 'path': 'lean/ (Lake project PGA), harness/ (translator, correspondence, search), check',
            'serves_properties': [c['property_id'] for c in checks],
            'kind_free_text': 'Lean 4 theorems over an executable model of the Python code; model tied to /repo on every run by a table translator (live objects -> Lean literals, re-checked by the kernel) and a correspondence check (compiled model driver vs the implementation on generated inputs); failing-input search on any break',
        }],
        'checks': checks,
        'not_applicable': na,
        'notes': 'Exit codes of every check: 0 held, 1 violation (VIOLATION line printed), 2 machinery failure/timeout. REPO=<dir> checks another working tree. known_findings.json lists recorded findings (KNOWN-FINDING lines) and fixed ones.',
    }
    with open(os.path.join(common.VERIF, 'MANIFEST.json'), 'w') as f:
        json.dump(man, f, indent=1)
    print('MANIFEST.json: %d checks, %d not claimed' % (len(checks), len(na)))


if __name__ == '__main__':
    main()
