"""Fresh-process runner for C15: reads a JSON list of requests on stdin, writes a JSON list of replies on stdout.

Every request builds its own library objects from the files (nothing is shared between requests except the
process-wide registries of the package; the harness also runs a sample of requests one per process).
`python -m harness.lib_c15_worker` (PYTHONPATH must put $REPO first).  Also imported by harness/c15.py for the
canonicalisation helpers (`fingerprint`, `canon_descr`, `evaluate`, `exc_name`), so that both sides canonicalise alike.

provenance P:  ["L", name, byPath?] | ["M", P_dst, P_src, overwrite]
requests:
  {"kind": "data",   "prov": P}                                     -> {"fp": sha1 | "err": class}
  {"kind": "decomp", "L": name, "m": smiles}                        -> {"descr": [[name, count]…]} | {"err": class}
  {"kind": "est",    "prov": P, "d": [[name,count]…], "name": smiles|null}  -> {"ok": true} | {"err": class}
  {"kind": "eval",   "snap": P, "now": P, "d": …, "name": smiles|null, "evals": [[T, q, elemental]…]}
                                                                    -> {"vals": [repr(float) | "err:class" …]} | {"err": class}
  {"kind": "merge",  "dst": P, "src": P, "ow": b}                   -> {"err": class|null, "fp": sha1 of dst afterwards}
  {"kind": "probe_f1"}                                              -> {"f1Fixed": bool}
"""
import sys, os, json, hashlib, io, contextlib


def exc_name(e):
    return type(e).__name__


def quiet():
    import warnings
    warnings.filterwarnings('ignore')
    from rdkit import RDLogger
    RDLogger.DisableLog('rdApp.*')


def data_dir():
    import pgradd
    return os.path.join(os.path.dirname(os.path.abspath(pgradd.__file__)), 'data')


def fingerprint(lib):
    """canonical digest of a library's data: every group's property sets and the UQ block"""
    with contextlib.redirect_stdout(io.StringIO()):     # repr of a zero quantity with units prints a debug line
        return _fingerprint(lib)


def _fingerprint(lib):
    rows = []
    for g, psets in lib.contents.items():
        for n, c in psets.items():
            cp = getattr(c, 'ND_Cp_data', None)
            rows.append(repr((str(g), str(n), type(c).__name__, repr(getattr(c, 'ND_H_ref', None)), repr(getattr(c, 'ND_S_ref', None)),
                              sorted((repr(k), repr(v)) for k, v in (cp or {}).items()), repr(getattr(c, 'T_ref', None)),
                              repr(c.get_range()))))
    rows.sort()
    uq = lib.uq_contents
    u = None
    if uq:
        r = uq['RMSE'].thermochem
        u = repr((sorted(map(str, uq.keys())), [str(x) for x in uq['descriptors']], hashlib.sha1(uq['mat'].tobytes()).hexdigest(),
                  repr(uq['dof']), repr(r.ND_H_ref), repr(r.ND_S_ref), sorted((repr(k), repr(v)) for k, v in (r.ND_Cp_data or {}).items())))
    h = hashlib.sha1()
    h.update(('\n'.join(rows) + '\n#' + repr(u) + '\n#' + str(len(lib))).encode())
    return h.hexdigest()


def parts(lib):
    """the same data as `fingerprint`, kept apart: a digest per group and one for the uncertainty block (None: no such block)"""
    with contextlib.redirect_stdout(io.StringIO()):
        groups = {}
        for g, psets in lib.contents.items():
            rows = []
            for n, c in psets.items():
                cp = getattr(c, 'ND_Cp_data', None)
                rows.append(repr((str(n), type(c).__name__, repr(getattr(c, 'ND_H_ref', None)), repr(getattr(c, 'ND_S_ref', None)),
                                  sorted((repr(k), repr(v)) for k, v in (cp or {}).items()), repr(getattr(c, 'T_ref', None)),
                                  repr(c.get_range()))))
            groups[str(g)] = hashlib.sha1('\n'.join(sorted(rows)).encode()).hexdigest()
        uq = lib.uq_contents
        u = None
        if uq:
            r = uq['RMSE'].thermochem
            u = hashlib.sha1(repr((sorted(map(str, uq.keys())), [str(x) for x in uq['descriptors']], hashlib.sha1(uq['mat'].tobytes()).hexdigest(),
                                   repr(uq['dof']), repr(r.ND_H_ref), repr(r.ND_S_ref),
                                   sorted((repr(k), repr(v)) for k, v in (r.ND_Cp_data or {}).items()))).encode()).hexdigest()
        return {'groups': groups, 'uq': u}


def canon_descr(d):
    return sorted([str(k), repr(float(v))] for k, v in dict(d).items())


def descr_dict(rows):
    return {k: float(v) for k, v in rows}


# Quantities.  A name `X!error` / `X!record` is quantity X asked for while the CALLER has a warnings filter in force: the
# package's own warning categories turned into errors (`python -W error::pgradd.Error.IncompleteDataWarning`, pytest -W error),
# or recorded with the `always` filter.  The filter is part of what the caller asks for — a declared input of the evaluation,
# carried in the quantity index, which is an opaque number to the model — and the outcome (a value; the warning raised as
# an exception; a value and how many warnings of which category) must not depend on earlier evaluations either.  The plain
# names come first and keep their indices (recorded histories refer to quantities by index).
PLAIN_QTYS = ['HoRT', 'SoR', 'CpoR', 'GoRT', 'H:kcal/mol', 'S:J/mol/K', 'G:kJ/mol', 'Cp:cal/mol/K', 'HoRT_SE', 'SoR_SE', 'CpoR_SE']
FILTER_QTYS = ['HoRT!error', 'SoR!error', 'GoRT!error', 'CpoR!error', 'H:kcal/mol!error', 'G:kJ/mol!error',
               'HoRT!record', 'SoR!record', 'GoRT!record', 'S:J/mol/K!record']
QTYS = PLAIN_QTYS + FILTER_QTYS
ELEMENTAL = {q for q in QTYS if q.split('!')[0] in ('SoR', 'GoRT', 'S:J/mol/K', 'G:kJ/mol')}


def package_warnings():
    """the warning categories the package defines"""
    import pgradd.Error as E
    return [c for c in vars(E).values() if isinstance(c, type) and issubclass(c, Warning) and c.__module__ == E.__name__]


def evaluate(est, T, q, elemental):
    """one evaluation of an estimate, canonicalised: repr(value) | 'err:Class' and, for `!record`, the recorded warnings of
    the package's categories as ' warned=Category*count,…' (never a message)"""
    import warnings
    q, _, mode = q.partition('!')

    def call():
        kw = {'S_elements': True} if elemental else {}
        if ':' in q:
            f, units = q.split(':')
            v = getattr(est, 'get_' + f)(T, units, **kw)
        else:
            v = getattr(est, 'get_' + q)(T, **kw)
        return repr(float(v))
    try:
        if not mode:
            return call()
        with warnings.catch_warnings(record=(mode == 'record')) as rec:
            warnings.simplefilter('ignore')
            for c in package_warnings():
                warnings.filterwarnings('error' if mode == 'error' else 'always', category=c)
            try:
                v = call()
            except Exception as e:
                v = 'err:' + exc_name(e)
            if mode == 'record':
                n = {}
                for w in rec:
                    n[w.category.__name__] = n.get(w.category.__name__, 0) + 1
                v += ' warned=' + ','.join('%s*%d' % kv for kv in sorted(n.items()))
            return v
    except Exception as e:
        return 'err:' + exc_name(e)


def load(name, by_path=False):
    from pgradd.GroupAdd.Library import GroupLibrary
    import pgradd.ThermoChem  # registers the property set
    if by_path:
        return GroupLibrary.Load(os.path.join(data_dir(), name, 'library.yaml'))
    return GroupLibrary.Load(name)


def build(P):
    if P[0] == 'L':
        return load(P[1], bool(P[2]) if len(P) > 2 else False)
    a = build(P[1])
    b = build(P[2])
    try:
        a.Update(b, overwrite=bool(P[3]))
    except Exception:
        pass
    return a


def chain(snap, now):
    """the merges that lead from `snap` to `now` (now = M(...M(snap, x1, o1)..., xk, ok))"""
    todo = []
    while now != snap:
        if now[0] != 'M':
            raise ValueError('now is not an extension of snap')
        todo.append((now[2], now[3]))
        now = now[1]
    return list(reversed(todo))


def handle(r):
    k = r['kind']
    if k == 'probe_f1':
        lib = load('XieGA2022')
        g = next(iter(lib.contents))
        try:
            lib.Estimate({g: 1}, 'thermochem')
            return {'f1Fixed': True}
        except AttributeError:
            return {'f1Fixed': False}
    if k == 'data':
        try:
            return {'fp': fingerprint(build(r['prov']))}
        except Exception as e:
            return {'err': exc_name(e)}
    if k == 'decomp':
        lib = load(r['L'])
        try:
            return {'descr': canon_descr(lib.GetDescriptors(r['m']))}
        except Exception as e:
            return {'err': exc_name(e)}
    if k == 'merge':
        a = build(r['dst'])
        b = build(r['src'])
        err = None
        try:
            a.Update(b, overwrite=bool(r['ow']))
        except Exception as e:
            err = exc_name(e)
        return {'err': err, 'fp': fingerprint(a)}
    if k in ('est', 'eval'):
        lib = build(r['prov'] if k == 'est' else r['snap'])
        if r.get('name') is not None:
            try:
                lib.GetDescriptors(r['name'])
            except Exception:
                pass
        try:
            est = lib.Estimate(descr_dict(r['d']), 'thermochem')
        except Exception as e:
            return {'err': exc_name(e)}
        if k == 'est':
            return {'ok': True}
        for src, ow in chain(r['snap'], r['now']):
            try:
                lib.Update(build(src), overwrite=bool(ow))
            except Exception:
                pass
        return {'vals': [evaluate(est, T, q, el) for T, q, el in r['evals']]}
    raise ValueError('unknown request kind %r' % k)


def main():
    quiet()
    reqs = json.load(sys.stdin)
    out = []
    for r in reqs:
        buf = io.StringIO()
        try:
            with contextlib.redirect_stdout(buf):
                out.append(handle(r))
        except Exception as e:  # the runner's own failure: reported, never silently turned into a value
            out.append({'worker_error': '%s: %s' % (exc_name(e), e)})
    json.dump(out, sys.stdout)


if __name__ == '__main__':
    main()
