"""The composed pipeline a user runs — `lib.Estimate(lib.GetDescriptors(x), 'thermochem').get_X(T)` — for the harnesses
of C03 and C04 (theorems `PGA.Pipeline.PIPE_*`, `lean/PGA/Props/Pipeline.lean`; model `PGA.Pipeline.pipeline`, driver op
`pipe.estimate_batch`).

* `impl_pipeline` runs that call chain on the real code and canonicalises the outcome (decomposition error / estimate
  error class [+ missing groups] / the non-dimensional values at a few temperatures, the range, the quadratic form).
* `PipeTie` collects inputs per library, sends every library once per temperature to the composed Lean model (scheme
  parse trees + the library's per-group values at T + the raw graphs) and diffs the replies (correspondence).
* the property-level oracles: `mixture_oracle` ('A.B' = A + B: values, elemental entropies, error outcomes, the
  quadratic form's cross term), `equiv_oracle` (another spelling of the same molecule gives the same outcome),
  `respell_oracle` (the mapping keyed by `Group` objects parsed from other spellings of the group names, or listed in
  another order, gives the same estimate).
"""
import collections, math, os, warnings
from fractions import Fraction
from . import common, lib_scheme as S, lib_estimate as E

SET = 'thermochem'
OBLIGATIONS_C04 = ['PIPE_driver_computes_pipeline', 'PIPE_wsum_depends_on_counts_only', 'PIPE_value_depends_on_counts_only', 'PIPE_value_depends_on_counts_only_full_fails', 'PIPE_outcome_depends_on_counts_only',
                   'PIPE_mixture_additive', 'PIPE_mixture_failure', 'PIPE_mixture_estimate_iff', 'PIPE_mixture_as_numbered_by_rdkit',
                   'PIPE_mixture_quadratic', 'PIPE_mixture_quadratic_symmetric', 'PIPE_mixture_quadratic_additive_full_fails', 'PIPE_dimensional_sum', 'PIPE_dimensional']
OBLIGATIONS_C03 = ['PIPE_driver_computes_pipeline', 'PIPE_relabel_invariant', 'PIPE_ring_presentation_invariant_partial', 'PIPE_relabel_quadratic', 'PIPE_spelling_independent', 'PIPE_spelling_lookup', 'PIPE_spelling_group_order',
                   'PIPE_group_keys_canonical', 'PIPE_keys_origin', 'PIPE_spelling_raw_string_partial', 'PIPE_spelling_raw_string_full_fails',
                   'PIPE_dimensional_same', 'PIPE_dimensional_relabel']
FLAGS = (None, True)            # S/R and G/RT plain, and relative to the elements
CAP = 10000
_INFO = {}


def info_of(name, lib):
    """`lib_estimate.LibInfo` of the library object the scheme-level harness loaded (the matrix travels explicitly)"""
    ent = _INFO.get(name)
    if ent is None or ent.lib is not lib:
        ent = E.LibInfo(name, lib, matlib=None)
        _INFO[name] = ent
    return ent


def temperatures(rng, k):
    """a few temperatures per library and run: the reference temperature, table knots, off-knot values, one outside most ranges"""
    pool = [298.15, 300.0, 400.0, 500.0, 600.0, 800.0, 1000.0, 1500.0]
    out = [298.15, rng.choice(pool[1:]), round(rng.uniform(250.0, 1200.0), 3)]
    if k > 3:
        out += [rng.choice([50.0, 5000.0, 99.5])] + [round(rng.uniform(100.0, 2000.0), 2) for _ in range(k - 4)]
    return out[:k]


# ----------------------------------------------------------------------------- the implementation, canonically observed
def impl_pipeline(info, x, Ts, flags=FLAGS, mapping=None):
    """{'decomp': 'patternMatch'} | {'internal': where} | {'counts', 'esterr': {...}} | {'counts', 'ok': {T: getters}, 'range', 'n', 'uq'}
    `mapping` (optional): a function dict -> dict applied to what GetDescriptors returned before it goes into Estimate."""
    from pgradd.Error import PatternMatchError, GroupMissingDataError
    lib = info.lib
    try:
        with warnings.catch_warnings():
            warnings.simplefilter('ignore')
            d = lib.GetDescriptors(x)
    except PatternMatchError:
        return {'decomp': 'patternMatch'}
    except Exception as e:
        return {'internal': 'GetDescriptors:' + type(e).__name__}
    out = {'counts': {str(k): v for k, v in d.items()}, 'order': [str(k) for k in d]}
    if mapping is not None:
        d = mapping(d)
    try:
        est = lib.Estimate(d, SET)
    except GroupMissingDataError as e:
        out['esterr'] = {'class': 'GroupMissingDataError', 'groups': [str(g) for g in e.groups]}
        return out
    except (KeyError, ValueError, AssertionError) as e:
        out['esterr'] = {'class': type(e).__name__}
        return out
    except Exception as e:
        out['internal'] = 'Estimate:' + type(e).__name__
        return out
    names = list(out['order'])
    has_mol = E.atoms_of(lib) is not None
    out['ok'] = {}
    for i, T in enumerate(Ts):
        # the elemental reference does not depend on T (and costs an RDKit parse per call): asked for at the first temperature only
        out['ok'][T] = E.eval_object(est, T, (), flags if i == 0 else flags[:1], info, names, has_mol)
    out['range'] = est.get_range()
    out['n'] = len(est.correlations)
    if hasattr(est, 'Xp_invXX_Xp'):
        import numpy as np
        q = np.asarray(est.Xp_invXX_Xp)
        out['uq'] = {'q': float(q.reshape(-1)[0]) if q.size == 1 else None, 'dof': est.dof}
    else:
        out['uq'] = None
    return out


def scales(info, counts, T):
    """Σ|n·x_d(T)| per property over the descriptors that have a value (tolerance scale, DESIGN 2.3)"""
    sc = {'cp': 0.0, 'h': 0.0, 's': 0.0}
    for nm, n in counts.items():
        if nm in info.corr:
            for p in sc:
                v = info.group_val(nm, p, T)[1]
                if v is not None:
                    sc[p] += abs(float(n) * float(v))
    return sc


def outcome_class(o):
    if 'internal' in o:
        return 'internal:' + o['internal']
    if 'decomp' in o:
        return 'PatternMatchError'
    if 'esterr' in o:
        return o['esterr']['class']
    return 'estimate'


# ----------------------------------------------------------------------------- correspondence with the composed model
def lib_json(info, T):
    entries = []
    for nm in info.names:
        entries.append([nm, [[s, info.corr_json(nm, T) if (s == SET and nm in info.corr) else None] for s in info.sets[nm]]])
    uq = None
    if info.uq is not None:
        uq = {'rmse': E.corr_json_of(info.uq['rmse'], T), 'basis': info.uq['basis'], 'dof': info.uq['dof'],
              'mat': [[common.jrat(E.exact(x)) for x in row] for row in info.uq['mat'].tolist()]}
    return {'entries': entries, 'uq': uq, 'name': None}


def request(info, Ts, graphs, flags=FLAGS):
    GroupLibrary = E._imports()[0]
    return {'op': 'pipe.estimate_batch', 'scheme': S.scheme_json(info.lib.scheme),
            'libs': [{'T': common.jrat(E.exact(T)), 'lib': lib_json(info, T)} for T in Ts],
            'registered': sorted(GroupLibrary._property_set_estimator_types), 'set': SET,
            'flags': [E.flag_json(f) for f in flags], 'mols': graphs}


def compare_one(ctx, info, where, impl, T, mol_rep, rep):
    """one molecule, one temperature: implementation outcome vs `PGA.Pipeline.pipeline` (`mol_rep`: the per-molecule part of the
    reply — counts and guards; `rep`: the outcome at `T`)"""
    def bad(what, i, m):
        ctx.disagree('corr:pipe.estimate', dict(where, T=T, part=what), i, m)
        return False
    if not (mol_rep['wf'] and mol_rep['bonded']):
        raise common.MachineryError('A-graph: the model finds the extracted graph ill-formed for %r' % (where,))
    if mol_rep['maxraw'] >= CAP:
        ctx.count('pipe_cap_reached')
        return True
    ic = outcome_class(impl)
    if 'decomp' in rep:
        ctx.count('pipe_model_patternMatch')
        return ic == 'PatternMatchError' or bad('outcome', ic, 'PatternMatchError')
    if 'counts' in impl:
        model_counts = {k: common.unjrat(v) for k, v in mol_rep['counts']}
        if not S.same_counts(impl['counts'], model_counts):
            return bad('counts', impl['counts'], {k: float(v) for k, v in model_counts.items()})
    if 'esterr' in rep:
        kind = rep['esterr']['kind']
        ctx.count('pipe_model_est_' + kind)
        if E.EST_ERR[kind] != ic:
            return bad('outcome', ic, rep['esterr'])
        if kind == 'missing' and sorted(rep['esterr']['groups']) != sorted(impl['esterr']['groups']):
            # as sets: the order in which GetDescriptors lists the names is no property of the code (C01 compares the order, for a given mapping)
            return bad('missing groups', sorted(impl['esterr']['groups']), sorted(rep['esterr']['groups']))
        return True
    if ic != 'estimate':
        return bad('outcome', ic, 'estimate')
    ctx.count('pipe_model_estimate')
    mo, io = rep['ok'], impl['ok'][T]
    good = True
    if impl['n'] != mo['n']:
        good = bad('number of terms', impl['n'], mo['n'])
    if E.range_json(impl['range']) != mo['range']:
        good = bad('range', E.range_json(impl['range']), mo['range'])
    sc = scales(info, impl['counts'], T)
    sel_scale = 50.0 * where.get('natoms', 0)
    good = E.compare_object(info, io, mo, sc, float(T), (), FLAGS[:len(io['s'])], sel_scale, ('nd',), bad) and good
    if (impl['uq'] is None) != (mo['uq'] is None):
        good = bad('uq presence', impl['uq'], mo['uq'])
    elif impl['uq'] is not None:
        mq = common.unjrat(mo['uq']['q'])
        if impl['uq']['dof'] != mo['uq']['dof'] or impl['uq']['q'] is None:
            good = bad('uq dof/shape', impl['uq'], mo['uq']['dof'])
        elif not common.close(impl['uq']['q'], mq, q_scale(info, impl['counts'])):
            good = bad('q', impl['uq']['q'], float(mq))
    for p in ('cp', 'h'):
        ctx.count('pipe_value_%s_%s' % (p, io[p][0] if io[p][0] == 'ok' else io[p][1]))
    return good


def q_scale(info, counts):
    """Σ|x_i M_ij x_j| (tolerance scale of the quadratic form)"""
    import numpy as np
    x = uq_vector(info, counts)
    if x is None:
        return 0.0
    return float(np.abs(x) @ np.abs(info.uq['mat']) @ np.abs(x))


def uq_vector(info, counts):
    import numpy as np
    if info.uq is None:
        return None
    x = np.zeros(len(info.uq['basis']))
    for nm, n in counts.items():
        if nm not in info.uq['basis']:
            return None
        x[info.uq['basis'].index(nm)] = float(n)
    return x


class PipeTie(object):
    """correspondence run: per library, the inputs collected by the harness, each evaluated at the run's temperatures"""

    def __init__(self, ctx, n_temps=3, max_cases=None, max_atoms=40):
        self.ctx = ctx
        self.n_temps = n_temps
        self.max_cases = max_cases
        self.max_atoms = max_atoms
        self.cases = collections.OrderedDict()      # name -> [info, Ts, [(graph, where, impl)]]
        self.seen = set()
        self.memo = {}
        self.variants = {}
        self.t_impl = 0.0

    def temps(self, name):
        ent = self.cases.get(name)
        return ent[1] if ent else None

    def open(self, name, lib, variant=None):
        if name not in self.cases:
            self.cases[name] = [info_of(name, lib), temperatures(self.ctx.rng, self.n_temps), []]
            if variant:
                self.variants[name] = variant
        return self.cases[name]

    def full(self, name):
        return self.max_cases is not None and sum(1 for k in self.seen if k[0] == name) >= self.max_cases

    def add(self, name, lib, x, impl=None):
        """x: a SMILES string.  Returns the implementation's outcome (computed here unless given)."""
        ctx = self.ctx
        info, Ts, lst = self.open(name, lib)
        if impl is None:
            impl = self.impl(name, lib, x)
        if (name, x) in self.seen or self.full(name) or 'internal' in impl:
            return impl
        g = S.raw_graph(x)
        if g is None:
            ctx.count('pipe_no_graph')
            return impl
        if len(g['atoms']) > self.max_atoms:
            ctx.count('pipe_skipped_over_%d_atoms' % self.max_atoms)
            return impl
        self.seen.add((name, x))
        where = {'scheme': name, 'smiles': x, 'natoms': len(g['atoms']), 'Ts': list(Ts)}
        if name in self.variants:
            where['variant'] = self.variants[name]
        lst.append((g, where, impl))
        return impl

    def impl(self, name, lib, x):
        """the implementation's pipeline outcome for SMILES `x` at this library's temperatures (computed once per run)"""
        info, Ts, _ = self.open(name, lib)
        key = (name, x)
        if key not in self.memo:
            import time
            t0 = time.time()
            self.memo[key] = impl_pipeline(info, x, Ts)
            self.t_impl += time.time() - t0
        return self.memo[key]

    def run(self):
        ctx = self.ctx
        todo = [(name, ent[0], ent[1], ent[2]) for name, ent in self.cases.items()]
        for ent in self.cases.values():
            ent[2] = []
        reqs, meta = [], []
        for name, info, Ts, lst in todo:
            if not lst:
                continue
            reqs.append(request(info, Ts, [c[0] for c in lst]))
            meta.append((info, Ts, lst))
        import time
        t0 = time.time()
        replies = ctx.model(reqs)
        tm = ctx.extra.setdefault('coverage', {}).setdefault('pipeline_seconds', {'model': 0.0, 'implementation': 0.0})
        tm['model'] = round(tm['model'] + time.time() - t0, 2)
        tm['implementation'] = round(self.t_impl, 2)
        if replies is None:
            return
        for (info, Ts, lst), rep in zip(meta, replies):
            if 'loaderr' in rep:
                ctx.disagree('corr:pipe.estimate', lst[0][1], 'scheme loaded', rep)
                continue
            for (g, where, impl), r in zip(lst, rep['res']):
                for T, at in zip(Ts, r['at']):
                    ctx.count('corr_pipe.estimate')
                    compare_one(ctx, info, where, impl, T, r, at)


# ----------------------------------------------------------------------------- property-level oracles
def _val(o, T, p, fi=None):
    v = o['ok'][T][p]
    return v if fi is None else v[fi]


def _flags_at(o, T):
    """indices of the `S_elements` flags evaluated at `T` (all at the first temperature, the plain one elsewhere)"""
    return range(len(o['ok'][T]['s']))


def mixture_oracle(ctx, name, info, parts, outs, mix, Ts, separated=True, variant=None):
    """PIPE_mixture_additive on the real code: `outs` = pipeline outcomes of the parts, `mix` = of 'A.B…' (same temperatures)."""
    inp = {'scheme': name, 'parts': parts, 'pipeline': 'mixture', 'Ts': list(Ts)}
    if variant:
        inp['variant'] = variant
    cls = [outcome_class(o) for o in outs]
    mc = outcome_class(mix)
    ctx.count('pipe_mixture_%s' % mc)
    if mc.startswith('internal') or any(c.startswith('internal') for c in cls):
        ctx.violation('the estimate pipeline escapes with an unrelated exception', inp, None, [mc] + cls)
        return
    # failure clause 1: the decomposition of the mixture fails exactly when a part's does
    if (mc == 'PatternMatchError') != any(c == 'PatternMatchError' for c in cls):
        ctx.violation('pipeline of a mixture: decomposition failure does not propagate from / to the components', inp, cls, mc)
        return
    if mc == 'PatternMatchError':
        return
    # failure clause 2: descriptors without data — the mixture's are the union of the components'
    miss = set()
    for o in outs:
        if 'esterr' in o and o['esterr']['class'] == 'GroupMissingDataError':
            miss |= set(o['esterr']['groups'])
    mmiss = set(mix['esterr']['groups']) if mc == 'GroupMissingDataError' else set()
    if miss != mmiss:
        ctx.violation('pipeline of a mixture: the descriptors reported as lacking data are not the union of the components\'', inp,
                      sorted(miss), sorted(mmiss) if mc == 'GroupMissingDataError' else mc)
        return
    if mmiss:
        return
    # no part lacks data: the remaining failures are ValueError (descriptor outside the uncertainty basis: iff some part's)
    # and AssertionError (empty common range: only the intersection can newly be empty)
    if (mc == 'ValueError') != any(c == 'ValueError' for c in cls):
        ctx.violation('pipeline of a mixture: ValueError does not propagate from / to the components', inp, cls, mc)
        return
    if mc == 'ValueError':
        return
    if any(c == 'AssertionError' for c in cls) and mc != 'AssertionError':
        ctx.violation('pipeline of a mixture succeeds although a component has no common validity range', inp, cls, mc)
        return
    if any(c != 'estimate' for c in cls):
        return
    rs = [o['range'] for o in outs if o['range'] is not None]
    want = (max(r[0] for r in rs), min(r[1] for r in rs)) if rs else None
    if mc == 'AssertionError':
        if want is None or want[0] <= want[1]:
            ctx.violation('pipeline of a mixture: AssertionError although the components\' ranges intersect', inp, want, mc)
        return
    if mc != 'estimate':
        ctx.violation('pipeline of a mixture of estimable components fails', inp, 'estimate', mc)
        return
    if (mix['range'] is None) != (want is None) or (want is not None and tuple(float(v) for v in mix['range']) != tuple(float(v) for v in want)):
        ctx.violation('pipeline of a mixture: validity range is not the intersection of the components\'', inp, want, mix['range'])
    if not separated:
        ctx.count('pipe_mixture_not_separated')
        return
    for T in Ts:
        scs = [scales(info, o['counts'], T) for o in outs]
        for p, key, uses in (('cp', 'cp', ('cp',)), ('h', 'h', ('h',)), ('s', 's', ('s',)), ('g', 'g', ('h', 's'))):
            for fi in ([None] if p in ('cp', 'h') else _flags_at(mix, T)):
                vs = [_val(o, T, p, fi) for o in outs]
                mv = _val(mix, T, p, fi)
                if any(v[0] == 'err' for v in vs) or mv[0] == 'err':
                    # value-level failure clause: the mixture's getter fails exactly when a component's does
                    if (mv[0] == 'err') != any(v[0] == 'err' for v in vs):
                        ctx.violation('pipeline of a mixture: a getter fails for the mixture but for no component (or the reverse)',
                                      dict(inp, T=T, getter=p, flag=None if fi is None else FLAGS[fi]), [list(v) for v in vs], list(mv))
                    continue
                tot = sum(float(v[1]) for v in vs)
                scale = sum(sum(sc[u] for u in uses) for sc in scs) + sum(abs(float(v[1])) for v in vs)
                if fi is not None and FLAGS[fi]:
                    scale += 50.0 * 60
                if not common.close(mv[1], tot, scale):
                    ctx.violation('pipeline of a mixture: %s of A.B differs from the sum over the components' % {'cp': 'Cp/R', 'h': 'H/RT', 's': 'S/R', 'g': 'G/RT'}[p],
                                  dict(inp, T=T, getter=p, flag=None if fi is None else FLAGS[fi]), tot, mv[1])
                ctx.count('pipe_mixture_additive_checks')
    # the quadratic form is not additive: q(A.B) = q(A) + q(B) + 2·x_A'·M·x_B  (x(A.B) = x(A) + x(B))
    if mix['uq'] is not None and all(o['uq'] is not None for o in outs) and len(outs) == 2:
        import numpy as np
        xa, xb = uq_vector(info, outs[0]['counts']), uq_vector(info, outs[1]['counts'])
        xm = uq_vector(info, mix['counts'])
        if xa is not None and xb is not None and xm is not None and mix['uq']['q'] is not None:
            M = info.uq['mat']
            cross = float(xa @ M @ xb) + float(xb @ M @ xa)
            want_q = outs[0]['uq']['q'] + outs[1]['uq']['q'] + cross
            scale = float(np.abs(xm) @ np.abs(M) @ np.abs(xm))
            if not common.close(mix['uq']['q'], want_q, scale, rel=1e-8):
                ctx.violation('pipeline of a mixture: x\'Mx of A.B is not q(A) + q(B) + x_A\'(M + M\')x_B', inp, want_q, mix['uq']['q'])
            ctx.count('pipe_mixture_quadratic_checks')
            if abs(cross) > 1e-9 * (scale + 1e-300):
                ctx.count('pipe_mixture_quadratic_cross_term_nonzero')


def same_outcome(ctx, info, inp, a, b, Ts, what):
    """two pipeline outcomes that the theorems say are the same: class, missing set, range, values at every temperature"""
    ca, cb = outcome_class(a), outcome_class(b)
    if ca.startswith('internal') or cb.startswith('internal'):
        ctx.violation('the estimate pipeline escapes with an unrelated exception', inp, None, [ca, cb])
        return False
    if ca != cb:
        ctx.violation(what + ': different outcome', inp, ca, cb)
        return False
    if ca == 'GroupMissingDataError' and set(a['esterr']['groups']) != set(b['esterr']['groups']):
        ctx.violation(what + ': different descriptors reported as lacking data', inp, sorted(a['esterr']['groups']), sorted(b['esterr']['groups']))
        return False
    if ca != 'estimate':
        return True
    ra, rb = a['range'], b['range']
    if (ra is None) != (rb is None) or (ra is not None and tuple(map(float, ra)) != tuple(map(float, rb))):
        ctx.violation(what + ': different validity range', inp, ra, rb)
        return False
    good = True
    for T in Ts:
        sc = scales(info, a['counts'], T)
        for p, uses in (('cp', ('cp',)), ('h', ('h',)), ('s', ('s',)), ('g', ('h', 's'))):
            for fi in ([None] if p in ('cp', 'h') else _flags_at(a, T)):
                va, vb = _val(a, T, p, fi), _val(b, T, p, fi)
                if va[0] == 'err' or vb[0] == 'err':
                    if va[0] != vb[0]:
                        ctx.violation(what + ': a getter fails for one and not for the other', dict(inp, T=T, getter=p), list(va), list(vb))
                        good = False
                    continue
                scale = sum(sc[u] for u in uses) + (50.0 * 60 if (fi is not None and FLAGS[fi]) else 0.0)
                if not common.close(vb[1], va[1], scale):
                    ctx.violation(what + ': different %s' % p, dict(inp, T=T, getter=p, flag=None if fi is None else FLAGS[fi]), va[1], vb[1])
                    good = False
                ctx.count('pipe_same_value_checks')
    if a['uq'] is not None and b['uq'] is not None and a['uq']['q'] is not None and b['uq']['q'] is not None:
        if not common.close(b['uq']['q'], a['uq']['q'], q_scale(info, a['counts']), rel=1e-8):
            ctx.violation(what + ': different quadratic form', inp, a['uq']['q'], b['uq']['q'])
            good = False
    return good


def sum_oracle(ctx, name, info, smi, out, Ts, variant=None):
    """C01 ∘ C02 on the real code: the estimate the pipeline returns is the count-weighted sum over exactly the descriptors
    `GetDescriptors` returned — one term per descriptor, H/RT, Cp/R, S/R = Σ n·x_d(T) (first failing descriptor's failure
    otherwise), validity range = intersection of the descriptors' ranges."""
    if 'ok' not in out:
        return True
    inp = {'scheme': name, 'smiles': smi, 'pipeline': 'sum', 'Ts': list(Ts)}
    if variant:
        inp['variant'] = variant
    counts = out['counts']
    good = True
    if out['n'] != len(counts):
        ctx.violation('pipeline: the estimate does not hold one term per descriptor of the decomposition', inp, len(counts), out['n'])
        good = False
    rs = [info.corr[nm].get_range() for nm in counts if nm in info.corr and info.corr[nm].get_range() is not None]
    want = (max(float(r[0]) for r in rs), min(float(r[1]) for r in rs)) if rs else None
    got = None if out['range'] is None else tuple(float(v) for v in out['range'])
    if got != want:
        ctx.violation('pipeline: the validity range is not the intersection of the descriptors\' ranges', inp, want, got)
        good = False
    for T in Ts:
        sc = scales(info, counts, T)
        for p in ('cp', 'h', 's'):
            tot, err = Fraction(0), None
            for nm in out['order']:
                o, v = info.group_val(nm, p, T)
                if 'err' in o:
                    err = o['err']
                    break
                tot += E.exact(counts[nm]) * common.unjrat(o['ok'])
            got = out['ok'][T][p] if p != 's' else out['ok'][T][p][0]
            if err is not None or got[0] == 'err':
                if (err is None) != (got[0] != 'err'):
                    ctx.violation('pipeline: a getter fails although every descriptor has the datum (or the reverse)',
                                  dict(inp, T=T, getter=p), err, list(got))
                    good = False
                continue
            if not common.close(got[1], tot, sc[p]):
                ctx.violation('pipeline: %s is not the count-weighted sum over the descriptors of the decomposition' % p,
                              dict(inp, T=T, getter=p), float(tot), got[1])
                good = False
            ctx.count('pipe_sum_checks')
    return good


def zero_padding(rng, info, d, k=2):
    """descriptors of the library (with data, inside the uncertainty basis if there is one) that `d` does not mention"""
    pool = [nm for nm in info.names if nm in info.corr and nm not in {str(x) for x in d}
            and (info.uq is None or nm in info.uq['basis'])]
    rng.shuffle(pool)
    return pool[:k]


def equiv_oracle(ctx, name, info, base_smi, base, other_smi, other, Ts):
    """PIPE_relabel_invariant on the real code: two spellings (atom orders) of one molecule"""
    ctx.count('pipe_equiv_%s' % outcome_class(base))
    return same_outcome(ctx, info, {'scheme': name, 'smiles': base_smi, 'other': other_smi, 'pipeline': 'equiv', 'Ts': list(Ts)}, base, other, Ts,
                        'pipeline on two spellings of one molecule')


# ----------------------------------------------------------------------------- group names spelled differently (C19 ∘ C01)
def respell(rng, group):
    """another spelling of a `Group`'s name: the peripherals in a random order, split into runs at random, counts written or not"""
    psgs = list(group.psgs)
    rng.shuffle(psgs)
    out = group.csg
    i = 0
    while i < len(psgs):
        j = i + 1
        while j < len(psgs) and psgs[j] == psgs[i] and rng.random() < 0.7:
            j += 1
        k = j - i
        out += '(%s)' % psgs[i] + (str(k) if (k > 1 or rng.random() < 0.25) else '')
        i = j
    return out


def respell_mapping(rng, info, mode):
    """dict -> dict for `impl_pipeline(mapping=…)`: 'groups' = every key that is a `Group` of the library becomes a `Group` object
    parsed from another spelling of its name; 'reversed' = the same keys listed in the opposite order; 'objects' = the library's own
    key objects"""
    _, Group, Descriptor, _, _, _ = E._imports()

    def f(d):
        items = list(d.items())
        if mode == 'reversed':
            return dict(reversed(items))
        if mode == 'zero-padded':
            out = dict(items)
            pad = zero_padding(rng, info, d)
            for j, nm in enumerate(pad):
                out[nm] = 0 if j % 2 == 0 else 0.0
            f.padded = pad
            return out
        if mode == 'zero-padded-unknown':
            out = dict(items)
            f.padded = [rng.choice([nm for nm in ('C(C)(H)2(Zz)', 'no such descriptor', 'Zz(H)4') if nm not in out])]
            out[f.padded[0]] = rng.choice([0, 0.0])
            return out
        out = {}
        for k, v in items:
            obj = info.keyobj.get(str(k))
            if mode == 'objects' and obj is not None:
                out[obj] = v
            elif mode == 'groups' and isinstance(obj, Group) and obj.psgs:
                out[Group.parse(obj.scheme, respell(rng, obj))] = v
            else:
                out[k] = v
        if len(out) != len(items):
            raise common.MachineryError('respelled keys collide')
        return out
    return f


def respell_oracle(ctx, name, info, smi, base, Ts, seed):
    """PIPE_spelling_independent / PIPE_value_depends_on_counts_only on the real code: the same counts handed to `Estimate` keyed by
    `Group` objects parsed from other spellings, by the library's own key objects, or in the opposite order"""
    import random
    good = True
    for mode in ('groups', 'objects', 'reversed'):
        other = impl_pipeline(info, smi, Ts, mapping=respell_mapping(random.Random(seed), info, mode))
        ctx.count('pipe_respell_' + mode)
        good = same_outcome(ctx, info, {'scheme': name, 'smiles': smi, 'pipeline': 'respell', 'mode': mode, 'seed': seed, 'Ts': list(Ts)},
                            base, other, Ts, 'pipeline with the mapping re-keyed (%s)' % mode) and good
    # descriptors listed with the count 0: no value may move (PIPE_value_depends_on_counts_only), but they are terms of the
    # estimate — one more term each, their ranges intersected, their data required (C01_zero_count)
    if 'ok' in base:
        f = respell_mapping(random.Random(seed), info, 'zero-padded')
        other = impl_pipeline(info, smi, Ts, mapping=f)
        pad = getattr(f, 'padded', [])
        inp = {'scheme': name, 'smiles': smi, 'pipeline': 'respell', 'mode': 'zero-padded', 'seed': seed, 'Ts': list(Ts), 'padded': pad}
        ctx.count('pipe_respell_zero_padded')
        oc = outcome_class(other)
        rs = [r for r in [base['range']] + [info.corr[nm].get_range() for nm in pad] if r is not None]
        want = (max(float(r[0]) for r in rs), min(float(r[1]) for r in rs)) if rs else None
        if want is not None and want[0] > want[1]:
            if oc != 'AssertionError':
                ctx.violation('pipeline with zero-count descriptors added: the common range is empty but no AssertionError', inp, 'AssertionError', oc)
                good = False
        elif oc != 'estimate':
            ctx.violation('pipeline with zero-count descriptors added: no estimate', inp, 'estimate', oc)
            good = False
        else:
            got = None if other['range'] is None else tuple(float(v) for v in other['range'])
            if other['n'] != base['n'] + len(pad) or got != want:
                ctx.violation('pipeline with zero-count descriptors added: they are not terms of the estimate (number of terms / range)',
                              inp, [base['n'] + len(pad), want], [other['n'], got])
                good = False
            for T in Ts:
                sc = scales(info, base['counts'], T)
                for p in ('cp', 'h'):
                    va, vb = base['ok'][T][p], other['ok'][T][p]
                    if va[0] == 'ok' and vb[0] == 'ok' and not common.close(vb[1], va[1], sc[p]):
                        ctx.violation('pipeline with zero-count descriptors added: a value moved', dict(inp, T=T, getter=p), va[1], vb[1])
                        good = False
                    if va[0] == 'ok' and vb[0] == 'err' and all('ok' in info.group_val(nm, p, T)[0] for nm in pad):
                        ctx.violation('pipeline with zero-count descriptors added: a getter fails although the added descriptors have the datum',
                                      dict(inp, T=T, getter=p), list(va), list(vb))
                        good = False
    # … and a descriptor without data listed with the count 0 is still a descriptor without data (C01_missing_iff)
    f = respell_mapping(random.Random(seed), info, 'zero-padded-unknown')
    other = impl_pipeline(info, smi, Ts, mapping=f)
    ctx.count('pipe_respell_zero_padded_unknown')
    want = sorted(set(base['esterr']['groups'] if outcome_class(base) == 'GroupMissingDataError' else []) | set(f.padded))
    if outcome_class(base) in ('estimate', 'GroupMissingDataError', 'ValueError', 'AssertionError') and \
            (outcome_class(other) != 'GroupMissingDataError' or sorted(other['esterr']['groups']) != want):
        ctx.violation('pipeline with a zero-count descriptor without data added: not the missing-data error naming it',
                      {'scheme': name, 'smiles': smi, 'pipeline': 'respell', 'mode': 'zero-padded-unknown', 'seed': seed, 'Ts': list(Ts)},
                      want, other.get('esterr', outcome_class(other)))
        good = False
    return good


# ----------------------------------------------------------------------------- the spelling of group names in a library file
def library_files(name):
    """(path relative to the library directory, parsed YAML) of every file of a shipped library that has a `groups:` section"""
    import yaml
    from pgradd.GroupAdd.DataDir import get_data_dir
    root = os.path.join(get_data_dir(), name)
    out, todo, seen = [], ['library.yaml'], set()
    while todo:
        rel = todo.pop(0)
        if rel in seen:
            continue
        seen.add(rel)
        y = yaml.safe_load(open(os.path.join(root, rel))) or {}
        out.append((rel, y))
        for inc in y.get('include') or []:
            todo.append(os.path.normpath(os.path.join(os.path.dirname(rel), inc)))
    return root, out


def entry_lookup_oracle(ctx, name, lib, seed):
    """PIPE_spelling_lookup on the real code: every entry of a `groups:` section is found under `Group` objects parsed from its
    own spelling and from other spellings of it, and under its canonical name as a string"""
    import random
    _, Group, _, _, _, _ = E._imports()
    rng = random.Random(seed)
    root, files = library_files(name)
    good = True
    for rel, y in files:
        for g, sets in (y.get('groups') or {}).items():
            has = isinstance(sets, dict) and SET in sets
            obj = Group.parse(lib.scheme, str(g))
            for how, key in (('Group parsed from the file\'s spelling', obj), ('Group parsed from another spelling', Group.parse(lib.scheme, respell(rng, obj))),
                             ('canonical name as a string', obj.name)):
                ctx.count('pipe_entry_lookups')
                if (SET in lib[key]) != has:
                    ctx.violation('library entry not found under %s' % how,
                                  {'scheme': name, 'pipeline': 'entry', 'file': rel, 'entry': str(g), 'key': str(key), 'seed': seed, 'Ts': []},
                                  has, SET in lib[key])
                    good = False
    return good


def scheme_names_oracle(ctx, name, lib):
    """PIPE_keys_origin / PIPE_spelling_raw_string_* on the shipped data: the strings that reach `Estimate` as the scheme file spells
    them are remap targets and correction-descriptor names.  Such a string finds a library entry keyed by a `Group` only if it *is*
    the canonical name; if it is written otherwise and the library has the group it denotes, its data can never be found."""
    _, Group, Descriptor, _, _, Error = E._imports()
    good = True
    names = [str(t[1]) for v in lib.scheme.remaps.values() for t in v] + [str(d['name']) for d in lib.scheme.other_descriptors]
    for t in dict.fromkeys(names):
        ctx.count('pipe_scheme_names')
        if '(' not in t:
            continue
        try:
            canon = Group.parse(lib.scheme, t).name
        except (Error.GroupSyntaxError, ValueError):
            continue
        if canon != t:
            ctx.count('pipe_scheme_names_not_canonical')
            if SET in lib[Group.parse(lib.scheme, t)] and SET not in lib[t]:
                ctx.violation('a remap target / descriptor name of the scheme is spelled non-canonically and the library keys the group it denotes: '
                              'its data can never be found by the string the decomposition returns',
                              {'scheme': name, 'pipeline': 'scheme-names', 'name': t, 'Ts': []}, canon, t)
                good = False
    return good


def respelled_library(ctx_scratch, name, seed):
    """a copy of a shipped library's directory whose `groups:` entries are all written in another spelling; returns the loaded copy"""
    import random, shutil, yaml
    GroupLibrary, Group, _, _, _, _ = E._imports()
    rng = random.Random(seed)
    root, files = library_files(name)
    dst = os.path.join(ctx_scratch, 'respelled-%s-%d' % (name, seed))
    if os.path.exists(dst):
        shutil.rmtree(dst)
    shutil.copytree(root, dst)
    changed = 0
    for rel, y in files:
        if not y.get('groups'):
            continue
        new = {}
        for g, v in y['groups'].items():
            s_ = respell(rng, Group.parse(None, str(g)))
            changed += s_ != g
            new[s_] = v
        y = dict(y, groups=new)
        with open(os.path.join(dst, rel), 'w') as f:
            yaml.safe_dump(y, f, default_flow_style=False, sort_keys=False, allow_unicode=True)
    with warnings.catch_warnings():
        warnings.simplefilter('ignore')
        S._install_text_recorder()
        lib2 = GroupLibrary.Load(os.path.join(dst, 'library.yaml'))
    return lib2, changed


def library_spelling_oracle(ctx, name, lib, seed, smiles, Ts):
    """PIPE_spelling_independent on the real code: the library loaded from files whose group names are spelled differently has the
    same keys in the same order and gives the same pipeline outcome on every molecule tried"""
    try:
        lib2, changed = respelled_library(ctx.scratch, name, seed)
    except Exception as e:
        ctx.violation('a library whose group names are written in other (well-formed) spellings does not load',
                      {'scheme': name, 'pipeline': 'library-spelling', 'seed': seed, 'smiles': list(smiles), 'Ts': list(Ts)}, 'loads', type(e).__name__)
        return False
    ctx.count('pipe_respelled_library_entries_changed', changed)
    inp = {'scheme': name, 'pipeline': 'library-spelling', 'seed': seed, 'smiles': list(smiles), 'Ts': list(Ts)}
    k1, k2 = [str(k) for k in lib.contents], [str(k) for k in lib2.contents]
    if k1 != k2:
        ctx.violation('a library whose group names are written in other spellings is keyed differently', inp,
                      [k for k in k1 if k not in k2][:5], [k for k in k2 if k not in k1][:5])
        return False
    info1, info2 = info_of(name, lib), E.LibInfo(name + '/respelled', lib2, matlib=None)
    good = True
    for smi in smiles:
        a, b = impl_pipeline(info1, smi, Ts), impl_pipeline(info2, smi, Ts)
        ctx.count('pipe_respelled_library_cases')
        good = same_outcome(ctx, info1, dict(inp, smiles=[smi]), a, b, Ts, 'pipeline under a library file with respelled group names') and good
    return good


# ----------------------------------------------------------------------------- how a library file is keyed (`pipe.load_keys`)
def load_keys_tie(ctx, rng, n):
    """`GroupLibrary._do_load`'s keying loop vs `PGA.Pipeline.loadContents`: small library files written to the scratch directory —
    group names in several spellings (so that two entries may denote one group), descriptor names, names that do not parse"""
    GroupLibrary, Group, Descriptor, _, _, Error = E._imports()
    import pgradd.ThermoChem  # noqa
    centres = ['C', 'O', 'CO', 'C[d]', 'N']
    periph = ['H', 'C', 'O', 'Pt', 'C[d]', 'CO']
    reqs, meta = [], []
    for i in range(n):
        gs = []
        for _ in range(rng.randint(1, 5)):
            ps = [rng.choice(periph) for _ in range(rng.randint(0, 4))]
            g = Group(None, rng.choice(centres), ps)
            gs.append(respell(rng, g) if rng.random() < 0.8 else g.name)
        if rng.random() < 0.35 and gs:
            g = Group.parse(None, rng.choice(gs))
            gs.insert(rng.randint(0, len(gs)), respell(rng, g))         # a second spelling of an entry
        if rng.random() < 0.1:
            gs.append(rng.choice(['C(3)', 'C(H)(2)', '(H)C', 'C(H)²']))
        ds = [rng.choice(['CC', 'ring strain', 'C(H)4s', 'x+y', 'Ni']) for _ in range(rng.randint(0, 3))]
        if rng.random() < 0.2 and gs:
            try:
                ds.append(Group.parse(None, gs[0]).name)         # a descriptor named like a group already defined
            except Exception:
                pass
        path = os.path.join(ctx.scratch, 'pipe_lib_%d.yaml' % i)
        import yaml
        with open(path, 'w') as f:
            yaml.safe_dump({'groups': {g: {} for g in gs}, 'other_descriptors': {d: {} for d in ds}}, f, default_flow_style=False, allow_unicode=True)
        # a YAML mapping cannot hold one key twice; what the file holds is what both sides get
        data = yaml.safe_load(open(path))
        gs2, ds2 = list(data.get('groups') or {}), list(data.get('other_descriptors') or {})
        try:
            with warnings.catch_warnings():
                warnings.simplefilter('ignore')
                lib = GroupLibrary._Load(path, None)
            impl = {'ok': [str(k) for k in lib.contents]}
        except KeyError:
            impl = {'err': 'duplicate'}
        except Error.GroupSyntaxError:
            impl = {'err': 'syntax'}
        except ValueError:
            impl = {'err': 'value'}
        except Exception as e:
            impl = {'err': 'internal:' + type(e).__name__}
        reqs.append({'op': 'pipe.load_keys', 'groups': gs2, 'descs': ds2})
        meta.append(({'groups': gs2, 'descs': ds2}, impl))
    replies = ctx.model(reqs)
    if replies is None:
        return
    for (where, impl), rep in zip(meta, replies):
        ctx.count('corr_pipe.load_keys')
        ctx.count('pipe_load_keys_%s' % ('ok' if 'ok' in impl else impl['err']))
        if impl != rep:
            ctx.disagree('corr:pipe.load_keys', where, impl, rep)


# ----------------------------------------------------------------------------- variant libraries (branches no shipped library reaches)
def variant_library(name, lib, seed, memo):
    """A library built through the real constructor from a shipped one, changed so that the two late failure stages of `Estimate`
    become reachable (no shipped library reaches them): for a library with uncertainty data one descriptor that occurs in some of
    the molecules tried is taken out of the basis (matrix row/column removed) — `ValueError` from `list.index`; and two descriptors
    that occur in different molecules get disjoint validity ranges (table-less copies of their correlations with narrower ranges) — `AssertionError`
    for a molecule or mixture containing both.  Deterministic in (library, seed, the molecules' descriptors)."""
    import random, copy
    import numpy as np
    GroupLibrary = E._imports()[0]
    rng = random.Random(seed)
    info = info_of(name, lib)
    occ = collections.Counter()
    mols = [o for (n_, x), o in sorted(memo.items()) if n_ == name and 'ok' in o and '.' not in x]
    for o in mols:
        occ.update(set(o['counts']))
    partial = sorted(k for k, v in occ.items() if 0 < v < len(mols) and k in info.corr)
    rng.shuffle(partial)
    basis = [str(b) for b in lib.uq_contents['descriptors']] if lib.uq_contents else []
    cut = next((k for k in partial if k in basis), None)

    def wide(k):
        r = info.corr[k].get_range()
        return r is not None and float(r[1]) - float(r[0]) > 10.0
    ranged = [k for k in partial if k != cut and wide(k)]
    da = db = split = None
    for i in range(len(ranged)):
        for j in range(i + 1, len(ranged)):
            ra, rb = info.corr[ranged[i]].get_range(), info.corr[ranged[j]].get_range()
            lo, hi = max(float(ra[0]), float(rb[0])), min(float(ra[1]), float(rb[1]))
            if hi - lo > 10.0:
                da, db, split = ranged[i], ranged[j], (lo + hi) / 2.0
                break
        if da is not None:
            break
    if da is None and cut is None:
        return None
    contents = []
    for k, ps in lib.contents.items():
        nm = str(k)
        if nm in (da, db) and SET in ps:
            lo, hi = (float(v) for v in ps[SET].get_range())
            # a valid correlation with the narrower range: the reference values without the table (set_range on a copy is no
            # longer a way to get an object whose range does not contain its table: finding F32, repaired)
            c0 = ps[SET]
            c2 = type(c0)(c0.ND_H_ref, c0.ND_S_ref, {}, c0.T_ref, (lo, split - 1.0) if nm == da else (split + 1.0, hi))
            ps = dict(ps)
            ps[SET] = c2
        contents.append((k, ps))
    uq = lib.uq_contents
    if uq and cut is not None:
        i = basis.index(cut)
        keep = [j for j in range(len(uq['descriptors'])) if j != i]
        uq = {'RMSE': uq['RMSE'], 'descriptors': [uq['descriptors'][j] for j in keep],
              'mat': np.asarray(uq['mat'])[np.ix_(keep, keep)], 'dof': uq['dof']}
    lib2 = GroupLibrary(lib.scheme, contents, uq) if uq else GroupLibrary(lib.scheme, contents)
    return lib2, {'cut': cut, 'disjoint': [da, db] if da is not None else []}


def variant_outcome_oracle(ctx, name, info, smi, out, what, Ts, variant):
    """which way `Estimate` must go on a variant library, from how the variant was built (C01_missing_iff, C20_out_of_basis,
    C01_range_inter): a descriptor without data → GroupMissingDataError; else the descriptor cut from the uncertainty basis →
    ValueError; else the descriptors' ranges (two of them narrowed to disjoint intervals) have an empty intersection → AssertionError;
    else an estimate"""
    if 'counts' not in out:
        return True
    names = set(out['counts'])
    if any(nm not in info.corr for nm in names):
        want = 'GroupMissingDataError'
    elif what['cut'] is not None and what['cut'] in names:
        want = 'ValueError'
    else:
        rs = [info.corr[nm].get_range() for nm in names if info.corr[nm].get_range() is not None]
        empty = bool(rs) and max(float(r[0]) for r in rs) > min(float(r[1]) for r in rs)
        want = 'AssertionError' if empty else 'estimate'
        if what['disjoint'] and set(what['disjoint']) <= names and not empty:
            raise common.MachineryError('variant library: the two narrowed ranges are not disjoint')
    ctx.count('pipe_variant_expected_' + want)
    if outcome_class(out) != want:
        ctx.violation('pipeline on a library variant: Estimate does not stop where its stages say (missing data, outside the uncertainty basis, '
                      'empty common range)', {'scheme': name, 'smiles': smi, 'pipeline': 'variant-outcome', 'Ts': list(Ts), 'variant': variant},
                      want, outcome_class(out))
        return False
    return True


def replay_tie(ctx, d):
    """re-run the correspondence on the input of a recorded disagreement `corr:pipe.estimate`; True = model and implementation agree"""
    where = d['input']
    lib, vwhat = _library_of(where)
    tie = PipeTie(ctx)
    info, Ts, _ = tie.open(where['scheme'], lib)
    tie.cases[where['scheme']][1] = [float(t) for t in where.get('Ts') or [where['T']]]
    n = len(ctx.disagreements)
    tie.add(where['scheme'], lib, where['smiles'])
    tie.run()
    return len(ctx.disagreements) == n


def _library_of(inp):
    if inp.get('variant'):
        # a variant library is a function of (base library, seed, the molecules the run had tried): rebuilt from the recorded molecules
        v = inp['variant']
        base = dict(S.load_schemes())[v['base']]
        binfo = info_of(v['base'], base)
        memo = {(v['base'], x): impl_pipeline(binfo, x, [298.15]) for x in v['molecules']}
        return variant_library(v['base'], base, v['seed'], memo)
    return dict(S.load_schemes())[inp['scheme']], None


# ----------------------------------------------------------------------------- replay of a recorded pipeline violation
def replay_record(ctx, rec):
    """entry point for c03/c04 `replay`: a recorded violation of a pipeline oracle, or a recorded break of the pipeline tie;
    None when the record is not about the pipeline"""
    if rec.get('kind') == 'no-failing-input-found':
        ds = [d for d in rec.get('disagreements', []) if d.get('what', '').startswith('corr:pipe.estimate')]
        if not ds:
            return None
        return all([replay_tie(ctx, d) for d in ds])
    inp = rec.get('input', rec)
    if isinstance(inp, dict) and inp.get('pipeline'):
        return replay(ctx, inp)
    return None


def replay(ctx, inp):
    """re-run the oracle that produced the recorded input (`inp['pipeline']` names it); True = holds"""
    before = len(ctx.violations)
    lib, vwhat = _library_of(inp)
    info = info_of(inp['scheme'], lib)
    Ts = [float(t) for t in inp['Ts']]
    kind = inp['pipeline']
    if kind == 'mixture':
        parts = inp['parts']
        outs = [impl_pipeline(info, p, Ts) for p in parts]
        mix = impl_pipeline(info, '.'.join(parts), Ts)
        mixture_oracle(ctx, inp['scheme'], info, parts, outs, mix, Ts, variant=inp.get('variant'))
    elif kind == 'equiv':
        equiv_oracle(ctx, inp['scheme'], info, inp['smiles'], impl_pipeline(info, inp['smiles'], Ts), inp['other'],
                     impl_pipeline(info, inp['other'], Ts), Ts)
    elif kind == 'respell':
        respell_oracle(ctx, inp['scheme'], info, inp['smiles'], impl_pipeline(info, inp['smiles'], Ts), Ts, inp['seed'])
    elif kind == 'sum':
        sum_oracle(ctx, inp['scheme'], info, inp['smiles'], impl_pipeline(info, inp['smiles'], Ts), Ts, variant=inp.get('variant'))
    elif kind == 'variant-outcome':
        variant_outcome_oracle(ctx, inp['scheme'], info, inp['smiles'], impl_pipeline(info, inp['smiles'], Ts), vwhat, Ts, inp['variant'])
    elif kind == 'entry':
        entry_lookup_oracle(ctx, inp['scheme'], lib, inp['seed'])
    elif kind == 'scheme-names':
        scheme_names_oracle(ctx, inp['scheme'], lib)
    elif kind == 'library-spelling':
        library_spelling_oracle(ctx, inp['scheme'], lib, inp['seed'], inp['smiles'], Ts)
    else:
        raise common.MachineryError('unknown pipeline replay kind %r' % kind)
    return len(ctx.violations) == before
