"""C11 — incompatible quantities never combine; compatible ones act as numbers.

Proof: lean/PGA/Props/C11.lean (model PGA/Model/Qty.lean of pgradd/Units/qty.py + utils.py).
Tie: correspondence of every operator of Quantity / ArrayQuantity (incl. reflected operators and conversion)
against the model driver, exhaustive over ordered pairs of dimensions x operations x magnitude relations.
Property oracle: implementation vs the operation on SI magnitudes / dimension arithmetic, written from the property text.
"""
import itertools, json, math, operator
from fractions import Fraction
from . import common
from . import lib_units as L

PROPS = ['PGA.Props.C11']
GEN = ['Chars', 'Units']
OBLIGATIONS = ['PGA.Qty.' + t for t in [
    'C11_incompatible_error', 'C11_incompatible_eq', 'C11_incompatible_integral', 'C11_plain_nonzero_refused', 'C11_refused_iff',
    'C11_compatible_cmp', 'C11_same_dimension_cmp', 'C11_compatible_cmp_reflected',
    'C11_compatible_arith', 'C11_same_dimension_arith', 'C11_compatible_arith_reflected',
    'C11_same_units_symm_refl', 'C11_same_units_not_transitive', 'C11_has_units', 'C11_neg_abs',
    'C11_mul', 'C11_mul_dim_partial', 'C11_div', 'C11_div_dim_partial', 'C11_div_zero', 'C11_div_same_dim_plain',
    'C11_pow_int', 'C11_pow_dim_partial', 'C11_pow_dim',
    'C11_conversion_incompatible_partial', 'C11_conversion_incompatible_integral', 'C11_conversion_full_false', 'C11_conversion_ratio',
    'C11_same_units_iff_division_cancels', 'C11_has_units_iff_converts', 'C11_conversion_within']]
RULE = ('cases = (operation, left operand, right operand): exhaustive over ordered pairs of 14 operand kinds (the 7 base '
        'dimensions, force, energy, pressure, power, molar entropy, a plain number, the bare zero) x 13 operations '
        '(== != < <= > >= + - * / ** neg abs) + conversion, x 5 magnitude relations of the right operand (equal, smaller, '
        'larger, negative, zero), for scalar Quantity and ArrayQuantity operands (and mixed), units with non-unit SI factors '
        'included (km vs m, kcal vs J); plus random magnitudes; plus pairs of one dimension whose non-integer exponent is reached by two '
        'floating-point routes and pairs whose exponents differ by 0.5e-7, 1e-7, 2e-7 (the threshold of the units comparison). Non-trivial = at least one operand is a quantity; distinct = '
        'distinct (operation, operands).')
ASSUMPTIONS = ['decimal-literal abstraction: magnitudes are exact decimals of the doubles held by the implementation; results compared to 1e-9 relative',
               'comparison of exponents against the threshold: the model subtracts exactly and compares with the decimal 1e-7, numpy subtracts doubles '
               '(exact for doubles within a factor 2 of each other) and compares with the double 1e-7 (4.5e-24 below); near-threshold cases hand the '
               'exact values of the doubles to the model',
               'Python/numpy dispatch: the left operand\'s method runs if it is a quantity, otherwise the right operand\'s reflected method '
               '(exercised by the correspondence on plain numbers and ndarrays on the left)',
               'numpy array division by zero / negative base to a fractional power yields inf/nan with a warning: an explicit model outcome (nonfinite)']
TRUSTED = ['modelled, not verified: GenericQuantity operators, _unpack_qty, _build, in_units, FundamentalUnits arithmetic with the snapping threshold, utils.is_zero']

# (label, unit expression for the left operand, unit expression for the right operand of the same dimension)
KINDS = [('length', 'km', 'm'), ('mass', 'kg', 'g'), ('time', 's', 'min'), ('current', 'A', 'mA'), ('temperature', 'K', 'K'),
         ('amount', 'mol', 'mmol'), ('luminous', 'cd', 'cd'), ('force', 'N', 'dyn'), ('energy', 'kcal', 'J'), ('pressure', 'Pa', 'bar'),
         ('power', 'W', 'kW'), ('molar_entropy', 'J/(mol K)', 'cal/(mol K)'), ('plain', None, None), ('zero', None, None)]
RELS = ['equal', 'smaller', 'larger', 'negative', 'zero']
BINOPS = [('eq', operator.eq), ('ne', operator.ne), ('lt', operator.lt), ('le', operator.le), ('gt', operator.gt), ('ge', operator.ge),
          ('add', operator.add), ('sub', operator.sub), ('mul', operator.mul), ('div', operator.truediv), ('pow', operator.pow)]
UNOPS = [('neg', operator.neg), ('abs', abs)]


_MAKE = [0]


def c_is_not_current(u):
    return L.exps_of(u.units)[3] == 0.0


def make(kind, unit, mags, array):
    """(python object, SI magnitudes, dims) of an operand"""
    import numpy as np
    from pgradd.Units import eval_qty
    if kind == 'zero':
        mags = [0.0 for _ in mags]
    if unit is None:
        obj = np.array(mags, dtype=float) if array else float(mags[0])
        si = list(mags) if array else [mags[0]]
        return obj, si, [0.0] * 7
    u = eval_qty(unit)
    obj = (np.array(mags, dtype=float) if array else float(mags[0])) * u
    _MAKE[0] += 1
    if _MAKE[0] % 2:
        # every other operand carries a units object of its own (the product with the database's unit shares the database's
        # object): multiplied and divided by one unit of another kind — same magnitude, same dimension, a fresh object
        w = 1.0 * eval_qty('A' if c_is_not_current(u) else 'cd')
        obj = (obj * w) / w
    c = L.canon_value(obj)
    si = c['arr'] if 'arr' in c else [c['val']]
    return obj, si, c['dim']


def jq(si, dim, array, exact_dim=False):
    """operand for the driver; exact_dim: the exponents as the exact values of the doubles (near-threshold cases)"""
    d = [common.jrat(common.exact_of_float(x) if exact_dim else common.frac_of_float(x)) for x in dim]
    if array:
        return {'arr': [common.jrat(common.frac_of_float(x)) for x in si], 'dim': d}
    return {'val': common.jrat(common.frac_of_float(si[0])), 'dim': d}


def canon(r):
    c = L.canon_value(r)
    vals = c.get('arr', []) + ([c['val']] if 'val' in c else [])
    if any(not math.isfinite(v) for v in vals):
        return {'err': 'nonfinite'}
    return c


def run_op(fn, *a):
    import warnings
    try:
        with warnings.catch_warnings():
            warnings.simplefilter('ignore')
            return canon(fn(*a))
    except Exception as e:
        return {'err': L.errclass(e)}


def bcast(f, x, y, xa, ya):
    if not xa and not ya:
        return f(x[0], y[0])
    n = max(len(x), len(y))
    xs = x if xa else x * n
    ys = y if ya else y * n
    return [f(p, q) for p, q in zip(xs, ys)]


THR = Fraction(1, 10 ** 7)


def dims_relation(a_dim, b_dim):
    """'same' (every exponent within the documented threshold of 1e-7, clearly), 'different' (some exponent farther, clearly),
    'boundary' (the largest difference is within 1e-6 relative of the threshold: floating-point rounding decides — the
    implementation is then compared with the model on the exact doubles only)"""
    if list(a_dim) == list(b_dim):
        return 'same'
    d = max(abs(Fraction(float(x)) - Fraction(float(y))) for x, y in zip(a_dim, b_dim))
    if d < THR * (1 - Fraction(1, 10 ** 6)):
        return 'same'
    if d > THR * (1 + Fraction(1, 10 ** 6)):
        return 'different'
    return 'boundary'


def oracle(op, a_si, a_dim, a_arr, b_si, b_dim, b_arr):
    """what the property says about `a op b`; None = the property does not constrain this case"""
    a_q, b_q = any(a_dim), any(b_dim)
    a_zero = (not a_q) and all(v == 0 for v in a_si)
    b_zero = (not b_q) and all(v == 0 for v in b_si)
    rel = dims_relation(a_dim, b_dim) if (a_q and b_q) else ('same' if a_dim == b_dim else 'different')
    if rel == 'boundary' and op in ('add', 'sub', 'lt', 'le', 'gt', 'ge', 'eq', 'ne'):
        return None
    same = rel == 'same'
    arr = a_arr or b_arr
    if not a_q and not b_q:
        return None
    if op in ('add', 'sub', 'lt', 'le', 'gt', 'ge', 'eq', 'ne'):
        ok = same or a_zero or b_zero          # a bare zero is the only dimensionless operand accepted
        if not ok:
            return {'bool': op == 'ne'} if op in ('eq', 'ne') else {'err': 'unitsError'}
        f = {'add': operator.add, 'sub': operator.sub, 'lt': operator.lt, 'le': operator.le, 'gt': operator.gt,
             'ge': operator.ge, 'eq': operator.eq, 'ne': operator.ne}[op]
        r = bcast(f, a_si, b_si, a_arr, b_arr)
        if op in ('add', 'sub'):
            dim = a_dim if a_q else b_dim
            return {'arr': r, 'dim': dim} if arr else {'val': r, 'dim': dim}
        return {'bools': r} if arr else {'bool': r}
    if op == 'mul':
        r = bcast(operator.mul, a_si, b_si, a_arr, b_arr)
        dim = [x + y for x, y in zip(a_dim, b_dim)]
        return {'arr': r, 'dim': dim} if arr else {'val': r, 'dim': dim}
    if op == 'div':
        if any(v == 0 for v in b_si):
            return {'err': 'nonfinite' if arr else 'math'}
        r = bcast(operator.truediv, a_si, b_si, a_arr, b_arr)
        dim = [x - y for x, y in zip(a_dim, b_dim)]
        return {'arr': r, 'dim': dim} if arr else {'val': r, 'dim': dim}
    if op == 'pow':
        if b_q or b_arr:
            return None                          # exponentiation by a quantity / an array: not in the property
        k = b_si[0]
        if any(v < 0 for v in a_si) and k != int(k):
            return None                          # no real value
        if any(v == 0 for v in a_si) and k < 0:
            return {'err': 'nonfinite' if arr else 'math'}
        r = [v ** k for v in a_si]
        dim = [x * k for x in a_dim]
        return {'arr': r, 'dim': dim} if a_arr else {'val': r[0], 'dim': dim}
    raise common.MachineryError('oracle: unknown op ' + op)


def agrees(impl, exp, scale=0.0):
    if 'err' in exp:
        return impl.get('err') == exp['err']
    if 'err' in impl:
        return False
    if 'bool' in exp:
        return impl.get('bool') is exp['bool']
    if 'bools' in exp:
        return impl.get('bools') == exp['bools']
    if 'dim' in exp and ('dim' not in impl or any(abs(x - y) > 1.0000001e-7 for x, y in zip(impl['dim'], exp['dim']))):
        return False
    if 'val' in exp:
        return 'val' in impl and common.close(impl['val'], exp['val'], scale)
    if 'arr' in exp:
        return 'arr' in impl and len(impl['arr']) == len(exp['arr']) and all(common.close(x, y, scale) for x, y in zip(impl['arr'], exp['arr']))
    return False


def classify(op, a, b, impl, exp):
    """finding id for a violating case, by a precise predicate"""
    return None


# ------------------------------------------------------------------------------ one dimension, two float routes
# (texts of the two operands, the exact exponent both denote, on which base)
ROUTE_PAIRS = [('m^0.1 m^0.2', 'm^0.3', 'm', '3/10'), ('s^1.1 s^2.2', 's^3.3', 's', '33/10'), ('(mol^0.1)^3', 'mol^0.3', 'mol', '3/10'),
               ('K^0.7/K^0.4', 'K^0.3', 'K', '3/10'), ('A^0.3', 'A^0.1 A^0.2', 'A', '3/10'), ('kg^0.6 kg^0.1', 'kg^0.7', 'kg', '7/10'),
               # controls: the doubles coincide (dyadic parts; an integer total is snapped)
               ('kg^0.5 kg^0.25', 'kg^0.75', 'kg', '3/4'), ('m^0.1 m^0.2 m^0.7', 'm', 'm', '1'), ('cd^1.5 cd^1.5', 'cd^3', 'cd', '3')]


def route_operand_cases(ctx, batch):
    """two quantities of ONE dimension whose non-integer exponent was accumulated along different float routes
    (0.1 + 0.2 = 0.30000000000000004 against the literal 0.3): same dimension by the definitions, so they add, compare and
    convert, with the value the SI magnitudes give.  (Before the repair FU5, `FundamentalUnits.__eq__` compared the exponent
    arrays with exact == : + - < >= == has_units refused such pairs while in_units converted them.)  Any refusal is a violation."""
    import numpy as np
    from pgradd.Units import eval_qty
    for ta, tb, base, e in ROUTE_PAIRS:
        k = L.PRIMS.index(base)
        want_dim = [float(Fraction(e)) if i == k else 0.0 for i in range(7)]
        for arr in (False, True):
            ma, mb = ([2.0, 7.0], [3.0, 5.0]) if arr else ([2.0], [3.0])
            va, vb = (np.array(ma), np.array(mb)) if arr else (ma[0], mb[0])
            a2, b3, b2 = va * eval_qty(ta), vb * eval_qty(tb), va * eval_qty(tb)
            ua, ub = eval_qty(tb), eval_qty(ta)
            da, db = L.canon_value(a2).get('dim'), L.canon_value(b3).get('dim')

            def out(f, dim=None, x=ma, y=mb):
                r = [f(p, q) for p, q in zip(x, y)]
                if dim is None:
                    return {'bools': r} if arr else {'bool': r[0]}
                return {'arr': r, 'dim': dim} if arr else {'val': r[0], 'dim': dim}
            cases = [('add', lambda: a2 + b3, out(operator.add, want_dim), b3), ('sub', lambda: a2 - b3, out(operator.sub, want_dim), b3),
                     ('radd', lambda: b3 + a2, out(operator.add, want_dim), None), ('rsub', lambda: b3 - a2, out(operator.sub, want_dim, mb, ma), None),
                     ('lt', lambda: a2 < b3, out(operator.lt), b3), ('le', lambda: a2 <= b3, out(operator.le), b3),
                     ('gt', lambda: a2 > b3, out(operator.gt), b3), ('ge', lambda: a2 >= b3, out(operator.ge), b3),
                     ('eq', lambda: a2 == b2, out(operator.eq, None, ma, ma), b2), ('ne', lambda: a2 != b2, out(operator.ne, None, ma, ma), b2),
                     ('eq', lambda: a2 == b3, out(operator.eq), b3), ('ne', lambda: a2 != b3, out(operator.ne), b3),
                     ('has_units', lambda: a2.has_units(tb), {'bool': True}, ua), ('has_units(Quantity)', lambda: a2.has_units(ua), {'bool': True}, ua),
                     ('has_units(FundamentalUnits)', lambda: a2.has_units(ua.units), {'bool': True}, ua),
                     ('has_units', lambda: b3.has_units(ta), {'bool': True}, None),
                     ('in_units', lambda: a2.in_units(tb), out(lambda p, q: p, [0.0] * 7), ua),
                     ('in_units', lambda: b3.in_units(ta), out(lambda p, q: q, [0.0] * 7), None)]
            for op, fn, exp, other in cases:
                r = run_op(fn)
                ctx.case(json.dumps(['route', op, ta, tb, arr, exp]), None)
                ctx.count('route_operands')
                ctx.count('route_operands_' + ('different_doubles' if da != db else 'same_doubles'))
                inp = {'route_pair': [ta, tb], 'operation': op, 'array': arr, 'exponent_by_definition': '%s^(%s)' % (base, e),
                       'float_exponents': [da[k], db[k]] if da and db else None}
                if not agrees(r, exp, (max(ma) + max(mb)) if op in ('add', 'sub', 'radd', 'rsub') else 0.0):
                    ctx.violation('two quantities of one dimension (a non-integer exponent reached by different float routes) are not '
                                  'combined / compared as quantities of one dimension (%s)' % op, inp, exp, r)
                if other is not None:
                    oc = L.canon_value(other)
                    osi = oc['arr'] if 'arr' in oc else [oc['val']]
                    req = {'a': jq(ma, da, arr, True), 'b': jq(osi, oc['dim'], 'arr' in oc, True)}
                    req.update({'op': 'c11.has_units'} if op.startswith('has_units') else {'op': 'c11.in_units'} if op == 'in_units'
                               else {'op': 'c11.binop', 'operator': op})
                    batch.append((req, r, dict(inp, op=op, a={'si': ma}, b={'si': osi})))


# ------------------------------------------------------------------------------ exponents next to the threshold of the comparison
# (exponent of the right operand, on which base); the left operand's exponent is that plus / minus 0.5e-7, 1e-7, 2e-7, written
# as a decimal literal (m^0.30000005).  0.5e-7: same units; 2e-7: different units; 1e-7 exactly: rounding of the two doubles
# decides (0.3000001 - 0.3 = 1.0000000000287557e-07 is refused, 0.5000001 - 0.5 = 9.999999994736442e-08 accepted) — there the
# implementation is only compared with the model, which gets the exact values of the doubles.
NEAR_BASES = [('0.3', 'm'), ('0.7', 's'), ('1.3', 'kg'), ('2.5', 'K'), ('0.5', 'mol'), ('3.3', 'A'), ('0.1', 'cd'), ('0.25', 'm'), ('0.75', 's')]
NEAR_DELTAS = ['0.00000005', '0.0000001', '0.0000002']
NEAR_OPS = [('add', operator.add), ('sub', operator.sub), ('lt', operator.lt), ('le', operator.le), ('gt', operator.gt),
            ('ge', operator.ge), ('eq', operator.eq), ('ne', operator.ne)]


def near_pairs():
    from decimal import Decimal
    out = []
    for e0, base in NEAR_BASES:
        for dl in NEAR_DELTAS:
            for sg in (1, -1):
                e1 = Decimal(e0) + sg * Decimal(dl)
                out.append(('%s^%s' % (base, format(e1, 'f')), '%s^%s' % (base, e0)))
    # two bases: one exponent within the threshold, the other one beyond it (every exponent must be within), and both within
    out.append(('m^0.30000005 s^0.5000002', 'm^0.3 s^0.5'))
    out.append(('m^0.30000005 s^0.49999995', 'm^0.3 s^0.5'))
    out.append(('J^0.30000002', 'J^0.3'))        # kg^0.3 m^0.6 s^-0.6: the distance doubles and triples with the exponents of J
    out.append(('J^0.30000004', 'J^0.3'))
    out.append(('J^0.3000001', 'J^0.3'))
    return out


def near_case(ctx, batch, ta, tb, only=None):
    import numpy as np
    from pgradd.Units import eval_qty
    ua, ub = eval_qty(ta), eval_qty(tb)
    for a_arr, b_arr in ((False, False), (True, True), (True, False)):
        ma, mb = [2.0, 7.0][:2 if a_arr else 1], [3.0, 5.0][:2 if b_arr else 1]
        A = ((np.array(ma) if a_arr else ma[0]) * ua)
        B = ((np.array(mb) if b_arr else mb[0]) * ub)
        ca, cb = L.canon_value(A), L.canon_value(B)
        sa, sb = (ca['arr'] if a_arr else [ca['val']]), (cb['arr'] if b_arr else [cb['val']])
        da, db = ca['dim'], cb['dim']
        rel = dims_relation(da, db)
        todo = []
        for x, xs, xd, xarr, y, ys, yd, yarr, order in ((A, sa, da, a_arr, B, sb, db, b_arr, 'ab'), (B, sb, db, b_arr, A, sa, da, a_arr, 'ba')):
            for op, fn in NEAR_OPS:
                todo.append((op, order, (lambda fn=fn, x=x, y=y: fn(x, y)), oracle(op, xs, xd, xarr, ys, yd, yarr),
                             {'op': 'c11.binop', 'operator': op, 'a': jq(xs, xd, xarr, True), 'b': jq(ys, yd, yarr, True)}, xs, ys))
            for how, arg in (('has_units', tb if order == 'ab' else ta), ('has_units(Quantity)', y), ('has_units(FundamentalUnits)', L_units(y))):
                todo.append((how, order, (lambda x=x, arg=arg: x.has_units(arg)), None if rel == 'boundary' else {'bool': rel == 'same'},
                             {'op': 'c11.has_units', 'a': jq(xs, xd, xarr, True), 'b': jq(ys, yd, yarr, True)}, xs, ys))
            if not yarr:
                want = [v / ys[0] for v in xs]
                exp = None if rel == 'boundary' else {'err': 'unitsError'} if rel == 'different' else (
                    {'arr': want, 'dim': [0.0] * 7} if xarr else {'val': want[0], 'dim': [0.0] * 7})
                todo.append(('in_units', order, (lambda x=x, y=y: x.in_units(y)), exp,
                             {'op': 'c11.in_units', 'a': jq(xs, xd, xarr, True), 'b': jq(ys, yd, False, True)}, xs, ys))
        for op, order, fn, exp, req, xs, ys in todo:
            if only is not None and only != [op, order, a_arr, b_arr]:
                continue
            r = run_op(fn)
            inp = {'near_threshold': [ta, tb], 'operation': op, 'order': order, 'arrays': [a_arr, b_arr],
                   'float_exponents': [da, db], 'relation': rel, 'op': op, 'a': {'si': xs}, 'b': {'si': ys}}
            ctx.case(json.dumps(['near', op, order, ta, tb, a_arr, b_arr]), None)
            ctx.count('near_threshold')
            ctx.count('near_threshold_' + rel)
            ctx.count('near_threshold_impl_' + ('refused' if r.get('err') == 'unitsError' or r.get('bool') is False and op.startswith('has_units') else 'other'))
            if exp is not None and not agrees(r, exp, scale_of(inp)):
                ctx.violation('quantities whose exponents are %s are not %s (%s)' % (
                    'within the documented threshold (1e-7) of each other' if rel == 'same' else 'farther apart than the documented threshold (1e-7)',
                    'combined / compared as quantities of one dimension' if rel == 'same' else 'refused', op), inp, exp, r)
            batch.append((req, r, inp))


def L_units(q):
    from pgradd.Units import Quantity
    return q.units if isinstance(q, Quantity) else q._units


def near_threshold_cases(ctx, batch):
    for ta, tb in near_pairs():
        near_case(ctx, batch, ta, tb)


def short_lived(obj, dim):
    from pgradd.Units import eval_qty
    if not any(dim):
        return obj
    w = 1.0 * eval_qty('A' if dim[3] == 0.0 else 'cd')
    return (obj * w) / w


def churn_cases(ctx, seed=None):
    """operands that live for one operation only, in a loop that keeps nothing: the interpreter then hands the addresses of
    freed quantities and units objects out again, and whatever the package remembers about an object by its identity
    answers for another object.  The outcome of a + b and a < b must be what the dimensions of a and b say, every time."""
    import random
    seed = ctx.seed if seed is None else seed
    rng = random.Random(seed)
    kinds = [k for k in KINDS if k[1] is not None]
    first = None
    n = 0
    for rep in range(ctx.n(6, 40)):
        order = [(a, b) for a in kinds for b in kinds]
        rng.shuffle(order)
        for (ka, ua, _), (kb, _, ub) in order:
            A = make(ka, ua, [2.0], False)
            B = make(kb, ub, [3.0], False)
            n += 1
            for op, fn in (('add', operator.add), ('lt', operator.lt)):
                r = run_op(fn, A[0], B[0])
                same = A[2] == B[2]
                if same != ('err' not in r) and first is None:
                    first = (op, ua, ub, n, r)
    ctx.count('churn_operations', 2 * n)
    ctx.case(None, None)
    if first is not None:
        op, ua, ub, k, r = first
        ctx.violation('the outcome of an operation on two short-lived quantities is not what their dimensions say (it depends on the '
                      'quantities created and discarded before)', {'churn_seed': seed, 'operation': op, 'a': ua, 'b': ub, 'pair_number': k},
                      'unitsError exactly when the dimensions differ', r)


def one_case(ctx, batch, op, fn, A, B, tag):
    (a_obj, a_si, a_dim, a_arr), (b_obj, b_si, b_dim, b_arr) = A, B
    if not any(a_dim) and not any(b_dim):
        return
    # short-lived copies with units objects of their own: whatever the package remembers about a units object must not
    # outlive it (addresses are reused)
    r = run_op(lambda x, y: fn(short_lived(x, a_dim), short_lived(y, b_dim)), a_obj, b_obj)
    exp = oracle(op, a_si, a_dim, a_arr, b_si, b_dim, b_arr)
    inp = {'op': op, 'a': {'si': a_si, 'dim': a_dim, 'array': a_arr}, 'b': {'si': b_si, 'dim': b_dim, 'array': b_arr}, 'tag': tag}
    ctx.case(json.dumps([op, a_si, a_dim, a_arr, b_si, b_dim, b_arr]), {'case': inp, 'impl': r})
    ctx.count('op_' + op)
    ctx.count('impl_' + (r['err'] if 'err' in r else 'bool' if ('bool' in r or 'bools' in r) else 'value'))
    ctx.count('shape_%s%s' % ('A' if a_arr else 's', 'A' if b_arr else 's'))
    if exp is not None and not agrees(r, exp, scale_of(inp)):
        what = {'unitsError': 'operands of different dimension are combined / compared without the units error'}.get(
            exp.get('err'), 'operator on quantities does not agree with the operation on SI magnitudes and dimensions')
        if 'bool' in exp and a_dim != b_dim:
            what = 'equality of quantities of different dimension is not false'
        ctx.violation(what + ' (%s)' % op, inp, exp, r, finding=classify(op, A, B, r, exp))
    batch.append(({'op': 'c11.binop', 'operator': op, 'a': jq(a_si, a_dim, a_arr), 'b': jq(b_si, b_dim, b_arr)}, r, inp))


# ------------------------------------------------------------------------------ augmented assignment
# `a += b` (and -=, *=, /=, **=) on a quantity is the binary operator as far as the VALUE bound to the name afterwards goes:
# same magnitudes, same dimension, same refusal.  Python lets a class update the object in place and return it, or return a new
# object; both are fine, so the only demands on the object `a` named before are: if the statement returned it, it now holds the
# result (trivially); if it returned another object, or raised, the old object still holds what it held (no half-made update,
# and nothing the right operand can see changed either).
IOPS = [('add', operator.iadd, operator.add), ('sub', operator.isub, operator.sub), ('mul', operator.imul, operator.mul),
        ('div', operator.itruediv, operator.truediv), ('pow', operator.ipow, operator.pow)]


def same_canon(x, y):
    """two canonical outcomes describe the same value / the same refusal (bit-for-bit: nothing is recomputed between them)"""
    def nn(o):
        return json.dumps(o, sort_keys=True).replace('NaN', '"nan"')
    return nn(x) == nn(y)


def snapshot(obj):
    import numpy as np
    c = L.canon_value(obj)
    if isinstance(obj, np.ndarray):
        c = dict(c, type=type(obj).__name__)
    return c


def inplace_case(ctx, batch, op, mkA, mkB, tag):
    """mkA(), mkB() build fresh operands (object, SI magnitudes, dims, is-array); the left one is a quantity"""
    ifn, bfn = [(i, b) for o, i, b in IOPS if o == op][0]
    a_obj, a_si, a_dim, a_arr = mkA()
    b_obj, b_si, b_dim, b_arr = mkB()
    if not any(a_dim):
        return
    alias, a0, b0 = a_obj, snapshot(a_obj), snapshot(b_obj)
    box = {}

    def stmt():
        box['r'] = ifn(a_obj, b_obj)
        return box['r']
    r = run_op(stmt)
    after_a, after_b = snapshot(alias), snapshot(b_obj)
    binary = run_op(bfn, mkA()[0], mkB()[0])
    exp = oracle(op, a_si, a_dim, a_arr, b_si, b_dim, b_arr)
    inp = {'inplace': op, 'a': {'si': a_si, 'dim': a_dim, 'array': a_arr}, 'b': {'si': b_si, 'dim': b_dim, 'array': b_arr}, 'tag': tag}
    ctx.case(json.dumps(['inplace', op, a_si, a_dim, a_arr, b_si, b_dim, b_arr]), None)
    ctx.count('iop_' + op)
    ctx.count('iop_shape_%s%s' % ('A' if a_arr else 's', 'A' if b_arr else 's' if any(b_dim) else 'n'))
    ctx.count('iop_' + ('raises' if 'err' in r else 'in_place' if box.get('r') is alias else 'new_object'))
    sc = scale_of({'op': op, 'a': {'si': a_si}, 'b': {'si': b_si}})
    bad = None
    if exp is not None and not agrees(r, exp, sc):
        bad = ('augmented assignment on a quantity does not agree with the operation on SI magnitudes and dimensions'
               if 'err' not in exp else 'augmented assignment combines operands of different dimension without the units error', exp)
    elif not (agrees(r, binary, sc) if 'err' not in binary else r.get('err') == binary['err']):
        bad = ('augmented assignment on a quantity does not give what the binary operator gives', binary)
    elif box.get('r') is not alias and not same_canon(after_a, a0):
        bad = ('augmented assignment did not return the left operand and yet changed it' if 'err' not in r else
               'a refused augmented assignment changed its left operand', a0)
    elif not same_canon(after_b, b0):
        bad = ('augmented assignment changed its right operand', b0)
    if bad:
        ctx.violation('%s (%s=)' % (bad[0], {'add': '+', 'sub': '-', 'mul': '*', 'div': '/', 'pow': '**'}[op]), inp, bad[1],
                      {'statement': r, 'left operand afterwards': after_a, 'right operand afterwards': after_b,
                       'returned the left operand itself': box.get('r') is alias}, finding=classify(op, None, None, r, exp))
    batch.append(({'op': 'c11.binop', 'operator': op, 'a': jq(a_si, a_dim, a_arr), 'b': jq(b_si, b_dim, b_arr)}, r, inp))


def running_total(ctx, unit_a, unit_b, mags, array, sub=False):
    """total = 0 [unit_a]; for x in mags: total += x [unit_b]  -- the accumulation idiom; the total is the sum of SI magnitudes"""
    from pgradd.Units import eval_qty
    import numpy as np
    ua, ub = eval_qty(unit_a), eval_qty(unit_b)
    total = (np.zeros(2) if array else 0.0) * ua
    want = [0.0, 0.0] if array else [0.0]
    dim = L.canon_value(ua)['dim']
    steps = []
    for x in mags:
        term = (np.array([x, -x]) if array else float(x)) * ub
        try:
            import warnings
            with warnings.catch_warnings():
                warnings.simplefilter('ignore')
                if sub:
                    total -= term
                else:
                    total += term
        except Exception as e:
            steps.append({'err': L.errclass(e)})
            break
        tv = [x * ub.value, -x * ub.value] if array else [x * ub.value]
        want = [w + (-t if sub else t) for w, t in zip(want, tv)]
    r = canon(total)
    exp = {'arr': want, 'dim': dim} if array else {'val': want[0], 'dim': dim}
    inp = {'running_total': {'start_unit': unit_a, 'term_unit': unit_b, 'terms': list(mags), 'array': array, 'subtract': sub}}
    ctx.case(json.dumps(inp), None)
    ctx.count('iop_running_total')
    if steps or not agrees(r, exp, sum(abs(x) for x in mags) * abs(ub.value)):
        ctx.violation('a running total kept with %s on a quantity is not the sum of the SI magnitudes' % ('-=' if sub else '+='), inp, exp,
                      steps[0] if steps else r)


def inplace_cases(ctx, batch):
    rng = ctx.rng
    base = {'equal': [2.0, 5.0], 'smaller': [1.0, 5.0], 'negative': [-2.0, -0.5], 'zero': [0.0, 0.0]}
    qkinds = [k for k in KINDS if k[1] is not None]
    for (ka, ua, _) in qkinds:
        for (kb, _, ub) in KINDS:
            # every left kind against: its own kind (other unit), a plain number, the bare zero, and two other kinds
            if not (kb == ka or ub is None or ctx.thorough() or rng.random() < 0.2):
                continue
            for a_arr, b_arr in [(False, False), (True, True), (True, False), (False, True)]:
                for rel in base:
                    if kb != ka and rel not in ('equal', 'zero'):
                        continue
                    for op, _, _ in IOPS:
                        if op == 'pow' and rel != 'equal':
                            continue
                        mkA = lambda: make(ka, ua, base['equal'], a_arr) + (a_arr,)
                        mkB = lambda: make(kb, ub, base[rel], b_arr) + (b_arr,)
                        inplace_case(ctx, batch, op, mkA, mkB, '%s:%s:%s' % (ka, kb, rel))
        # ** by plain exponents
        for a_arr in (False, True):
            for k in (2.0, -1.0, 0.0, 0.5, 1.0):
                inplace_case(ctx, batch, 'pow', lambda: make(ka, ua, [2.0, 5.0], a_arr) + (a_arr,),
                             lambda: (k, [k], [0.0] * 7, False), '%s:ipow' % ka)
    for (k, ua, ub) in qkinds:
        for array in (False, True):
            for sub in (False, True):
                running_total(ctx, ua, ub, [1.0, 2.5, -4.0, 0.0, 3.0], array, sub)
    pool = [0.0, 1.0, -1.0, 2.5, 1e3, 1e-3, -7.25, 12.0, 0.5, 3.0]
    for i in range(ctx.n(600, 40000)):
        (ka, ua, _) = rng.choice(qkinds)
        (kb, _, ub) = rng.choice(KINDS) if rng.random() < 0.4 else [k for k in KINDS if k[0] == ka][0]
        a_arr, b_arr = rng.choice([(False, False), (True, True), (True, False), (False, True)])
        ma, mb = [rng.choice(pool), rng.choice(pool)], [rng.choice(pool), rng.choice(pool)]
        op = rng.choice(IOPS[:4])[0]
        inplace_case(ctx, batch, op, lambda: make(ka, ua, ma, a_arr) + (a_arr,), lambda: make(kb, ub, mb, b_arr) + (b_arr,), 'random')


# unit strings that differ only in their blanks and denote different dimensions (a blank is an implicit product)
BLANK_PAIRS = [('m s', 'ms'), ('m in', 'min'), ('m mol', 'mmol'), ('m g', 'mg'), ('m K', 'mK'), ('m A', 'mA'), ('k g', 'kg'),
               ('m N', 'mN'), ('c d', 'cd'), ('m m', 'mm'), ('h Pa', 'hPa')]

# every non-SI unit of the package against an SI unit of the kind it is meant to be, and against one of another kind
UNIT_PAIRS = [('h', 's'), ('h', 'm'), ('min', 's'), ('min', 'm'), ('u', 'kg'), ('lb', 'kg'), ('t', 'kg'), ('t', 's'), ('bar', 'Pa'), ('atm', 'Pa'),
              ('torr', 'Pa'), ('psi', 'Pa'), ('BTU', 'J'), ('cal', 'J'), ('erg', 'J'), ('eV', 'J'), ('eV', 'V'), ('hp', 'W'), ('L', 'm^3'),
              ('L', 'm'), ('ft', 'm'), ('in', 'm'), ('dyn', 'N'), ('lbf', 'N'), ('lbf', 'kg'), ('P', 'Pa s'), ('St', 'm^2/s'),
              ('molecule', 'mol'), ('Ohm', 'V/A'), ('F', 'C/V'), ('W', 'J/s'), ('C', 'A s'), ('N', 'kg m/s^2'), ('J', 'N m'), ('Pa', 'N/m^2')]

STRING_ENTRY_SCRIPT = r"""
import sys, json, io, contextlib, operator
sys.path.insert(0, %r)
from harness import lib_units as U
from pgradd.Units import Quantity, eval_qty
def outcome(f):
    try:
        return U.canon_value(f())
    except Exception as e:
        return {'err': U.errclass(e)}
out = []
with contextlib.redirect_stdout(io.StringIO()):
    for a, b in json.load(sys.stdin):
        qa = outcome(lambda: 2.0 * eval_qty(a)); qb = outcome(lambda: 3.0 * eval_qty(b))
        r = {'a': qa, 'b': qb}
        if 'err' not in qa and 'err' not in qb:
            x, y = 2.0 * eval_qty(a), 3.0 * eval_qty(b)
            r['add'] = outcome(lambda: x + y); r['lt'] = outcome(lambda: x < y); r['in_units'] = outcome(lambda: x.in_units(b))
        out.append(r)
json.dump(out, sys.stdout)
"""


def string_entry_cases(ctx, pairs=None):
    """quantities built from unit strings, in a fresh interpreter and in both orders of first use: the dimension a string
    denotes (the C10 model's) is the one the quantity carries whatever strings were read before, so two strings of
    different dimensions still cannot be added, compared or converted into each other"""
    import subprocess, sys, os
    here = os.path.dirname(os.path.dirname(os.path.abspath(__file__)))
    pairs = pairs or ([list(p) for p in BLANK_PAIRS] + [[b, a] for a, b in BLANK_PAIRS] + [list(p) for p in UNIT_PAIRS])
    texts = sorted({t for p in pairs for t in p})
    # what a unit string denotes: the C10 evaluator over the hand-written SI reference table (not over the package's own
    # definitions, which are what is under test here)
    reps = ctx.model([{'op': 'c10.eval_ref', 'text': t} for t in texts])
    if reps is None:
        return
    den = dict(zip(texts, reps))
    for pair in pairs:
        pr = subprocess.run([sys.executable, '-c', STRING_ENTRY_SCRIPT % here], input=json.dumps([pair]), capture_output=True, text=True, timeout=300)
        if pr.returncode != 0:
            raise common.ImplFailure('building quantities from unit strings', {'strings': pair}, RuntimeError(pr.stderr[-400:]))
        r = json.loads(pr.stdout)[0]
        a, b = pair
        ctx.count('string_entry_pairs')
        ctx.case(json.dumps(['string-entry', a, b]), None)
        inp = {'strings_in_order_of_use': pair}
        for t, q in ((a, r['a']), (b, r['b'])):
            m = den[t]
            if 'dim' in m and ('dim' not in q or not L.dim_matches(q['dim'], m['dim'])):
                ctx.violation('a quantity built from a unit string does not carry the dimension the string denotes', dict(inp, string=t),
                              m.get('dim'), q)
                return
        ma, mb = den[a], den[b]
        if 'dim' not in ma or 'dim' not in mb or 'add' not in r:
            continue
        if not L.dim_matches([float(x) for x in _dimf(ma['dim'])], mb['dim']):
            for op in ('add', 'lt', 'in_units'):
                if r[op].get('err') != 'unitsError':
                    ctx.violation('quantities of different dimensions (built from unit strings) are combined without a units error',
                                  dict(inp, operation=op), 'unitsError', r[op])
                    return
        elif 'val' in ma and 'val' in mb:
            va, vb = 2.0 * float(common.unjrat(ma['val'])), 3.0 * float(common.unjrat(mb['val']))
            want = {'add': va + vb, 'lt': va < vb, 'in_units': va / (vb / 3.0)}
            got = {'add': r['add'].get('val'), 'lt': r['lt'].get('bool'), 'in_units': r['in_units'].get('val')}
            for op in ('add', 'lt', 'in_units'):
                ok = got[op] is not None and (got[op] == want[op] if op == 'lt' else abs(got[op] - want[op]) <= 2e-6 * max(abs(want[op]), abs(va) + abs(vb) if op == 'add' else 0.0))
                if not ok:
                    ctx.violation('quantities of the same dimension (built from unit strings) do not combine as their SI magnitudes',
                                  dict(inp, operation=op), want[op], r[op])
                    return


def _dimf(d):
    return [float(common.unjrat(x)) if not isinstance(x, (int, float)) else float(x) for x in d]


def run(ctx):
    with L.quiet():
        _run(ctx)
        churn_cases(ctx)
        string_entry_cases(ctx)


def _run(ctx):
    if not L.importable(ctx):
        return
    rng = ctx.rng
    batch = []
    for fname, rec in common.load_corpus('C11'):
        ctx.count('corpus')
        _replay(ctx, rec, batch)
    base = {'equal': [2.0, 5.0], 'smaller': [1.0, 5.0], 'larger': [3.0, 7.5], 'negative': [-2.0, -0.5], 'zero': [0.0, 0.0]}
    shapes = [(False, False), (True, True), (True, False), (False, True)]
    for (ka, ua, _), (kb, _, ub) in itertools.product(KINDS, KINDS):
        for a_arr, b_arr in shapes:
            if not ctx.thorough() and (a_arr != b_arr) and rng.random() < 0.5:
                continue
            A = make(ka, ua, base['equal'], a_arr) + (a_arr,)
            for rel in RELS:
                # the right operand carries `rel` times the SI magnitude of the left one (so `equal` is equal in SI)
                if ub is None or ua is None:
                    mags = base[rel]
                else:
                    from pgradd.Units import eval_qty
                    f = eval_qty(ua).value / eval_qty(ub).value if ka == kb else 1.0
                    mags = [m * f for m in base[rel]]
                B = make(kb, ub, mags, b_arr) + (b_arr,)
                for op, fn in BINOPS:
                    if op == 'pow':
                        continue
                    one_case(ctx, batch, op, fn, A, B, '%s:%s:%s' % (ka, kb, rel))
    # small regimes of the bare-zero clause: a dimensionless operand is accepted by + - < <= > >= only when it IS zero, however
    # small it is otherwise (denormal, below any absolute tolerance, an array with one tiny non-zero element among zeros)
    tiny = [([5e-324], False), ([1e-300], False), ([1e-12], False), ([-3e-9], False), ([9.9e-9], False), ([1e-7], False),
            ([0.0, 3e-9], True), ([-1e-12, 0.0], True), ([0.0, 0.0], True), ([-0.0], False)]
    for (ka, ua, _) in KINDS:
        if ua is None:
            continue
        for q_arr in (False, True):
            Q = make(ka, ua, base['equal'], q_arr) + (q_arr,)
            for mags, t_arr in tiny:
                P = make('plain', None, mags, t_arr) + (t_arr,)
                for op, fn in BINOPS:
                    if op not in ('add', 'sub', 'lt', 'le', 'gt', 'ge', 'eq', 'ne'):
                        continue      # products and quotients with denormals overflow: floating point, not this clause
                    ctx.count('tiny_plain_operand')
                    one_case(ctx, batch, op, fn, Q, P, '%s:tiny-plain' % ka)
                    one_case(ctx, batch, op, fn, P, Q, 'tiny-plain:%s' % ka)
    # powers: quantity ** plain exponent (integer, negative, zero, fractional, near-integer), and the TypeError cases
    from pgradd.Units import eval_qty
    for (ka, ua, _) in KINDS:
        for a_arr in (False, True):
            for mags in ([2.0, 5.0], [-2.0, -0.5], [0.0, 0.0], [1.0, 1.0]):
                A = make(ka, ua, mags, a_arr) + (a_arr,)
                for k in [2.0, 3.0, -1.0, 0.0, 1.0, 0.5, -0.5, 1.5, 0.25, 2.0000000001, 0.3333333333, 0.999999, 1e-8]:
                    B = (k, [k], [0.0] * 7, False)
                    one_case(ctx, batch, 'pow', operator.pow, A, B, '%s:pow' % ka)
                for (kb, _, ub) in KINDS[:3]:
                    B = make(kb, ub, [2.0, 2.0], False) + (False,)
                    one_case(ctx, batch, 'pow', operator.pow, A, B, '%s:pow-by-quantity' % ka)
                # unary
                for op, fn in UNOPS:
                    a_obj, a_si, a_dim, _ = A
                    if not any(a_dim):
                        continue
                    r = run_op(fn, a_obj)
                    want = [(-v if op == 'neg' else abs(v)) for v in a_si]
                    exp = {'arr': want, 'dim': a_dim} if a_arr else {'val': want[0], 'dim': a_dim}
                    inp = {'op': op, 'a': {'si': a_si, 'dim': a_dim, 'array': a_arr}}
                    ctx.case(json.dumps([op, a_si, a_dim, a_arr]), None)
                    ctx.count('op_' + op)
                    if not agrees(r, exp):
                        ctx.violation('unary operator does not agree with the operation on SI magnitudes (%s)' % op, inp, exp, r)
                    batch.append(({'op': 'c11.unop', 'operator': op, 'a': jq(a_si, a_dim, a_arr)}, r, inp))
    # conversion between every ordered pair of kinds
    for (ka, ua, _), (kb, _, ub) in itertools.product(KINDS, KINDS):
        if ua is None or ub is None:
            continue
        for a_arr in (False, True):
            a_obj, a_si, a_dim, _ = make(ka, ua, [2.0, 5.0], a_arr) + (a_arr,)
            u = eval_qty(ub)
            uc = L.canon_value(u)
            for how in ('str', 'qty'):
                r = run_op(lambda: a_obj.in_units(ub if how == 'str' else u))
                same = a_dim == uc['dim']
                want = [v / uc['val'] for v in a_si]
                exp = ({'arr': want, 'dim': [0.0] * 7} if a_arr else {'val': want[0], 'dim': [0.0] * 7}) if same else {'err': 'unitsError'}
                inp = {'op': 'in_units', 'a': {'si': a_si, 'dim': a_dim, 'array': a_arr}, 'b': {'si': [uc['val']], 'dim': uc['dim'], 'array': False}, 'units': ub}
                ctx.case(json.dumps(['in_units', a_si, a_dim, a_arr, ub, how]), None)
                ctx.count('op_in_units')
                if not agrees(r, exp):
                    ctx.violation('conversion: ' + ('not the ratio of SI magnitudes' if same else 'different dimension without the units error'),
                                  inp, exp, r)
                batch.append(({'op': 'c11.in_units', 'a': jq(a_si, a_dim, a_arr), 'b': jq([uc['val']], uc['dim'], False)}, r, inp))
    # construction of array quantities: ArrayQuantity(numbers, units=u) and ArrayQuantity([quantities]) are the numbers times u
    construction_cases(ctx)
    # augmented assignment: += -= *= /= **= on scalar and array quantities, and running totals
    inplace_cases(ctx, batch)
    # one dimension written by two float routes; exponents next to the threshold of the units comparison
    route_operand_cases(ctx, batch)
    near_threshold_cases(ctx, batch)
    # random magnitudes on random pairs
    for i in range(ctx.n(3000, 200000)):
        (ka, ua, _), (kb, _, ub) = rng.choice(KINDS), rng.choice(KINDS)
        if rng.random() < 0.5:
            kb, ub = ka, (ub if False else [k for k in KINDS if k[0] == ka][0][2])
        a_arr, b_arr = rng.choice(shapes)
        pool = [0.0, 1.0, -1.0, 2.5, 1e3, 1e-3, -7.25, 12.0, 0.5, 3.0]
        ma = [rng.choice(pool), rng.choice(pool)]
        mb = [rng.choice(pool), rng.choice(pool)] if rng.random() < 0.7 else list(ma)
        A = make(ka, ua, ma, a_arr) + (a_arr,)
        B = make(kb, ub, mb, b_arr) + (b_arr,)
        op, fn = rng.choice(BINOPS[:10])
        one_case(ctx, batch, op, fn, A, B, 'random')
    replies = ctx.model([b[0] for b in batch])
    if replies is not None:
        for (req, impl, inp), rep in zip(batch, replies):
            ctx.count('corr_' + req['op'])
            ctx.count('model_' + (rep['err'] if 'err' in rep else 'inexact' if 'inexact' in rep else 'bool' if ('bool' in rep or 'bools' in rep) else 'value'))
            if not same_outcome(impl, rep, scale_of(inp)):
                ctx.disagree('corr:' + req['op'] + ':' + req.get('operator', ''), inp, impl, rep)


def scale_of(inp):
    """sum of |terms| for additive operations (DESIGN 2.3): cancellation leaves only rounding of the operands"""
    if inp.get('op') in ('add', 'sub'):
        return max(abs(v) for v in inp['a']['si']) + max(abs(v) for v in inp['b']['si'])
    return 0.0


def construction_case(ctx, mags, unit, how):
    from pgradd.Units import eval_qty, ArrayQuantity
    u = eval_qty(unit)
    uc = L.canon_value(u)
    if how == 'units=':
        r = run_op(lambda: ArrayQuantity(list(mags), units=unit))
    elif how == 'bundle':
        r = run_op(lambda: ArrayQuantity([x * u if x != 0 or i % 2 else 0 for i, x in enumerate(mags)]))
    else:
        r = run_op(lambda: ArrayQuantity([x * u for x in mags], units=unit))
    # `units=` names the dimension only: the numbers given are SI magnitudes (the class stores SI values, see its docstring);
    # quantities in the contents carry their own SI magnitude
    exp = {'arr': [x * (1.0 if how == 'units=' else uc['val']) for x in mags], 'dim': uc['dim']}
    inp = {'op': 'construct', 'how': how, 'mags': list(mags), 'units': unit}
    ctx.case(json.dumps(['construct', how, list(mags), unit]), None)
    ctx.count('op_construct_' + how)
    if how == 'bundle' and all(x == 0 for x in mags):
        return           # nothing in the contents carries units: a TypeError is the documented outcome
    if not agrees(r, exp):
        ctx.violation('an array quantity built from numbers and units is not the numbers times the unit', inp, exp, r)


def construction_cases(ctx):
    for (k, ua, ub) in KINDS:
        if ua is None:
            continue
        for mags in ([2.0, 5.0], [0.0, 0.0], [0.0, 3.0], [-1.5, 0.0, 2.0], [4.0]):
            for how in ('units=', 'bundle', 'both'):
                for unit in (ua, ub):
                    construction_case(ctx, mags, unit, how)


def same_outcome(impl, rep, scale=0.0):
    if 'inexact' in rep:
        if 'err' in impl or not L.dim_matches(impl.get('dim', []), rep['dim']):
            return False
        return ('val' in impl) if rep['inexact'] is None else ('arr' in impl and len(impl['arr']) == rep['inexact'])
    if rep.get('err') == 'internal:complex':
        return impl.get('err') in ('internal:complex', 'internal:AssertionError')
    return L.same_outcome(impl, rep, scale)


def _replay(ctx, rec, batch):
    import numpy as np
    from pgradd.Units import Quantity, FundamentalUnits
    inp = rec.get('input', rec)
    before = len(ctx.violations)

    def build(o):
        prim = list(FundamentalUnits._primitive_units)
        exps = np.array([dict(zip(L.PRIMS, o['dim'])).get(p, 0.0) for p in prim])
        val = np.array(o['si'], dtype=float) if o['array'] else float(o['si'][0])
        if not any(o['dim']):
            return val
        return val * Quantity(1.0, FundamentalUnits(exps, np.zeros(len(prim), dtype=bool)))
    if 'route_pair' in inp:
        global ROUTE_PAIRS
        keep, ROUTE_PAIRS = ROUTE_PAIRS, [p for p in ROUTE_PAIRS if [p[0], p[1]] == inp['route_pair']]
        try:
            route_operand_cases(ctx, batch)
        finally:
            ROUTE_PAIRS = keep
        return len(ctx.violations) == before
    if 'near_threshold' in inp:
        near_case(ctx, batch, inp['near_threshold'][0], inp['near_threshold'][1],
                  [inp['operation'], inp['order']] + list(inp['arrays']))
        return len(ctx.violations) == before
    if 'running_total' in inp:
        h = inp['running_total']
        running_total(ctx, h['start_unit'], h['term_unit'], h['terms'], h['array'], h['subtract'])
        return len(ctx.violations) == before
    if 'inplace' in inp:
        a, b = inp['a'], inp['b']
        inplace_case(ctx, batch, inp['inplace'], lambda: (build(a), a['si'], a['dim'], a['array']),
                     lambda: (build(b), b['si'], b['dim'], b['array']), 'replay')
        return len(ctx.violations) == before
    if inp['op'] == 'construct':
        construction_case(ctx, inp['mags'], inp['units'], inp['how'])
        return len(ctx.violations) == before
    a = inp['a']
    A = (build(a), a['si'], a['dim'], a['array'])
    if inp['op'] in ('neg', 'abs'):
        r = run_op(dict(UNOPS)[inp['op']], A[0])
        want = [(-v if inp['op'] == 'neg' else abs(v)) for v in a['si']]
        exp = {'arr': want, 'dim': a['dim']} if a['array'] else {'val': want[0], 'dim': a['dim']}
        if not agrees(r, exp):
            ctx.violation('unary operator does not agree with the operation on SI magnitudes (%s)' % inp['op'], inp, exp, r)
    elif inp['op'] == 'in_units':
        b = inp['b']
        r = run_op(lambda: A[0].in_units(build(b)))
        same = a['dim'] == b['dim']
        want = [v / b['si'][0] for v in a['si']]
        exp = ({'arr': want, 'dim': [0.0] * 7} if a['array'] else {'val': want[0], 'dim': [0.0] * 7}) if same else {'err': 'unitsError'}
        if not agrees(r, exp):
            ctx.violation('conversion does not follow the property', inp, exp, r)
    else:
        b = inp['b']
        B = (build(b), b['si'], b['dim'], b['array'])
        one_case(ctx, batch, inp['op'], dict(BINOPS)[inp['op']], A, B, 'replay')
    return len(ctx.violations) == before


def replay(ctx, rec):
    with L.quiet():
        if 'import' in rec.get('input', rec):
            return L.importable(ctx)
        if 'churn_seed' in rec.get('input', rec):
            before = len(ctx.violations)
            churn_cases(ctx, rec.get('input', rec)['churn_seed'])
            return len(ctx.violations) == before
        if 'strings_in_order_of_use' in rec.get('input', rec):
            before = len(ctx.violations)
            string_entry_cases(ctx, [rec.get('input', rec)['strings_in_order_of_use']])
            return len(ctx.violations) == before
        return _replay(ctx, rec, [])


LEVEL_TEXT = ('Lean 4 theorems over an executable model of the quantity algebra (pgradd/Units/qty.py), for all pairs of operands '
              '(scalar or array of any length, any rational magnitudes, any dimension): dimensions differing by more than the documented '
              'threshold (1e-7) in some exponent — for integer exponents: any different dimensions — make + - < <= > >= and '
              'conversion end in the units error and == false (!= true), a bare zero being the only dimensionless operand accepted; '
              'equal dimensions (and dimensions within the threshold in every exponent, which is exactly when conversion succeeds) '
              'make every operator agree with the operation on SI magnitudes, sums carrying the left operand\'s units; * / ** add, subtract and scale the '
              'dimension and the result is a plain number exactly when the dimension cancels. Tied to the code by a correspondence run '
              'exhaustive over dimension pairs x operations x magnitude relations x scalar/array shapes.')
LEVEL_NOTE = ('Trusted: Lean kernel; standard axioms; the correspondence harness; the decimal-literal abstraction; Python/numpy operator '
              'dispatch (which method runs), exercised but not proved. Partial: the exponent-scaling law is stated for exponents whose '
              'products with the dimension are integers or farther than the snapping threshold (1e-7) from an integer; the threshold '
              'itself is modelled.')
TECHNIQUE = 'Lean 4 proof over hand-written model + correspondence check'
